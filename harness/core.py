"""Shared machinery of the /verif checks (see DESIGN.md §3.1).

A property plug-in is a module harness/props/<ID>.py exposing

    ID, META (dict: level_text, level_note, technique, design_ref, partial: bool)
    COQ_PROPS      : path (relative to coq/) of the file that holds ONLY the property theorems
    COQ_EXTRA      : optional list of further .v targets to build (e.g. extraction files)
    generate(ctx)  : (optional) regenerate translator output under coq/generated/<ID>/ via ctx.write_generated;
                     raise TieBroken(...) when the source left the translatable subset
    correspond(ctx): (optional) differential run model vs implementation; returns Corr(...)
    oracle(ctx, budget): executable statement of the property on the IMPLEMENTATION; returns list[Failure]
    replay(ctx, case): (optional) re-run one stored case, return a printable dict

The driver (`/verif/check`) sequences regenerate -> build/audit proofs -> tie -> decide -> evidence.
"""
from __future__ import annotations

import dataclasses
import fcntl
import hashlib
import json
import os
import random
import re
import shutil
import subprocess
import sys
import time
from typing import Any, Callable, Dict, List, Optional, Sequence, Tuple

VERIF = os.path.dirname(os.path.dirname(os.path.abspath(__file__)))
REPO = os.environ.get('VERIF_REPO', '/repo')
COQ_MAIN = os.path.join(VERIF, 'coq')
SCRATCH = os.path.realpath(REPO) != '/repo'
# A run against a scratch tree (VERIF_REPO=<worktree>, tools/run_seeded.py and mutation tests) builds in its OWN copy of the Coq
# tree: the translators regenerate coq/generated/<ID>/ from the changed source, which must not be seen by a concurrent check of /repo.
COQ = COQ_MAIN if not SCRATCH else os.path.join(VERIF, '.work', 'scratch-coq', hashlib.sha1(os.path.realpath(REPO).encode()).hexdigest()[:12])
PY = '/venv/bin/python'


def prepare_scratch_coq():
    """Copy /verif/coq (sources and compiled files, timestamps kept) to this run's scratch Coq tree."""
    if not SCRATCH:
        return
    os.makedirs(COQ, exist_ok=True)
    import fcntl
    import glob as _glob
    # hold the area locks of the main tree while copying, so that no half-written .vo is copied
    locks = [open(q, 'a') for q in sorted(_glob.glob(os.path.join(COQ_MAIN, '.lock.*')))]
    for l in locks:
        fcntl.flock(l, fcntl.LOCK_EX)
    try:
        subprocess.run(['rsync', '-a', '--delete', '--exclude', '.lock.*', '--exclude', '.build.lock', '--exclude', 'cases_*',
                        COQ_MAIN + '/', COQ + '/'], check=True)
    finally:
        for l in reversed(locks):
            fcntl.flock(l, fcntl.LOCK_UN)
            l.close()
LOADER_DIR = os.path.join(VERIF, 'harness', 'loader')
NPROC = os.cpu_count() or 4


class TieBroken(Exception):
    """The translator or the correspondence cannot be established on the current source."""

    def __init__(self, name: str, detail: str = ''):
        super().__init__(f'{name}: {detail}')
        self.name = name
        self.detail = detail


class HarnessError(Exception):
    """A bug or missing tool in the harness itself: exit status 3, never a VIOLATION line."""


@dataclasses.dataclass
class Failure:
    """A concrete input/history on which the IMPLEMENTATION violates the property."""
    key: str                 # stable finding key (class of failing input / call site / history)
    what: str                # one-line human description
    case: Any                # the replayable input / op sequence / schedule
    expected: Any = None
    observed: Any = None


@dataclasses.dataclass
class Disagreement:
    """Model and implementation differ on a case (the tie is broken there)."""
    name: str                # which correspondence
    case: Any
    model: Any
    impl: Any


@dataclasses.dataclass
class Corr:
    evaluations: int = 0
    distinct_nontrivial: int = 0
    rule: str = ''
    samples: List[Any] = dataclasses.field(default_factory=list)
    disagreements: List[Disagreement] = dataclasses.field(default_factory=list)
    histograms: Dict[str, Any] = dataclasses.field(default_factory=dict)
    exhaustive: bool = False
    names: List[str] = dataclasses.field(default_factory=list)   # correspondences exercised

    def merge(self, other: 'Corr') -> 'Corr':
        self.evaluations += other.evaluations
        self.distinct_nontrivial += other.distinct_nontrivial
        self.rule = (self.rule + ' | ' + other.rule).strip(' |')
        self.samples += other.samples
        self.disagreements += other.disagreements
        self.histograms.update(other.histograms)
        self.exhaustive = self.exhaustive and other.exhaustive
        self.names += other.names
        return self


# ------------------------------------------------------------------------------------------------
# context

class Ctx:
    def __init__(self, pid: str, tier: str, seed: int):
        self.pid = pid
        self.tier = tier
        self.seed = seed
        self.rng = random.Random(seed)
        self.repo = REPO
        self.verif = VERIF
        self.t0 = time.time()
        self.work = os.path.join(VERIF, '.work', f'{pid}-{os.getpid()}')
        os.makedirs(self.work, exist_ok=True)
        self.gen_dir = os.path.join(COQ, 'generated', pid)
        self.notes: List[str] = []
        self.trusted: List[str] = []
        self.assumptions: List[str] = []
        self.generated_files: List[str] = []

    @property
    def thorough(self) -> bool:
        return self.tier == 'thorough'

    def scale(self, quick: int, thorough: int) -> int:
        return thorough if self.thorough else quick

    def cleanup(self):
        shutil.rmtree(self.work, ignore_errors=True)

    # ---- repo access
    def read_repo(self, rel: str) -> str:
        with open(os.path.join(self.repo, rel), encoding='utf-8') as f:
            return f.read()

    def repo_hashes(self, rels: Sequence[str]) -> Dict[str, str]:
        out = {}
        for r in rels:
            try:
                out[r] = hashlib.sha256(open(os.path.join(self.repo, r), 'rb').read()).hexdigest()[:16]
            except OSError:
                out[r] = 'missing'
        return out

    # ---- generated Coq
    def write_generated(self, name: str, text: str) -> str:
        """Write coq/generated/<ID>/<name> only if the content changed (keeps make incremental)."""
        os.makedirs(self.gen_dir, exist_ok=True)
        path = os.path.join(self.gen_dir, name)
        old = None
        if os.path.exists(path):
            with open(path) as f:
                old = f.read()
        if old != text:
            tmp = path + f'.tmp{os.getpid()}'
            with open(tmp, 'w') as f:
                f.write(text)
            os.replace(tmp, path)
        self.generated_files.append(path)
        return path

    # ---- running the implementation
    def run_impl(self, script: str, payload: Any, timeout: int = 600, env: Optional[dict] = None,
                 python: str = PY) -> Any:
        """Run harness/impl/<script> in a /venv subprocess with the loader on sys.path.
        The script reads one JSON document on stdin and writes one JSON document on stdout."""
        path = script if os.path.isabs(script) else os.path.join(VERIF, 'harness', 'impl', script)
        e = dict(os.environ)
        e.update({'PYTHONHASHSEED': '0', 'VERIF_REPO': self.repo, 'PYTHONDONTWRITEBYTECODE': '1',
                  'PYTHONPATH': LOADER_DIR + os.pathsep + os.path.join(VERIF, 'harness'),
                  'VERIF_WORK': self.work})
        e.pop('HAIL_VERIF', None)
        if env:
            e.update(env)
        def limit():      # a changed implementation may loop or allocate without bound: fail (tie broken), do not take the box down
            import resource
            resource.setrlimit(resource.RLIMIT_AS, (12 << 30, 12 << 30))
        try:
            p = subprocess.run([python, '-u', path], input=json.dumps(payload), capture_output=True, text=True,
                               timeout=timeout, env=e, cwd=self.work, preexec_fn=limit)
        except subprocess.TimeoutExpired:
            raise ImplCrash(script, -9, f'timeout after {timeout}s')
        if p.returncode != 0:
            raise ImplCrash(script, p.returncode, p.stderr[-4000:])
        try:
            return json.loads(p.stdout)
        except json.JSONDecodeError as ex:
            raise ImplCrash(script, 0, f'bad JSON from impl script: {ex}; stdout head: {p.stdout[:500]} stderr: {p.stderr[-2000:]}')


class ImplCrash(Exception):
    """The implementation-side script died. After a repo edit this means 'tie broken' (DESIGN §3.1)."""

    def __init__(self, script, rc, stderr):
        super().__init__(f'{script} rc={rc}: {stderr}')
        self.script = script
        self.rc = rc
        self.stderr = stderr


# ------------------------------------------------------------------------------------------------
# Coq build

COQ_FLAGS = ['-Q', 'theories', 'HailV', '-Q', 'generated', 'HailG']
FORBIDDEN = re.compile(r'\b(Admitted|admit|Axiom|Axioms|Parameter|Parameters|Conjecture|Conjectures|Hypothesis|Hypotheses|Variable|Variables|Admit Obligations|'
                       r'Unset Guard Checking|Unset Positivity Checking|Unset Universe Checking|bypass_check|type-in-type|impredicative-set|native_compute)\b')


class _Lock:
    def __init__(self, path):
        self.path = path

    def __enter__(self):
        os.makedirs(os.path.dirname(self.path), exist_ok=True)
        self.f = open(self.path, 'w')
        fcntl.flock(self.f, fcntl.LOCK_EX)
        return self

    def __exit__(self, *a):
        fcntl.flock(self.f, fcntl.LOCK_UN)
        self.f.close()


def _all_v_files() -> List[str]:
    out = []
    for top in ('theories', 'generated'):
        for d, _, fs in os.walk(os.path.join(COQ, top)):
            for f in fs:
                if f.endswith('.v') and not f.startswith('.') and not f.startswith('cases_'):
                    out.append(os.path.relpath(os.path.join(d, f), COQ))
    return sorted(out)


_REQ_RE = re.compile(r'(?:From\s+(HailV|HailG)\s+)?Require\s+(?:Import\s+|Export\s+)?([^.]*(?:\.[A-Za-z_][^.\s]*)*)\s*\.(?=\s|$)')


def dependency_closure(root_rel: str) -> List[str]:
    """Files of the development (theories/ + generated/) that `root_rel` transitively Requires (textual scan)."""
    seen: List[str] = []
    todo = [root_rel]
    while todo:
        rel = todo.pop()
        if rel in seen:
            continue
        path = os.path.join(COQ, rel)
        if not os.path.exists(path):
            continue
        seen.append(rel)
        src = _strip_coq_comments(open(path).read())
        for m in re.finditer(r'(?:From\s+(HailV|HailG)\s+)?Require\s+(?:Import\s+|Export\s+)?((?:[\w\']+(?:\.[\w\']+)*\s*)+)\.', src):
            prefix = m.group(1)
            for mod in m.group(2).split():
                parts = mod.split('.')
                if parts[0] in ('HailV', 'HailG'):
                    pre, parts = parts[0], parts[1:]
                elif prefix:
                    pre = prefix
                else:
                    continue
                cand = os.path.join('theories' if pre == 'HailV' else 'generated', *parts) + '.v'
                if os.path.exists(os.path.join(COQ, cand)):
                    todo.append(cand)
    return sorted(seen)


def audit_sources(files: Sequence[str]) -> List[str]:
    """Forbidden vernacular in the development (comments stripped). Section-local Variable/Hypothesis are allowed
    only inside a Section; we check that textually."""
    bad = []
    for rel in files:
        src = open(os.path.join(COQ, rel)).read()
        src = _strip_coq_comments(src)
        depth = 0
        for ln, line in enumerate(src.split('\n'), 1):
            s = line.strip()
            if re.match(r'^Section\b', s):
                depth += 1
            elif re.match(r'^End\b', s) and depth > 0:
                depth -= 1
            for m in FORBIDDEN.finditer(line):
                w = m.group(1)
                if w in ('Variable', 'Variables', 'Hypothesis', 'Hypotheses') and depth > 0:
                    continue
                if w in ('Parameter', 'Parameters') and False:
                    continue
                bad.append(f'{rel}:{ln}: {w}')
    return bad


def _strip_coq_comments(src: str) -> str:
    out = []
    depth = 0
    i = 0
    in_str = False
    while i < len(src):
        c = src[i]
        if depth == 0 and c == '"':
            in_str = not in_str
            out.append(c)
            i += 1
            continue
        if not in_str and src.startswith('(*', i):
            depth += 1
            i += 2
            continue
        if not in_str and depth > 0 and src.startswith('*)', i):
            depth -= 1
            i += 2
            continue
        if depth == 0:
            out.append(c)
        elif c == '\n':
            out.append(c)
        i += 1
    return ''.join(out)


def _area_locks(rels: Sequence[str]) -> List[str]:
    """Lock files for the areas (first directory below theories/ or generated/) touched by building `rels`."""
    areas = set()
    for rel in rels:
        v = rel[:-3] + '.v' if rel.endswith('.vo') else rel
        for f in dependency_closure(v) or [v]:
            parts = f.split('/')
            areas.add(parts[1] if len(parts) > 2 else parts[0])
    return [os.path.join(COQ, f'.lock.{a}') for a in sorted(areas)]


class _Locks:
    def __init__(self, paths):
        self.locks = [_Lock(p) for p in paths]

    def __enter__(self):
        for l in self.locks:
            l.__enter__()
        return self

    def __exit__(self, *a):
        for l in reversed(self.locks):
            l.__exit__(*a)


def coq_make(targets: Sequence[str], timeout: int = 900) -> Tuple[bool, str]:
    """Build the given .vo targets (paths relative to coq/) with coq_makefile + make.
    The Makefile is regenerated under a global lock; the build itself only locks the areas in the targets'
    dependency closure (acquired in sorted order), so checks of unrelated properties build concurrently."""
    with _Lock(os.path.join(COQ, '.build.lock')):
        files = _all_v_files()
        proj = ' '.join(COQ_FLAGS[:3]) + '\n' + ' '.join(COQ_FLAGS[3:]) + '\n' + '\n'.join(files) + '\n'
        pp = os.path.join(COQ, '_CoqProject')
        old = open(pp).read() if os.path.exists(pp) else None
        if old != proj or not os.path.exists(os.path.join(COQ, 'Makefile.coq')):
            with open(pp, 'w') as f:
                f.write(proj)
            r = subprocess.run(['coq_makefile', '-f', '_CoqProject', '-o', 'Makefile.coq'], cwd=COQ,
                               capture_output=True, text=True)
            if r.returncode != 0:
                raise HarnessError('coq_makefile failed: ' + r.stderr)
        # refresh the dependency file (cheap) while we hold the global lock, so that make does not rewrite it concurrently
        subprocess.run(['timeout', '300', 'make', '-f', 'Makefile.coq', '.Makefile.coq.d'], cwd=COQ, capture_output=True, text=True)
    with _Locks(_area_locks(targets)):
        cmd = ['timeout', str(timeout), 'make', '-f', 'Makefile.coq', f'-j{NPROC}', '-k'] + list(targets)
        r = subprocess.run(cmd, cwd=COQ, capture_output=True, text=True)
        return r.returncode == 0, r.stdout + '\n' + r.stderr


_ERR_RE = re.compile(r'File "\./?([^"]+)", line (\d+), characters')


def locate_failing_lemma(log: str) -> Tuple[Optional[str], Optional[str], Optional[int], str]:
    """(file, lemma name, line, message) of the first Coq error in a build log."""
    m = _ERR_RE.search(log)
    if not m:
        return None, None, None, log[-1500:]
    f, ln = m.group(1), int(m.group(2))
    msg = log[m.start(): m.start() + 1500]
    name = None
    try:
        lines = open(os.path.join(COQ, f)).read().split('\n')
        for i in range(min(ln, len(lines)) - 1, -1, -1):
            mm = re.match(r'\s*(?:Local\s+|Global\s+|#\[[^\]]*\]\s*)*(Theorem|Lemma|Corollary|Fact|Proposition|Example|Definition|Fixpoint|Instance|Program\s+\w+|Function|Equations)\s+([\w\']+)', lines[i])
            if mm:
                name = mm.group(2)
                break
    except OSError:
        pass
    return f, name, ln, msg


def props_theorems(props_rel: str) -> List[str]:
    src = _strip_coq_comments(open(os.path.join(COQ, props_rel)).read())
    return re.findall(r'^\s*Theorem\s+([\w\']+)', src, flags=re.M)


def coqc_props(props_rel: str, timeout: int = 600) -> Tuple[bool, str, Dict[str, List[str]]]:
    """Compile the Props file itself (after its dependencies were made) capturing `Print Assumptions` output.
    Returns (ok, log, {theorem: [axioms]})  — [] means 'Closed under the global context'."""
    cmd = ['timeout', str(timeout), 'coqc'] + COQ_FLAGS + [props_rel]
    with _Locks(_area_locks([props_rel])):
        r = subprocess.run(cmd, cwd=COQ, capture_output=True, text=True)
    log = r.stdout + '\n' + r.stderr
    thms = props_theorems(props_rel)
    src = _strip_coq_comments(open(os.path.join(COQ, props_rel)).read())
    printed = re.findall(r'Print Assumptions\s+([\w\'.]+)\s*\.', src)
    # split stdout into blocks: each Print Assumptions produces either "Closed under the global context" or "Axioms:\n ..."
    blocks = re.split(r'(?m)^(?=Closed under the global context|Axioms:)', r.stdout)
    blocks = [b for b in blocks if b.startswith('Closed under') or b.startswith('Axioms:')]
    assumptions: Dict[str, List[str]] = {}
    for name, b in zip(printed, blocks):
        if b.startswith('Closed'):
            assumptions[name] = []
        else:
            ax = re.findall(r'(?m)^([\w\'.]+)\s*:', b)
            assumptions[name] = ax
    ok = r.returncode == 0
    if ok:
        missing = [t for t in thms if t not in assumptions]
        if missing:
            ok = False
            log += f'\nProps file lacks Print Assumptions for: {missing}'
    return ok, log, assumptions


# ------------------------------------------------------------------------------------------------
# evaluating the model inside Coq (cases.v + vm_compute)

def coq_eval(ctx: Ctx, header: str, exprs: Sequence[str], shard: int = 400, timeout: int = 900,
             label: str = 'cases') -> List[Any]:
    """Evaluate each Gallina expression with vm_compute and return the parsed values (see parse_coq_value).
    `header` holds the Require/Import/Open Scope lines. Sharded over processes."""
    if not exprs:
        return []
    shards = [list(exprs[i:i + shard]) for i in range(0, len(exprs), shard)]
    files = []
    for k, sh in enumerate(shards):
        name = f'cases_{ctx.pid}_{os.getpid()}_{label}_{k}'
        path = os.path.join(ctx.work, name + '.v')
        with open(path, 'w') as f:
            f.write(header + '\nSet Printing Width 100000000.\nSet Printing Depth 100000000.\nUnset Printing Notations.\nSet Printing Notations.\n')
            for e in sh:
                f.write(f'Eval vm_compute in ({e}).\n')
        files.append(path)
    procs = []
    results: List[Optional[str]] = [None] * len(files)
    running: List[Tuple[int, subprocess.Popen]] = []

    def launch(i):
        cmd = ['timeout', str(timeout), 'coqc'] + _abs_flags() + ['-o', files[i][:-2] + '.vo', files[i]]
        return subprocess.Popen(cmd, cwd=ctx.work, stdout=subprocess.PIPE, stderr=subprocess.PIPE, text=True)

    nxt = 0
    while nxt < len(files) or running:
        while nxt < len(files) and len(running) < NPROC:
            running.append((nxt, launch(nxt)))
            nxt += 1
        i, p = running.pop(0)
        out, err = p.communicate()
        if p.returncode != 0:
            for _, q in running:
                q.kill()
            raise CoqEvalError(f'coqc failed on {files[i]}: {err[-3000:]}')
        results[i] = out
    values: List[Any] = []
    for i, out in enumerate(results):
        vals = _split_eval_output(out or '')
        if len(vals) != len(shards[i]):
            raise CoqEvalError(f'expected {len(shards[i])} results from {files[i]}, got {len(vals)}')
        values += [parse_coq_value(v) for v in vals]
    return values


class CoqEvalError(Exception):
    pass


def _abs_flags() -> List[str]:
    return ['-Q', os.path.join(COQ, 'theories'), 'HailV', '-Q', os.path.join(COQ, 'generated'), 'HailG']


def _split_eval_output(out: str) -> List[str]:
    vals = []
    cur = None
    for line in out.split('\n'):
        if line.startswith('     = '):
            if cur is not None:
                vals.append(cur)
            cur = line[7:]
        elif line.startswith('     : '):
            if cur is not None:
                vals.append(cur)
                cur = None
        elif cur is not None:
            cur += ' ' + line.strip()
    if cur is not None:
        vals.append(cur)
    return vals


_TOK = re.compile(r'\s*(?:(-?\d+)(?:%\w+)?|("(?:[^"]|"")*")(?:%\w+)?|([A-Za-z_][\w\'.]*)|(\[|\]|\(|\)|;|,|::|\{\||\|\}|:=))')


def parse_coq_value(s: str) -> Any:
    """Parse a printed Coq value built from numbers, strings, lists, tuples, bools, option and
    constructor applications into Python (ints, str, list, tuple, bool, None/('Some', x), ('Ctor', args...))."""
    toks = []
    pos = 0
    s = s.strip()
    while pos < len(s):
        m = _TOK.match(s, pos)
        if not m:
            if s[pos:].strip() == '':
                break
            raise CoqEvalError(f'cannot tokenize Coq value at {s[pos:pos+40]!r}')
        pos = m.end()
        if m.group(1) is not None:
            toks.append(('n', int(m.group(1))))
        elif m.group(2) is not None:
            toks.append(('s', m.group(2)[1:-1].replace('""', '"')))
        elif m.group(3) is not None:
            toks.append(('i', m.group(3)))
        else:
            toks.append(('p', m.group(4)))
    i = 0

    def atom():
        nonlocal i
        k, v = toks[i]
        if k == 'n' or k == 's':
            i += 1
            return v
        if k == 'i':
            i += 1
            if v == 'true':
                return True
            if v == 'false':
                return False
            if v == 'None':
                return None
            if v == 'nil':
                return []
            if v == 'tt':
                return ()
            return ('@', v)
        if v == '[':
            i += 1
            items = []
            if toks[i] == ('p', ']'):
                i += 1
                return items
            while True:
                items.append(expr())
                if toks[i] == ('p', ';'):
                    i += 1
                    continue
                if toks[i] == ('p', ']'):
                    i += 1
                    return items
                raise CoqEvalError(f'bad list near token {i}')
        if v == '(':
            i += 1
            items = [expr()]
            while toks[i] == ('p', ','):
                i += 1
                items.append(expr())
            if toks[i] != ('p', ')'):
                raise CoqEvalError('expected )')
            i += 1
            if len(items) == 1:
                return items[0]
            return tuple(items)
        if v == '{|':
            i += 1
            rec = {}
            while toks[i] != ('p', '|}'):
                name = toks[i][1]
                i += 1
                assert toks[i] == ('p', ':='), toks[i]
                i += 1
                rec[name] = expr()
                if toks[i] == ('p', ';'):
                    i += 1
            i += 1
            return rec
        raise CoqEvalError(f'unexpected token {toks[i]}')

    def app():
        nonlocal i
        head = atom()
        if isinstance(head, tuple) and len(head) == 2 and head[0] == '@':
            args = []
            while i < len(toks) and (toks[i][0] in 'nsi' or toks[i][1] in ('[', '(', '{|')):
                args.append(atom_arg())
            name = head[1]
            if name == 'Some' and len(args) == 1:
                return ('Some', args[0])
            if not args:
                return name
            return tuple([name] + args)
        return head

    def atom_arg():
        a = atom()
        if isinstance(a, tuple) and len(a) == 2 and a[0] == '@':
            return a[1]
        return a

    def expr():
        nonlocal i
        left = app()
        if i < len(toks) and toks[i] == ('p', '::'):
            i += 1
            rest = expr()
            return [left] + rest
        return left

    v = expr()
    if i != len(toks):
        raise CoqEvalError(f'trailing tokens in Coq value: {toks[i:i+5]}')
    return v


# ------------------------------------------------------------------------------------------------
# Coq literal printers

def zlit(n: int) -> str:
    return f'({n})%Z' if n < 0 else f'{n}%Z'


def nlit(n: int) -> str:
    assert n >= 0
    return f'{n}%N'


def natlit(n: int) -> str:
    assert 0 <= n < 5000, 'nat literals must stay small'
    return f'{n}%nat'


def blit(b: bool) -> str:
    return 'true' if b else 'false'


def listlit(items: Sequence[str]) -> str:
    return '[' + '; '.join(items) + ']'


def optlit(x: Optional[str]) -> str:
    return 'None' if x is None else f'(Some {x})'


def strlit_codepoints(s: str) -> str:
    """A Python str as `list N` of code points."""
    return listlit([nlit(ord(c)) for c in s])


# ------------------------------------------------------------------------------------------------
# known findings

def load_known(pid: str) -> List[dict]:
    path = os.path.join(VERIF, 'KNOWN_FINDINGS.json')
    if not os.path.exists(path):
        return []
    data = json.load(open(path))
    out = [e for e in data.get('findings', []) if e.get('property') == pid]
    # proposals not yet merged (committed files too; never written at run time)
    prop = os.path.join(VERIF, 'findings', f'{pid}.json')
    if os.path.exists(prop):
        extra = json.load(open(prop))
        extra = extra if isinstance(extra, list) else extra.get('findings', [extra])
        keys = {e.get('key') for e in out}
        out += [e for e in extra if e.get('property') == pid and e.get('key') not in keys]
    return out


def stable_hash(obj: Any) -> str:
    return hashlib.sha256(json.dumps(obj, sort_keys=True, default=str).encode()).hexdigest()[:12]
