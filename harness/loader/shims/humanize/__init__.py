def naturaldelta(x, *a, **k):
    return str(x)


def naturaltime(x, *a, **k):
    return str(x)


def naturalsize(x, *a, **k):
    return str(x)


def intcomma(x, *a, **k):
    return str(x)
