from . import err, constants, cursors  # noqa
from .err import *  # noqa
