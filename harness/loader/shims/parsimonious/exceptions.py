from parsimonious import (ParsimoniousError, ParseError, IncompleteParseError, VisitationError, BadGrammar,  # noqa: F401
                          UndefinedLabel, LeftRecursionError)
