"""Functional shim for the part of `parsimonious` (0.10 semantics) that hail uses.

A small PEG interpreter:
  * grammar syntax: rules `name = expression`, sequences, ordered choice `/` (as in parsimonious a sequence and a
    choice may not be mixed without parentheses), quantifiers `* + ?` and `{m,n}`, groups, lookahead `&x` / `!x`,
    quoted string terminals (Python literal syntax, evaluated with ast.literal_eval), `~"regex"flags` terminals,
    rule references, `#` comments;
  * `Grammar(text)` is a mapping rule-name -> expression, `.default_rule` is the first rule, `.parse(text)` must consume
    the whole text (IncompleteParseError otherwise), `.match(text)` need not;
  * parse trees are `Node(expr, full_text, start, end, children)` with `.text`, `.children`, `.expr_name`, iteration over
    children; tree shapes follow parsimonious: Sequence -> one child per member, OneOf -> exactly one child (the matched
    alternative), Quantifier -> one child per repetition (none for an unmatched `?`), Literal/Regex -> leaves
    (RegexNode carries `.match`), Lookahead/Not -> empty leaves;
  * `NodeVisitor.visit` dispatches to `visit_<expr_name>` or `generic_visit`, wraps foreign exceptions in
    `VisitationError` unless listed in `unwrapped_exceptions`.

The grammar-definition parser (`parse_grammar_source`) returns a plain AST that /verif's C31 translator re-uses to
regenerate the Coq grammar value, so the grammar syntax is interpreted by exactly one piece of code.
Part of the trusted base of the hail front-end checks.
"""
import ast as _ast
import re as _re

__version__ = '0.10.0-verif-shim'
__all__ = ['Grammar', 'NodeVisitor', 'ParseError', 'IncompleteParseError', 'VisitationError', 'UndefinedLabel',
           'BadGrammar', 'Node', 'RegexNode', 'rule']


# ------------------------------------------------------------------------------------------------ exceptions

class ParsimoniousError(Exception):
    pass


class ParseError(ParsimoniousError):
    def __init__(self, text, pos=-1, expr=None):
        self.text = text
        self.pos = pos
        self.expr = expr

    def __str__(self):
        rule_name = (("'%s'" % self.expr.name) if getattr(self.expr, 'name', '') else str(self.expr))
        return "Rule %s didn't match at '%s' (line %s, column %s)." % (
            rule_name, self.text[self.pos:self.pos + 20], self.line(), self.column())

    def line(self):
        if isinstance(self.text, list):
            return None
        return self.text.count('\n', 0, self.pos) + 1

    def column(self):
        try:
            return self.pos - self.text.rindex('\n', 0, self.pos)
        except (ValueError, AttributeError):
            return self.pos + 1


class LeftRecursionError(ParseError):
    pass


class IncompleteParseError(ParseError):
    def __str__(self):
        return "Rule '%s' matched in its entirety, but it didn't consume all the text. The non-matching portion of " \
               "the text begins with '%s' (line %s, column %s)." % (
                   getattr(self.expr, 'name', ''), self.text[self.pos:self.pos + 20], self.line(), self.column())


class VisitationError(ParsimoniousError):
    def __init__(self, exc, exc_class, node):
        self.original_class = exc_class
        super().__init__('%s: %s\n\nParse tree:\n%s' % (exc_class.__name__, exc, node.prettily(error=node)))


class BadGrammar(ParsimoniousError):
    pass


class UndefinedLabel(BadGrammar):
    def __init__(self, label):
        self.label = label

    def __str__(self):
        return 'The label "%s" was never defined.' % self.label


# ------------------------------------------------------------------------------------------------ parse trees

class Node(object):
    __slots__ = ['expr', 'full_text', 'start', 'end', 'children']

    def __init__(self, expr, full_text, start, end, children=None):
        self.expr = expr
        self.full_text = full_text
        self.start = start
        self.end = end
        self.children = children or []

    @property
    def expr_name(self):
        return self.expr.name

    def __iter__(self):
        return iter(self.children)

    @property
    def text(self):
        return self.full_text[self.start:self.end]

    def prettily(self, error=None):
        def indent(text):
            return '\n'.join(('    ' + line) for line in text.splitlines())
        ret = ['<%s%s matching "%s">%s' % (self.__class__.__name__,
                                           (' called "%s"' % self.expr_name) if self.expr_name else '',
                                           self.text, '  <-- *** We were here. ***' if error is self else '')]
        for n in self:
            ret.append(indent(n.prettily(error=error)))
        return '\n'.join(ret)

    def __str__(self):
        return self.prettily()

    def __eq__(self, other):
        if not isinstance(other, Node):
            return NotImplemented
        return (self.expr == other.expr and self.full_text == other.full_text and self.start == other.start
                and self.end == other.end and self.children == other.children)

    def __ne__(self, other):
        return not self == other

    __hash__ = None

    def __repr__(self, top_level=True):
        return '<%s %r %d:%d>' % (self.__class__.__name__, self.expr_name, self.start, self.end)


class RegexNode(Node):
    __slots__ = ['match']


# ------------------------------------------------------------------------------------------------ expressions

class Expression(object):
    __slots__ = ['name', 'identity_tuple']

    def __init__(self, name=''):
        self.name = name

    def parse(self, text, pos=0):
        node = self.match(text, pos=pos)
        if node.end < len(text):
            raise IncompleteParseError(text, node.end, self)
        return node

    def match(self, text, pos=0):
        error = ParseError(text)
        node = self.match_core(text, pos, {}, error)
        if node is None:
            raise error
        return node

    def match_core(self, text, pos, cache, error):
        key = (id(self), pos)
        if key in cache:
            node = cache[key]
            if node is _IN_PROGRESS:
                raise LeftRecursionError(text, pos=-1, expr=self)
            return node
        cache[key] = _IN_PROGRESS
        node = cache[key] = self._uncached_match(text, pos, cache, error)
        # record the failure that got furthest (for error messages only)
        if node is None and pos >= error.pos and (self.name or getattr(error.expr, 'name', None) is None):
            error.expr = self
            error.pos = pos
        return node

    def __str__(self):
        return '<%s %s>' % (self.__class__.__name__, self.as_rule())

    def as_rule(self):
        rhs = self._as_rhs().strip()
        if rhs.startswith('(') and rhs.endswith(')'):
            rhs = rhs[1:-1]
        return ('%s = %s' % (self.name, rhs)) if self.name else rhs

    def _unicode_members(self):
        return [(m.name or m._as_rhs()) for m in self.members]

    def _as_rhs(self):
        raise NotImplementedError


_IN_PROGRESS = object()


class Literal(Expression):
    __slots__ = ['literal']

    def __init__(self, literal, name=''):
        super().__init__(name)
        self.literal = literal

    def _uncached_match(self, text, pos, cache, error):
        if text.startswith(self.literal, pos):
            return Node(self, text, pos, pos + len(self.literal))
        return None

    def _as_rhs(self):
        return repr(self.literal)


class Regex(Expression):
    __slots__ = ['re']

    def __init__(self, pattern, name='', ignore_case=False, locale=False, multiline=False, dot_all=False,
                 unicode=False, verbose=False, ascii=False):
        super().__init__(name)
        self.re = _re.compile(pattern, (ignore_case and _re.I) | (locale and _re.L) | (multiline and _re.M)
                              | (dot_all and _re.S) | (unicode and _re.U) | (verbose and _re.X) | (ascii and _re.A))

    def _uncached_match(self, text, pos, cache, error):
        m = self.re.match(text, pos)
        if m is not None:
            span = m.span()
            node = RegexNode(self, text, pos, pos + span[1] - span[0])
            node.match = m
            return node
        return None

    def _as_rhs(self):
        return '~{!r}'.format(self.re.pattern)


class Compound(Expression):
    __slots__ = ['members']

    def __init__(self, *members, **kwargs):
        super().__init__(kwargs.get('name', ''))
        self.members = members


class Sequence(Compound):
    def _uncached_match(self, text, pos, cache, error):
        new_pos = pos
        children = []
        for m in self.members:
            node = m.match_core(text, new_pos, cache, error)
            if node is None:
                return None
            children.append(node)
            new_pos += node.end - node.start
        return Node(self, text, pos, new_pos, children)

    def _as_rhs(self):
        return '({0})'.format(' '.join(self._unicode_members()))


class OneOf(Compound):
    def _uncached_match(self, text, pos, cache, error):
        for m in self.members:
            node = m.match_core(text, pos, cache, error)
            if node is not None:
                return Node(self, text, pos, node.end, children=[node])
        return None

    def _as_rhs(self):
        return '({0})'.format(' / '.join(self._unicode_members()))


class Lookahead(Compound):
    __slots__ = ['negativity']

    def __init__(self, member, *, negative=False, **kwargs):
        super().__init__(member, **kwargs)
        self.negativity = bool(negative)

    def _uncached_match(self, text, pos, cache, error):
        node = self.members[0].match_core(text, pos, cache, error)
        if (node is None) == self.negativity:
            return Node(self, text, pos, pos)
        return None

    def _as_rhs(self):
        return '%s%s' % ('!' if self.negativity else '&', self._unicode_members()[0])


def Not(term):
    return Lookahead(term, negative=True)


class Quantifier(Compound):
    __slots__ = ['min', 'max']

    def __init__(self, member, *, min=0, max=float('inf'), name='', **kwargs):
        super().__init__(member, name=name, **kwargs)
        self.min = min
        self.max = max

    def _uncached_match(self, text, pos, cache, error):
        new_pos = pos
        children = []
        size = len(text)
        while new_pos < size and len(children) < self.max:
            node = self.members[0].match_core(text, new_pos, cache, error)
            if node is None:
                break
            children.append(node)
            length = node.end - node.start
            if len(children) >= self.min and length == 0:   # prevent infinite loops on empty matches
                break
            new_pos += length
        if len(children) >= self.min:
            return Node(self, text, pos, new_pos, children)
        return None

    def _as_rhs(self):
        if self.min == 0 and self.max == 1:
            q = '?'
        elif self.min == 0 and self.max == float('inf'):
            q = '*'
        elif self.min == 1 and self.max == float('inf'):
            q = '+'
        elif self.max == float('inf'):
            q = '{%d,}' % self.min
        elif self.min == 0:
            q = '{,%d}' % self.max
        else:
            q = '{%d,%d}' % (self.min, self.max)
        return '%s%s' % (self._unicode_members()[0], q)


def ZeroOrMore(member, name=''):
    return Quantifier(member, name=name, min=0, max=float('inf'))


def OneOrMore(member, name='', min=1):
    return Quantifier(member, name=name, min=min, max=float('inf'))


def Optional(member, name=''):
    return Quantifier(member, name=name, min=0, max=1)


# ------------------------------------------------------------------------------------------------ grammar syntax

# AST of a grammar definition (plain tuples so that other tools can consume it):
#   ('lit', str) ('re', pattern, flags) ('ref', name) ('seq', [e..]) ('alt', [e..]) ('quant', e, min, max|None)
#   ('look', e, negative)
_WS = _re.compile(r'(?:\s+|#[^\r\n]*)*')
_LABEL = _re.compile(r'[a-zA-Z_][a-zA-Z_0-9]*(?!["\'])')
_SPACELESS_LITERAL = _re.compile(r'u?r?b?"[^"\\]*(?:\\.[^"\\]*)*"|u?r?b?\'[^\'\\]*(?:\\.[^\'\\]*)*\'', _re.I | _re.S)
_QUANT = _re.compile(r'[*+?]|\{\d*,\d+\}|\{\d+,\d*\}|\{\d+\}')
_FLAGS = _re.compile(r'[ilmsuxa]*', _re.I)


class _GrammarReader:
    def __init__(self, src):
        self.s = src
        self.i = 0

    def ws(self):
        self.i = _WS.match(self.s, self.i).end()

    def fail(self, what):
        raise BadGrammar('grammar syntax: expected %s at %r' % (what, self.s[self.i:self.i + 30]))

    def peek_label_equals(self):
        m = _LABEL.match(self.s, self.i)
        if not m:
            return False
        j = _WS.match(self.s, m.end()).end()
        return self.s.startswith('=', j)

    def rules(self):
        out = []
        self.ws()
        while self.i < len(self.s):
            m = _LABEL.match(self.s, self.i)
            if not m:
                self.fail('rule name')
            name = m.group(0)
            self.i = m.end()
            self.ws()
            if not self.s.startswith('=', self.i):
                self.fail("'='")
            self.i += 1
            self.ws()
            out.append((name, self.expression()))
        return out

    def expression(self):
        first = self.term()
        if first is None:
            self.fail('expression')
        if self.s.startswith('/', self.i):
            alts = [first]
            while self.s.startswith('/', self.i):
                self.i += 1
                self.ws()
                t = self.term()
                if t is None:
                    self.fail('term after /')
                alts.append(t)
            return ('alt', alts)
        seq = [first]
        while True:
            t = self.term()
            if t is None:
                break
            seq.append(t)
        if self.s.startswith('/', self.i) and len(seq) > 1:
            # parsimonious cannot parse `a b / c` either (ored = term or_term+, sequence = term term+)
            self.fail('end of sequence (a sequence and `/` may not be mixed without parentheses)')
        return first if len(seq) == 1 else ('seq', seq)

    def term(self):
        if self.i >= len(self.s):
            return None
        c = self.s[self.i]
        if c in '!&':
            self.i += 1
            t = self.term()
            if t is None:
                self.fail('term after lookahead')
            self.ws()
            return ('look', t, c == '!')
        a = self.atom()
        if a is None:
            return None
        m = _QUANT.match(self.s, self.i)
        if m:
            self.i = m.end()
            self.ws()
            q = m.group(0)
            if q == '?':
                return ('quant', a, 0, 1)
            if q == '*':
                return ('quant', a, 0, None)
            if q == '+':
                return ('quant', a, 1, None)
            body = q[1:-1]
            if ',' in body:
                lo, hi = body.split(',')
                return ('quant', a, int(lo or 0), int(hi) if hi else None)
            return ('quant', a, int(body), int(body))
        return a

    def atom(self):
        s = self.s
        if s.startswith('(', self.i):
            self.i += 1
            self.ws()
            e = self.expression()
            if not s.startswith(')', self.i):
                self.fail("')'")
            self.i += 1
            self.ws()
            return e
        if s.startswith('~', self.i):
            m = _SPACELESS_LITERAL.match(s, self.i + 1)
            if not m:
                self.fail('regex literal')
            pattern = _ast.literal_eval(m.group(0))
            f = _FLAGS.match(s, m.end())
            self.i = f.end()
            self.ws()
            return ('re', pattern, f.group(0).upper())
        m = _SPACELESS_LITERAL.match(s, self.i)
        if m:
            self.i = m.end()
            self.ws()
            return ('lit', _ast.literal_eval(m.group(0)))
        if self.peek_label_equals():
            return None          # start of the next rule
        m = _LABEL.match(s, self.i)
        if m:
            self.i = m.end()
            self.ws()
            return ('ref', m.group(0))
        return None


def parse_grammar_source(src):
    """[(rule name, AST)] in source order."""
    r = _GrammarReader(src)
    rules = r.rules()
    if r.i != len(src):
        r.fail('end of grammar')
    return rules


class _Lazy:
    def __init__(self, name):
        self.name = name


def _build(rules_ast):
    """Expression objects with references resolved to the referred rule's expression object (as parsimonious does)."""
    names = [n for n, _ in rules_ast]
    table = {}

    def mk(a, name=''):
        k = a[0]
        if k == 'lit':
            return Literal(a[1], name=name)
        if k == 're':
            fl = a[2]
            return Regex(a[1], name=name, ignore_case='I' in fl, locale='L' in fl, multiline='M' in fl,
                         dot_all='S' in fl, unicode='U' in fl, verbose='X' in fl, ascii='A' in fl)
        if k == 'ref':
            return _Lazy(a[1])
        if k == 'seq':
            return Sequence(*[mk(x) for x in a[1]], name=name)
        if k == 'alt':
            return OneOf(*[mk(x) for x in a[1]], name=name)
        if k == 'quant':
            return Quantifier(mk(a[1]), min=a[2], max=float('inf') if a[3] is None else a[3], name=name)
        if k == 'look':
            return Lookahead(mk(a[1]), negative=a[2], name=name)
        raise BadGrammar('unknown AST node %r' % (k,))

    for n, a in rules_ast:
        table[n] = mk(a, n)        # later duplicates override earlier ones, as in parsimonious

    def resolve_top(n, seen=()):
        e = table[n]
        while isinstance(e, _Lazy):
            if e.name in seen or e.name == n:
                raise BadGrammar('circular reference %s' % n)
            if e.name not in table:
                raise UndefinedLabel(e.name)
            seen = seen + (e.name,)
            e = table[e.name]
        return e

    for n in names:
        table[n] = resolve_top(n)

    done = set()

    def fix(e):
        if id(e) in done or not isinstance(e, Compound):
            return
        done.add(id(e))
        ms = []
        for m in e.members:
            if isinstance(m, _Lazy):
                if m.name not in table:
                    raise UndefinedLabel(m.name)
                m = table[m.name]
            ms.append(m)
        e.members = tuple(ms)
        for m in ms:
            fix(m)

    for n in names:
        fix(table[n])
    return names, table


class Grammar(dict):
    def __init__(self, rules='', **more_rules):
        if more_rules:
            raise BadGrammar('the shim does not support custom rules (callables)')
        self.ast = parse_grammar_source(rules)
        names, table = _build(self.ast)
        super().__init__(table)
        self.default_rule = table[names[0]] if names else None

    def default(self, rule_name):
        new = Grammar.__new__(Grammar)
        dict.__init__(new, self)
        new.ast = self.ast
        new.default_rule = self[rule_name]
        return new

    def _check_default_rule(self):
        if not self.default_rule:
            raise RuntimeError("Can't call parse() on a Grammar that has no default rule.")

    def parse(self, text, pos=0):
        self._check_default_rule()
        return self.default_rule.parse(text, pos=pos)

    def match(self, text, pos=0):
        self._check_default_rule()
        return self.default_rule.match(text, pos=pos)

    def __str__(self):
        exprs = [self.default_rule] if self.default_rule else []
        exprs.extend(e for e in self.values() if e is not self.default_rule)
        return '\n'.join(e.as_rule() for e in exprs)

    def __repr__(self):
        return 'Grammar({!r})'.format(str(self))


# ------------------------------------------------------------------------------------------------ visitor

class NodeVisitor(object):
    grammar = None
    unwrapped_exceptions = ()

    def visit(self, node):
        method = getattr(self, 'visit_' + node.expr_name, self.generic_visit)
        try:
            return method(node, [self.visit(n) for n in node])
        except (VisitationError, UndefinedLabel):
            raise
        except Exception as exc:
            if isinstance(exc, self.unwrapped_exceptions):
                raise
            exc_class = type(exc)
            raise VisitationError(exc, exc_class, node) from exc

    def generic_visit(self, node, visited_children):
        raise NotImplementedError('No visitor method was defined for this expression: %s' % node.expr.as_rule())

    def parse(self, text, pos=0):
        return self._parse_or_match(text, pos, 'parse')

    def match(self, text, pos=0):
        return self._parse_or_match(text, pos, 'match')

    def lift_child(self, node, children):
        first_child, = children
        return first_child

    def _parse_or_match(self, text, pos, method_name):
        if not self.grammar:
            raise RuntimeError('The {cls}.{method}() shortcut won\'t work because {cls} was never associated with a '
                               'specific grammar.'.format(cls=self.__class__.__name__, method=method_name))
        return self.visit(getattr(self.grammar, method_name)(text, pos=pos))


def rule(rule_string):
    def decorator(method):
        method._rule = rule_string
        return method
    return decorator
