from parsimonious import Grammar, parse_grammar_source  # noqa: F401
