from parsimonious import Node, RegexNode, NodeVisitor, rule  # noqa: F401
