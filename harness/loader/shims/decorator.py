"""Functional shim for `decorator.decorator`: caller(f, *args, **kwargs) protocol, signature kept."""
import functools
import inspect


def decorate(func, caller):
    if inspect.iscoroutinefunction(caller):
        @functools.wraps(func)
        async def fun(*args, **kw):
            return await caller(func, *args, **kw)
    else:
        @functools.wraps(func)
        def fun(*args, **kw):
            return caller(func, *args, **kw)
    fun.__wrapped__ = func
    try:
        fun.__signature__ = inspect.signature(func)
    except (ValueError, TypeError):
        pass
    return fun


def decorator(caller, _func=None):
    if _func is not None:
        return decorate(_func, caller)

    def dec(func):
        return decorate(func, caller)
    dec.__name__ = getattr(caller, '__name__', 'dec')
    dec.__wrapped__ = caller
    return dec
