from . import aio  # noqa
