"""Functional shim of prometheus_async.aio: `time(metric, future)` awaits the future it is given
(exactly what the real helper does around its observation), `time(metric)` is a decorator."""
import functools
import inspect


def time(metric, future=None):
    if future is not None and not callable(future) or inspect.isawaitable(future):
        async def _wait():
            return await future
        return _wait()

    def deco(f):
        @functools.wraps(f)
        async def w(*a, **k):
            return await f(*a, **k)
        return w
    if future is not None:
        return deco(future)
    return deco


def count_exceptions(metric, future=None, exc=BaseException):
    return time(metric, future)


def track_inprogress(metric, future=None):
    return time(metric, future)


