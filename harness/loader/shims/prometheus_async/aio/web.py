async def server_stats(request):
    return None
