"""Functional shim: orjson -> json (bytes in/out, same option names)."""
import json as _json

OPT_INDENT_2 = 1
OPT_SORT_KEYS = 2
OPT_NON_STR_KEYS = 4
OPT_SERIALIZE_NUMPY = 8
OPT_PASSTHROUGH_DATACLASS = 16
JSONDecodeError = _json.JSONDecodeError
JSONEncodeError = TypeError


def dumps(obj, default=None, option=0):
    kw = {}
    if option and option & OPT_INDENT_2:
        kw['indent'] = 2
    if option and option & OPT_SORT_KEYS:
        kw['sort_keys'] = True
    if 'indent' not in kw:
        kw['separators'] = (',', ':')
    return _json.dumps(obj, default=default, ensure_ascii=False, **kw).encode('utf-8')


def loads(s):
    if isinstance(s, (bytes, bytearray, memoryview)):
        s = bytes(s).decode('utf-8')
    return _json.loads(s)
