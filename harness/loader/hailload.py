"""Loader for populationgenomics/hail modules inside the sealed sandbox.

`install()` makes the repository's Python packages importable *unmodified*:
  * sys.path gets the package roots of the current working tree of /repo (or $VERIF_REPO);
  * a meta-path finder serves permissive stub modules for third-party packages that are
    absent from /venv (recorded in TOUCHED when they are used);
  * small *functional* shims (harness/loader/shims/) replace libraries whose behaviour the
    code under test depends on (orjson, decorator, parsimonious, prometheus_async.aio.time,
    pymysql.err, humanize ...);
  * synthetic hailtop.version / hail.version (build-generated files in a real checkout);
  * environment variables the services read at import time.

Everything here is part of the trusted base of the correspondence checks.
"""
import importlib.abc
import importlib.machinery
import importlib.util
import os
import sys
import types

REPO = os.environ.get('VERIF_REPO', '/repo')
HERE = os.path.dirname(os.path.abspath(__file__))
SHIMS = os.path.join(HERE, 'shims')
DEPS = os.path.join(os.path.dirname(os.path.dirname(HERE)), '.deps')

PACKAGE_ROOTS = ['hail/python', 'gear', 'web_common', 'batch', 'auth', 'ci', 'monitoring']

# third-party top-level packages that are NOT installed and get a permissive stub
STUB_PACKAGES = [
    'aiodocker', 'aiohttp_session', 'aiomysql', 'aiorwlock', 'azure', 'boto3', 'botocore',
    'bokeh', 'dill', 'frozenlist_', 'gidgethub', 'google', 'googleapiclient', 'jinja2', 'jproperties',
    'jwt', 'kubernetes_asyncio', 'msal', 'nest_asyncio', 'pandas', 'plotly', 'prometheus_client',
    'pyspark', 'py4j', 'pythonjsonlogger', 'requests', 'rich', 'sass', 'tabulate', 'typer', 'uvloop',
    'zulip', 'Deprecated', 'deprecated', 'avro', 'scipy', 'aiohttp_jinja2', 'cryptography', 'psutil',
    'async_timeout', 'janus', 'regex', 'nbconvert', 'nbformat', 'IPython', 'tqdm', 'certifi', 'urllib3',
    'pkg_resources', 'importlib_resources', 'aiofiles', 'markupsafe', 'secrets_', 'collectd', 'oauthlib',
    'google_auth_oauthlib', 'dateutil', 'pytz', 'protobuf', 'grpc', 'humanfriendly', 'setproctitle',
    'kubernetes', 'libsass', 'dictdiffer', 'googlecloudprofiler', 'matplotlib', 'ipywidgets', 'toolz', 'cachetools', 'httpx',
]

TOUCHED = set()


class _StubMeta(type):
    def __getattr__(cls, name):
        if name.startswith('__') and name.endswith('__'):
            raise AttributeError(name)
        TOUCHED.add(f'{cls.__module__}.{cls.__qualname__}.{name}')
        return _make_stub_class(name, cls.__module__)

    def __call__(cls, *args, **kwargs):
        # decorator usage: @stub or @stub(args)
        if len(args) == 1 and not kwargs and (isinstance(args[0], types.FunctionType)):
            return args[0]
        return super().__call__(*args, **kwargs)

    def __getitem__(cls, item):
        return cls

    def __or__(cls, other):
        return cls

    def __ror__(cls, other):
        return cls

    def __instancecheck__(cls, inst):
        return type.__instancecheck__(cls, inst)


def _make_stub_class(name, module):
    def __init__(self, *a, **k):
        self.__dict__['_stub_args'] = (a, k)

    def __getattr__(self, n):
        if n.startswith('__') and n.endswith('__'):
            raise AttributeError(n)
        TOUCHED.add(f'{module}.{name}().{n}')
        return _make_stub_class(n, module)()

    def __call__(self, *a, **k):
        if len(a) == 1 and not k and isinstance(a[0], (types.FunctionType, type)):
            return a[0]
        return _make_stub_class(name + '()', module)()

    def __iter__(self):
        return iter(())

    def __enter__(self):
        return self

    def __exit__(self, *a):
        return False

    async def __aenter__(self):
        return self

    async def __aexit__(self, *a):
        return False

    ns = dict(__init__=__init__, __getattr__=__getattr__, __call__=__call__, __iter__=__iter__,
              __enter__=__enter__, __exit__=__exit__, __aenter__=__aenter__, __aexit__=__aexit__,
              __module__=module)
    return _StubMeta(name, (), ns)


class _StubException(Exception):
    pass


class _StubModule(types.ModuleType):
    def __getattr__(self, name):
        if name.startswith('__') and name.endswith('__'):
            raise AttributeError(name)
        TOUCHED.add(f'{self.__name__}.{name}')
        if name.endswith('Error') or name.endswith('Exception') or name in ('HTTPError',):
            v = type(name, (_StubException,), {'__module__': self.__name__})
        else:
            v = _make_stub_class(name, self.__name__)
        setattr(self, name, v)
        return v


class _StubFinder(importlib.abc.MetaPathFinder, importlib.abc.Loader):
    def __init__(self, names):
        self.names = set(names)

    def find_spec(self, fullname, path=None, target=None):
        top = fullname.split('.')[0]
        if top in self.names:
            return importlib.machinery.ModuleSpec(fullname, self, is_package=True)
        return None

    def create_module(self, spec):
        m = _StubModule(spec.name)
        m.__path__ = []
        m.__stub__ = True
        return m

    def exec_module(self, module):
        pass


DEFAULT_ENV = {
    'HAIL_SHA': 'verif', 'HAIL_DEFAULT_NAMESPACE': 'default', 'CLOUD': 'gcp', 'HAIL_SCOPE': 'test',
    'HAIL_DOMAIN': 'hail.example', 'HAIL_DEPLOY_CONFIG_FILE': '/nonexistent', 'HAIL_DOCKER_PREFIX': 'docker.example',
    'HAIL_DOCKER_ROOT_IMAGE': 'ubuntu', 'HAIL_BATCH_STORAGE_URI': 'gs://verif', 'HAIL_BATCH_WORKER_IMAGE': 'worker',
    'HAIL_QUERY_STORAGE_URI': 'gs://verif-q', 'HAIL_QUERY_ACCEPTABLE_JAR_SUBFOLDER': '/jars', 'INTERNAL_GATEWAY_IP': '10.0.0.2', 'HAIL_INTERNAL_IP': '10.0.0.1',
    'HAIL_GCP_PROJECT': 'proj', 'HAIL_GCP_ZONE': 'us-central1-a', 'HAIL_GCP_REGION': 'us-central1',
    'HAIL_KUBERNETES_SERVER_URL': 'https://k8s', 'PROJECT': 'proj', 'ZONE': 'us-central1-a', 'KUBERNETES_SERVER_URL': 'https://k8s',
    'HAIL_SHOULD_PROFILE': '0', 'STANDING_WORKER_MAX_IDLE_TIME_SECS': '7200', 'HAIL_TERMS_OF_SERVICE_URL': 'x', 'INSTANCE_ID': 'verif',
    'HAIL_DEFAULT_FEATURE_FLAGS': '', 'HAIL_CI_OAUTH_TOKEN': 'x', 'HAIL_WATCHED_BRANCHES': '[]', 'HAIL_CI_UTILS_IMAGE': 'x',
    'HAIL_BUILDKIT_IMAGE': 'x', 'HAIL_CI_STORAGE_URI': 'gs://ci', 'HAIL_ORGANIZATION_DOMAIN': 'example.org', 'HAIL_REGION': 'us-central1',
    'HAIL_CI_GITHUB_CONTEXT': 'ci-test', 'HAIL_DEPLOY_STEPS': '[]', 'HAIL_DEFAULT_NAMESPACE_': 'default', 'HAIL_OAUTH2_CALLBACK_URLS': '',
    'PYTHONHASHSEED': '0', 'HAIL_BATCH_GCP_REGIONS': '["us-central1"]', 'HAIL_SUPPORT_EMAIL': 'x@example.org',
    'HAIL_DONT_RETRY_500': '0', 'HAIL_USE_FULL_QUERY_JAR_': '0', 'HAIL_ACCEPTABLE_QUERY_JAR_URL_PREFIX': 'gs://verif-q/jars',
}

_installed = False


def _synthetic(name, **attrs):
    m = types.ModuleType(name)
    for k, v in attrs.items():
        setattr(m, k, v)
    sys.modules[name] = m
    return m


class _VersionFinder(importlib.abc.MetaPathFinder, importlib.abc.Loader):
    NAMES = {'hailtop.version', 'hail.version'}

    def find_spec(self, fullname, path=None, target=None):
        if fullname in self.NAMES:
            return importlib.machinery.ModuleSpec(fullname, self)
        return None

    def create_module(self, spec):
        return None

    def exec_module(self, module):
        module.__version__ = '0.2.999-verif'
        module.__pip_version__ = '0.2.999'
        module.__revision__ = 'verif'


def install(extra_stubs=(), env=None, with_deps=True, roots=None):
    """Idempotent. Returns the module itself for chaining."""
    global _installed
    if _installed:
        return sys.modules[__name__]
    _installed = True
    for k, v in DEFAULT_ENV.items():
        os.environ.setdefault(k, v)
    for k, v in (env or {}).items():
        os.environ[k] = v
    paths = [os.path.join(REPO, r) for r in (roots or PACKAGE_ROOTS)]
    if with_deps and os.path.isdir(DEPS):
        paths.append(DEPS)
    # shims first so that they win over stubs; repo roots before site-packages so the working tree wins
    sys.path[:0] = [SHIMS] + paths
    present = set()
    for p in sys.path:
        try:
            for e in os.listdir(p):
                present.add(e.split('.')[0])
        except OSError:
            pass
    names = [n for n in list(STUB_PACKAGES) + list(extra_stubs) if n not in present]
    sys.meta_path.insert(0, _VersionFinder())
    sys.meta_path.append(_StubFinder(names))
    return sys.modules[__name__]


def load_function_source(relpath, qualname):
    """Return (source_segment, node) of a function/class `A.b` in a repo file, by AST."""
    import ast
    path = os.path.join(REPO, relpath)
    src = open(path).read()
    tree = ast.parse(src)
    node = tree
    for part in qualname.split('.'):
        for child in ast.iter_child_nodes(node):
            if isinstance(child, (ast.FunctionDef, ast.AsyncFunctionDef, ast.ClassDef)) and child.name == part:
                node = child
                break
        else:
            raise KeyError(f'{qualname} not found in {relpath}')
    return ast.get_source_segment(src, node), node
