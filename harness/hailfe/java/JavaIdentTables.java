// Prints, for every UTF-16 code unit 0..65535, whether Character.isJavaIdentifierStart / isJavaIdentifierPart hold
// (the two predicates scala.util.parsing.combinator.JavaTokenParsers.ident is built from), as ranges.
public class JavaIdentTables {
  static String ranges(boolean start) {
    StringBuilder sb = new StringBuilder("[");
    int lo = -1;
    for (int c = 0; c <= 65536; c++) {
      boolean b = c < 65536 && (start ? Character.isJavaIdentifierStart((char) c) : Character.isJavaIdentifierPart((char) c));
      if (b && lo < 0) lo = c;
      if (!b && lo >= 0) { if (sb.length() > 1) sb.append(","); sb.append("[").append(lo).append(",").append(c - 1).append("]"); lo = -1; }
    }
    return sb.append("]").toString();
  }
  public static void main(String[] a) {
    System.out.println("{\"java_version\": \"" + System.getProperty("java.version") + "\", \"start\": " + ranges(true) + ", \"part\": " + ranges(false) + "}");
  }
}
