"""Shared by the Hail front-end properties (C31/C32/C33): neutral (JSON-able) descriptions of Hail types and typed Python
values, seeded generators, printers to Gallina literals of HailV.HailValues.Model, and readers of printed model values.

Neutral type:   'int32' | 'int64' | 'float32' | 'float64' | 'bool' | 'str' | 'call' | ['locus', cps] | ['interval', t]
                | ['array', t] | ['set', t] | ['dict', k, v] | ['struct', [[cps, t], ...]] | ['tuple', [t, ...]]
                | ['ndarray', t, ndim]                               (cps = list of code points)
Neutral value:  None (missing) | ['i', z] | ['f', 'fin'|'nan'|'inf'|'-inf', bits] | ['b', bool] | ['s', cps]
                | ['call', phased, [alleles]] | ['locus', cps, pos] | ['iv', start, end, incl_start, incl_end]
                | ['arr', [v..]] | ['set', [v..]] | ['dict', [[k, v]..]] | ['struct', [v..]] | ['tuple', [v..]]
                | ['nd', shape, data_row_major, order]               (order 'C'|'F': memory order used on the Python side)
Finite floats carry their IEEE bit pattern (64 bit for float64, 32 bit for float32).
"""
import json
import struct

from harness.core import zlit, nlit, listlit, blit

SCALARS = ('int32', 'int64', 'float32', 'float64', 'bool', 'str', 'call')
NUMERIC = ('int32', 'int64', 'float32', 'float64', 'bool')

NAME_POOL = ['a', 'b', 'x1', '_y', 'GT', 'self', 'key', 'value', 'contig', 'position', 'start', 'end', 'shape', 'data',
             'b c', 'a²', '', '`', '\\', 'a`b', '1a', 'ü', '名前', '\n', '\t ', '"', "'", 'a.b', 'includeStart', '😀',
             'ǅ', 'a·b', '٣', 'nan', '\x00', '-', '|', '/']


def cps(s):
    return [ord(c) for c in s]


def uncps(l):
    return ''.join(chr(c) for c in l)


def kind(t):
    return t if isinstance(t, str) else t[0]


# ------------------------------------------------------------------------------------------------ generators

class Opts:
    """Domain restrictions that differ between the JSON and the binary form."""

    def __init__(self, binary=False, big_containers=False):
        self.binary = binary                # int/call ranges and str code points restricted to what the encoding can carry
        self.big = big_containers


def gen_name(rng):
    r = rng.random()
    if r < 0.75:
        return rng.choice(NAME_POOL)
    n = rng.randint(1, 4)
    return ''.join(chr(gen_cp(rng)) for _ in range(n))


def gen_cp(rng):
    r = rng.random()
    if r < 0.5:
        return rng.randint(0x20, 0x7e)
    if r < 0.6:
        return rng.choice([0, 9, 10, 13, 0x7f, 0x22, 0x27, 0x5c, 0x60])
    if r < 0.75:
        return rng.randint(0x80, 0x7ff)
    if r < 0.9:
        c = rng.randint(0x800, 0xffff)
        return c if not (0xd800 <= c <= 0xdfff) else 0xfffd
    return rng.randint(0x10000, 0x10ffff)


def gen_type(rng, depth, hashable=False, allow_nd=True):
    """hashable: the Python values of the type must be usable as set elements / dict keys (no numpy arrays)."""
    if depth <= 0 or rng.random() < 0.3:
        r = rng.random()
        if r < 0.06:
            return ['locus', cps(rng.choice(['GRCh37', 'R1', 'my ref', 'ü', 'a²', '`x`', 'default']))]
        return rng.choice(SCALARS)
    k = rng.choice(['interval', 'array', 'array', 'set', 'dict', 'struct', 'struct', 'tuple', 'ndarray', 'locus'])
    if k == 'locus':
        return ['locus', cps(rng.choice(['GRCh37', 'R1', 'my ref', 'ü']))]
    if k == 'interval':
        return ['interval', gen_type(rng, depth - 1, True, False)]
    if k == 'array':
        return ['array', gen_type(rng, depth - 1, hashable, allow_nd)]
    if k == 'set':
        return ['set', gen_type(rng, depth - 1, True, False)]
    if k == 'dict':
        return ['dict', gen_type(rng, depth - 1, True, False), gen_type(rng, depth - 1, hashable, allow_nd)]
    if k == 'struct':
        n = rng.choice([0, 1, 2, 2, 3, 3, 4, 9, 17] if rng.random() < 0.15 else [0, 1, 2, 2, 3])
        names = []
        while len(names) < n:
            nm = gen_name(rng)
            if nm not in names:
                names.append(nm)
        return ['struct', [[cps(nm), gen_type(rng, depth - 1 if n < 5 else 0, hashable, allow_nd)] for nm in names]]
    if k == 'tuple':
        n = rng.choice([0, 1, 2, 3, 8, 9] if rng.random() < 0.15 else [0, 1, 2, 3])
        return ['tuple', [gen_type(rng, depth - 1 if n < 5 else 0, hashable, allow_nd) for _ in range(n)]]
    if k == 'ndarray':
        if hashable or not allow_nd:
            return ['array', gen_type(rng, depth - 1, hashable, allow_nd)]
        return ['ndarray', rng.choice(NUMERIC), rng.choice([0, 1, 1, 2, 2, 3])]
    raise AssertionError(k)


I32 = [0, 1, -1, 2, 127, 128, 255, 256, 65535, 65536, 2**31 - 1, -2**31, 2**31 - 2, -2**31 + 1]
I64 = I32 + [2**31, -2**31 - 1, 2**32, 2**63 - 1, -2**63, 2**53, 2**53 + 1]
F64 = [0, 0x8000000000000000, 0x3ff0000000000000, 0xbff8000000000000, 0x3fb999999999999a, 1, 0x000fffffffffffff,
       0x7fefffffffffffff, 0xffefffffffffffff, 0x400921fb54442d18, 0x4340000000000000]
F32 = [0, 0x80000000, 0x3f800000, 0xbfc00000, 0x3dcccccd, 1, 0x007fffff, 0x7f7fffff, 0xff7fffff, 0x40490fdb]


def gen_float(rng, width):
    r = rng.random()
    if r < 0.08:
        return ['f', 'nan', None]
    if r < 0.13:
        return ['f', 'inf', None]
    if r < 0.18:
        return ['f', '-inf', None]
    if r < 0.6:
        return ['f', 'fin', rng.choice(F64 if width == 64 else F32)]
    while True:
        b = rng.getrandbits(width)
        e = (b >> 52) & 0x7ff if width == 64 else (b >> 23) & 0xff
        if e != (0x7ff if width == 64 else 0xff):
            return ['f', 'fin', b]


def gen_str(rng):
    r = rng.random()
    if r < 0.3:
        return ['s', cps(rng.choice(NAME_POOL + ['', 'chr1', 'X', 'hello world', 'nan', 'inf']))]
    return ['s', [gen_cp(rng) for _ in range(rng.choice([0, 1, 2, 3, 5, 12]))]]


def gt_index(j, k):
    return k * (k + 1) // 2 + j


def gen_call(rng, opts):
    phased = rng.random() < 0.5
    ploidy = rng.choice([0, 1, 2, 2, 2])
    big = rng.random() < 0.25

    def allele():
        if big and not opts.binary:
            return rng.choice([10**20 + 7, 2**64, 123456789012345678901234567890, 65535, 65536, 99999])
        if big:
            return rng.choice([255, 256, 1000, 4095, 32767, 16383, 23169])
        return rng.choice([0, 0, 1, 1, 2, 3, 7, 8, 9, 10, 11, 99, 100])
    al = [allele() for _ in range(ploidy)]
    if ploidy == 2 and not phased and al[0] > al[1]:
        al = [al[1], al[0]]
    if opts.binary and ploidy == 2:
        # the engine's bound: the genotype index must fit in 29 bits
        j, k = (al[0], al[0] + al[1]) if phased else (al[0], al[1])
        if gt_index(j, k) >= 2**29 or k > 0xffff:
            al = [1, 2]
    if opts.binary and ploidy == 1 and al[0] >= 2**29:
        al = [5]
    return ['call', phased, al]


def pykey(t, v):
    """Key identifying a value up to Python's ==/hash (so that generated sets/dict keys are distinct in Python)."""
    if v is None:
        return 'NA'
    k = kind(t)
    if k in ('float32', 'float64'):
        if v[1] == 'fin':
            zero_neg = 0x8000000000000000 if k == 'float64' else 0x80000000
            return ['f', 0 if v[2] == zero_neg else v[2]]
        if v[1] == 'nan':
            return ['nan', id(v)]
        return v[1]
    if k == 'interval':
        return ['iv', pykey(t[1], v[1]), pykey(t[1], v[2]), v[3], v[4]]
    if k == 'array':
        return [pykey(t[1], x) for x in v[1]]
    if k == 'set':
        return ['set', sorted((json.dumps(pykey(t[1], x), sort_keys=True) for x in v[1]))]
    if k == 'dict':
        return ['dict', sorted(json.dumps([pykey(t[1], a), pykey(t[2], b)]) for a, b in v[1])]
    if k == 'struct':
        return [pykey(f[1], x) for f, x in zip(t[1], v[1])]
    if k == 'tuple':
        return [pykey(tt, x) for tt, x in zip(t[1], v[1])]
    return v


def gen_value(rng, t, opts, p_na=0.15, top=False):
    if not top and rng.random() < p_na:
        return None
    return gen_present(rng, t, opts, p_na)


def gen_len(rng, opts):
    if opts.big and rng.random() < 0.2:
        return rng.choice([7, 8, 9, 15, 16, 17])
    return rng.choice([0, 1, 1, 2, 2, 3, 4])


def gen_present(rng, t, opts, p_na=0.15):
    k = kind(t)
    if k == 'int32':
        return ['i', rng.choice(I32) if rng.random() < 0.6 else rng.randint(-2**31, 2**31 - 1)]
    if k == 'int64':
        return ['i', rng.choice(I64) if rng.random() < 0.6 else rng.randint(-2**63, 2**63 - 1)]
    if k == 'float32':
        return gen_float(rng, 32)
    if k == 'float64':
        return gen_float(rng, 64)
    if k == 'bool':
        return ['b', rng.random() < 0.5]
    if k == 'str':
        return gen_str(rng)
    if k == 'call':
        return gen_call(rng, opts)
    if k == 'locus':
        return ['locus', gen_str(rng)[1], rng.choice(I32) if rng.random() < 0.5 else rng.randint(1, 250000000)]
    if k == 'interval':
        return ['iv', gen_value(rng, t[1], opts, p_na), gen_value(rng, t[1], opts, p_na), rng.random() < 0.5, rng.random() < 0.5]
    if k == 'array':
        return ['arr', [gen_value(rng, t[1], opts, p_na) for _ in range(gen_len(rng, opts))]]
    if k == 'set':
        out, keys = [], set()
        for _ in range(gen_len(rng, opts)):
            x = gen_value(rng, t[1], opts, p_na)
            kk = json.dumps(pykey(t[1], x), sort_keys=True)
            if kk not in keys:
                keys.add(kk)
                out.append(x)
        return ['set', out]
    if k == 'dict':
        out, keys = [], set()
        for _ in range(gen_len(rng, opts)):
            a = gen_value(rng, t[1], opts, p_na * 0.5)
            kk = json.dumps(pykey(t[1], a), sort_keys=True)
            if kk not in keys:
                keys.add(kk)
                out.append([a, gen_value(rng, t[2], opts, max(p_na, 0.2))])
        return ['dict', out]
    if k == 'struct':
        return ['struct', [gen_value(rng, f[1], opts, p_na) for f in t[1]]]
    if k == 'tuple':
        return ['tuple', [gen_value(rng, tt, opts, p_na) for tt in t[1]]]
    if k == 'ndarray':
        shape = [rng.choice([0, 1, 2, 2, 3, 3]) for _ in range(t[2])]
        n = 1
        for d in shape:
            n *= d
        return ['nd', shape, [gen_present(rng, t[1], opts) for _ in range(n)], rng.choice(['C', 'F'])]
    raise AssertionError(t)


def has_missing_in_dict(t, v):
    """Does the value contain a missing dict key or value anywhere (the class of inputs of the C32 dict defect)?"""
    if v is None:
        return False
    k = kind(t)
    if k == 'interval':
        return has_missing_in_dict(t[1], v[1]) or has_missing_in_dict(t[1], v[2])
    if k in ('array', 'set'):
        return any(has_missing_in_dict(t[1], x) for x in v[1])
    if k == 'dict':
        return any(a is None or b is None or has_missing_in_dict(t[1], a) or has_missing_in_dict(t[2], b) for a, b in v[1])
    if k == 'struct':
        return any(has_missing_in_dict(f[1], x) for f, x in zip(t[1], v[1]))
    if k == 'tuple':
        return any(has_missing_in_dict(tt, x) for tt, x in zip(t[1], v[1]))
    return False


def type_size(t):
    k = kind(t)
    if k in SCALARS or k == 'locus':
        return 1
    if k in ('interval', 'array', 'set', 'ndarray'):
        return 1 + type_size(t[1])
    if k == 'dict':
        return 1 + type_size(t[1]) + type_size(t[2])
    if k == 'struct':
        return 1 + sum(type_size(f[1]) for f in t[1])
    if k == 'tuple':
        return 1 + sum(type_size(x) for x in t[1])
    raise AssertionError(t)


def type_kinds(t, acc=None):
    acc = set() if acc is None else acc
    k = kind(t)
    acc.add(k)
    if k in ('interval', 'array', 'set', 'ndarray'):
        type_kinds(t[1], acc)
    elif k == 'dict':
        type_kinds(t[1], acc)
        type_kinds(t[2], acc)
    elif k == 'struct':
        for f in t[1]:
            type_kinds(f[1], acc)
    elif k == 'tuple':
        for x in t[1]:
            type_kinds(x, acc)
    return acc


# ------------------------------------------------------------------------------------------------ Gallina printers

def coq_name(l):
    return listlit([nlit(c) for c in l])


def coq_type(t):
    k = kind(t)
    if k in SCALARS:
        return {'int32': 'TInt32', 'int64': 'TInt64', 'float32': 'TFloat32', 'float64': 'TFloat64', 'bool': 'TBool',
                'str': 'TStr', 'call': 'TCall'}[k]
    if k == 'locus':
        return f'(TLocus {coq_name(t[1])})'
    if k == 'interval':
        return f'(TInterval {coq_type(t[1])})'
    if k == 'array':
        return f'(TArray {coq_type(t[1])})'
    if k == 'set':
        return f'(TSet {coq_type(t[1])})'
    if k == 'dict':
        return f'(TDict {coq_type(t[1])} {coq_type(t[2])})'
    if k == 'struct':
        return '(TStruct ' + listlit([f'({coq_name(f[0])}, {coq_type(f[1])})' for f in t[1]]) + ')'
    if k == 'tuple':
        return '(TTuple ' + listlit([coq_type(x) for x in t[1]]) + ')'
    if k == 'ndarray':
        return f'(TNDArray {coq_type(t[1])} {int(t[2])}%nat)'
    raise AssertionError(t)


def coq_fl(v):
    c = v[1]
    if c == 'fin':
        return f'(FFin {zlit(v[2])})'
    return {'nan': 'FNaN', 'inf': 'FPInf', '-inf': 'FNInf'}[c]


def coq_value(t, v):
    if v is None:
        return 'VNA'
    k = kind(t)
    if k in ('int32', 'int64'):
        return f'(VInt {zlit(v[1])})'
    if k in ('float32', 'float64'):
        return f'(VFloat {coq_fl(v)})'
    if k == 'bool':
        return f'(VBool {blit(v[1])})'
    if k == 'str':
        return f'(VStr {coq_name(v[1])})'
    if k == 'call':
        return f'(VCall {blit(v[1])} {listlit([nlit(a) for a in v[2]])})'
    if k == 'locus':
        return f'(VLocus {coq_name(v[1])} {zlit(v[2])})'
    if k == 'interval':
        return f'(VInterval {coq_value(t[1], v[1])} {coq_value(t[1], v[2])} {blit(v[3])} {blit(v[4])})'
    if k == 'array':
        return '(VArray ' + listlit([coq_value(t[1], x) for x in v[1]]) + ')'
    if k == 'set':
        return '(VSet ' + listlit([coq_value(t[1], x) for x in v[1]]) + ')'
    if k == 'dict':
        return '(VDict ' + listlit([f'({coq_value(t[1], a)}, {coq_value(t[2], b)})' for a, b in v[1]]) + ')'
    if k == 'struct':
        return '(VStruct ' + listlit([coq_value(f[1], x) for f, x in zip(t[1], v[1])]) + ')'
    if k == 'tuple':
        return '(VTuple ' + listlit([coq_value(tt, x) for tt, x in zip(t[1], v[1])]) + ')'
    if k == 'ndarray':
        return ('(VNDArray ' + listlit([zlit(d) for d in v[1]]) + ' ' + listlit([coq_value(t[1], x) for x in v[2]]) + ')')
    raise AssertionError(t)


# ------------------------------------------------------------------------------------------------ readers of printed model terms

def _ctor(x):
    """(name, args) of a parsed constructor application."""
    if isinstance(x, str):
        return x, []
    if isinstance(x, tuple) and x and isinstance(x[0], str):
        return x[0], list(x[1:])
    raise ValueError(f'not a constructor application: {x!r}')


def read_fl(x):
    n, a = _ctor(x)
    if n == 'FFin':
        return ['f', 'fin', a[0]]
    return ['f', {'FNaN': 'nan', 'FPInf': 'inf', 'FNInf': '-inf'}[n], None]


def read_value(t, x):
    """Printed model [value] -> neutral value (type-directed only for the set-order canonicalisation done later)."""
    n, a = _ctor(x)
    if n == 'VNA':
        return None
    k = kind(t)
    if n == 'VInt':
        return ['i', a[0]]
    if n == 'VFloat':
        return read_fl(a[0])
    if n == 'VBool':
        return ['b', a[0]]
    if n == 'VStr':
        return ['s', a[0]]
    if n == 'VCall':
        return ['call', a[0], a[1]]
    if n == 'VLocus':
        return ['locus', a[0], a[1]]
    if n == 'VInterval':
        return ['iv', read_value(t[1], a[0]), read_value(t[1], a[1]), a[2], a[3]]
    if n == 'VArray':
        return ['arr', [read_value(t[1], y) for y in a[0]]]
    if n == 'VSet':
        return ['set', [read_value(t[1], y) for y in a[0]]]
    if n == 'VDict':
        return ['dict', [[read_value(t[1], p[0]), read_value(t[2], p[1])] for p in a[0]]]
    if n == 'VStruct':
        return ['struct', [read_value(f[1], y) for f, y in zip(t[1], a[0])]]
    if n == 'VTuple':
        return ['tuple', [read_value(tt, y) for tt, y in zip(t[1], a[0])]]
    if n == 'VNDArray':
        return ['nd', a[0], [read_value(t[1], y) for y in a[1]]]
    raise ValueError(f'unknown value constructor {n}')


def canon_value(t, v):
    """Order-insensitive canonical form of a neutral value: set elements sorted; the memory order tag of n-d arrays dropped."""
    if v is None or not isinstance(v, list):
        return v
    k = kind(t)
    try:
        if k == 'interval' and v[0] == 'iv':
            return ['iv', canon_value(t[1], v[1]), canon_value(t[1], v[2]), v[3], v[4]]
        if k == 'array' and v[0] == 'arr':
            return ['arr', [canon_value(t[1], x) for x in v[1]]]
        if k == 'set' and v[0] == 'set':
            return ['set', sorted((canon_value(t[1], x) for x in v[1]), key=lambda y: json.dumps(y, sort_keys=True))]
        if k == 'dict' and v[0] == 'dict':
            return ['dict', [[canon_value(t[1], a), canon_value(t[2], b)] for a, b in v[1]]]
        if k == 'struct' and v[0] == 'struct':
            return ['struct', [canon_value(f[1], x) for f, x in zip(t[1], v[1])]] if len(t[1]) == len(v[1]) else v
        if k == 'tuple' and v[0] == 'tuple':
            return ['tuple', [canon_value(tt, x) for tt, x in zip(t[1], v[1])]] if len(t[1]) == len(v[1]) else v
        if k == 'ndarray' and v[0] == 'nd':
            return ['nd', list(v[1]), list(v[2])]
    except (TypeError, IndexError, ValueError):
        return v
    return v


def diff_path(t, a, b):
    """kinds along the path to the first difference of two canonical neutral values"""
    k = kind(t)
    if a == b:
        return []
    try:
        if a is None or b is None or a[0] != b[0]:
            return [k]
        if k == 'interval':
            for i in (1, 2):
                if a[i] != b[i]:
                    return [k] + diff_path(t[1], a[i], b[i])
        if k in ('array', 'set') and len(a[1]) == len(b[1]):
            for x, y in zip(a[1], b[1]):
                if x != y:
                    return [k] + diff_path(t[1], x, y)
        if k == 'dict' and len(a[1]) == len(b[1]):
            for (ka, va), (kb, vb) in zip(a[1], b[1]):
                if ka != kb:
                    return [k, 'key'] + diff_path(t[1], ka, kb)
                if va != vb:
                    return [k, 'value'] + diff_path(t[2], va, vb)
        if k == 'struct' and len(a[1]) == len(b[1]):
            for f, x, y in zip(t[1], a[1], b[1]):
                if x != y:
                    return [k] + diff_path(f[1], x, y)
        if k == 'tuple' and len(a[1]) == len(b[1]):
            for tt, x, y in zip(t[1], a[1], b[1]):
                if x != y:
                    return [k] + diff_path(tt, x, y)
    except (TypeError, IndexError):
        pass
    return [k]



def f32_to_f64_bits(b32):
    return struct.unpack('<Q', struct.pack('<d', struct.unpack('<f', struct.pack('<I', b32))[0]))[0]
