"""Reference implementation (Python, written from hail/hail/src/is/hail/expr/ir/Parser.scala::IRLexer and
is/hail/utils/StringEscapeUtils.scala::unescapeString, independent of the Coq model) of how the engine lexes ONE identifier:
        identifier = backtickLiteral | ident
on UTF-16 code units.  Used by the C31 oracle to decide whether the text the real escape_parsable emits is accepted by the
engine and denotes the same name.  The Scala itself cannot be executed in the sandbox; Character.isJavaIdentifierStart/
Part come from a real JVM when one is available at check time, else from the stored table java_ident_bmp.json."""
import bisect
import json
import os
import shutil
import subprocess

HERE = os.path.dirname(os.path.abspath(__file__))
ESCAPE_CHARS = set('\\bfnrtu\'"`')


class Tables:
    def __init__(self, doc, source):
        self.source = source
        self.version = doc.get('java_version')
        self.start = doc['start']
        self.part = doc['part']
        self._s = [r[0] for r in self.start]
        self._p = [r[0] for r in self.part]

    @staticmethod
    def _in(ranges, los, c):
        i = bisect.bisect_right(los, c) - 1
        return i >= 0 and ranges[i][0] <= c <= ranges[i][1]

    def is_start(self, c):
        return self._in(self.start, self._s, c)

    def is_part(self, c):
        return self._in(self.part, self._p, c)


def load_tables(workdir=None):
    """(tables, note).  Prefer a live JVM (javac+java on PATH); the stored table is the fallback and is cross-checked."""
    stored = json.load(open(os.path.join(HERE, 'java_ident_bmp.json')))
    if workdir and shutil.which('javac') and shutil.which('java'):
        try:
            src = os.path.join(HERE, 'java', 'JavaIdentTables.java')
            subprocess.run(['timeout', '60', 'javac', '-d', workdir, src], check=True, capture_output=True)
            out = subprocess.run(['timeout', '30', 'java', '-cp', workdir, 'JavaIdentTables'], check=True, capture_output=True, text=True)
            live = json.loads(out.stdout)
            same = live['start'] == stored['start'] and live['part'] == stored['part']
            return Tables(live, 'live JVM ' + live['java_version']), ('live JVM tables ' + ('equal' if same else 'DIFFER from') + ' the stored ones')
        except Exception as e:  # noqa: BLE001
            return Tables(stored, 'stored'), f'live JVM unavailable ({type(e).__name__}); stored table of JVM {stored["java_version"]}'
    return Tables(stored, 'stored'), f'no JVM on PATH; stored table of JVM {stored["java_version"]}'


def utf16_units(s):
    b = s.encode('utf-16-le', 'surrogatepass')
    return [b[i] | (b[i + 1] << 8) for i in range(0, len(b), 2)]


class Reject(Exception):
    pass


def _unescape_string(units):
    """StringEscapeUtils.unescapeString"""
    out, i, n = [], 0, len(units)
    while i < n:
        ch = units[i]
        if ch == 0x5c:
            if i + 1 >= n:
                out.append(0x5c)
                i += 1
                continue
            d = chr(units[i + 1])
            simple = {'\\': 0x5c, "'": 0x27, '"': 0x22, '`': 0x60, 'r': 13, 'f': 12, 't': 9, 'n': 10, 'b': 8}
            if d in simple:
                out.append(simple[d])
                i += 2
            elif d == 'u':
                hexs = ''.join(chr(u) for u in units[i + 2:i + 6])
                if len(hexs) < 4:
                    raise Reject('truncated \\u escape')
                try:
                    out.append(int(hexs, 16) & 0xffff)
                except ValueError:
                    raise Reject('Unable to parse unicode value: ' + hexs)
                i += 6
            else:
                raise Reject(f"Got invalid string escape character: '\\{d}'")
        else:
            out.append(ch)
            i += 1
    return out


def lex_quoted(units, delim, what):
    """IRLexer.quotedLiteral(delim, what) at units[0] == delim -> (value units, number of units consumed)"""
    i, raw = 1, []
    while True:
        if i >= len(units):
            raise Reject(f'unterminated {what}')
        c = units[i]
        i += 1
        if c == delim:
            break
        raw.append(c)
        if c == 0x5c:
            if i >= len(units):
                raise Reject(f'unterminated {what}')
            d = units[i]
            if d > 0x7f or chr(d) not in ESCAPE_CHARS:
                raise Reject(f'invalid escape character in {what}: {chr(d)!r}')
            raw.append(d)
            i += 1
    return _unescape_string(raw), i


def lex_identifier(units, tables):
    """-> (value units, number of units consumed); raises Reject when neither alternative matches"""
    if units and units[0] == 0x60:                    # quotedLiteral('`')
        return lex_quoted(units, 0x60, 'backtick identifier')
    if units and tables.is_start(units[0]):          # JavaTokenParsers.ident
        i = 1
        while i < len(units) and tables.is_part(units[i]):
            i += 1
        return units[:i], i
    raise Reject('not an identifier start')


def lex_string(units):
    """IRLexer.stringLiteral = quotedLiteral('"') | quotedLiteral("'")"""
    if units and units[0] in (0x22, 0x27):
        return lex_quoted(units, units[0], 'string literal')
    raise Reject('not a string literal')


def engine_reads_at(text, offset, name, tables, kind='identifier'):
    """Within the IR text `text`, does the token starting at character `offset` lex (as an identifier / a string literal) to
    exactly `name`, ending where a delimiter (white space, bracket) follows?  -> (ok, reason)"""
    units = utf16_units(text[offset:])
    try:
        val, used = lex_identifier(units, tables) if kind == 'identifier' else lex_string(units)
    except Reject as e:
        return False, str(e)
    if val != utf16_units(name):
        got = bytes(b for u in val for b in (u & 0xff, u >> 8)).decode('utf-16-le', 'surrogatepass')
        return False, f'token value {got!r} differs from the name'
    if used < len(units) and kind == 'identifier' and tables.is_part(units[used]):
        return False, 'identifier token does not end where the emitted name ends'
    return True, ''


def engine_reads(emitted, name, tables, delim=':'):
    """Does lexing `emitted + delim` give exactly `name` and stop at the delimiter?  -> (ok, reason)"""
    units = utf16_units(emitted + delim)
    try:
        val, used = lex_identifier(units, tables)
    except Reject as e:
        return False, str(e)
    if used != len(units) - 1:
        return False, f'identifier token ends after {used} of {len(units) - 1} code units'
    if val != utf16_units(name):
        return False, 'token value differs from the name'
    return True, ''
