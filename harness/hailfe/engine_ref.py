"""Reference READER for the engine-side layout of Python-encoded values, used only by the C33 oracle (no Coq model involved):
what the Scala decoders of EType.fromPythonTypeEncoding(t) consume, written directly from the property text
(missing-bit bytes for nullable elements/fields, little-endian fixed width, length-prefixed strings, dicts as unsorted
arrays of REQUIRED key/value structs, shape + column-major REQUIRED elements for n-d arrays, bit-packed int32 calls).
Returns neutral values (harness/hailfe/gen.py) so that the result can be compared with the input value."""
import math
import struct

from harness.hailfe.gen import kind


class LayoutError(Exception):
    pass


class R:
    def __init__(self, b):
        self.b, self.i = bytes(b), 0

    def take(self, n):
        if n < 0 or self.i + n > len(self.b):
            raise LayoutError(f'need {n} bytes at offset {self.i} of {len(self.b)}')
        x = self.b[self.i:self.i + n]
        self.i += n
        return x

    def i32(self):
        return struct.unpack('<i', self.take(4))[0]

    def i64(self):
        return struct.unpack('<q', self.take(8))[0]

    def bits(self, n):
        mb = self.take((n + 7) >> 3)
        return [(mb[i >> 3] >> (i & 7)) & 1 for i in range(n)]


def _float(bits, width):
    e, m = ((bits >> 52) & 0x7ff, bits & ((1 << 52) - 1)) if width == 64 else ((bits >> 23) & 0xff, bits & ((1 << 23) - 1))
    if e == (0x7ff if width == 64 else 0xff):
        if m:
            return ['f', 'nan', None]
        return ['f', '-inf' if bits >> (width - 1) else 'inf', None]
    return ['f', 'fin', bits]


def _call(u):
    u &= 0xffffffff
    ploidy, phased, rep = (u >> 1) & 3, bool(u & 1), u >> 3
    if ploidy == 0:
        return ['call', phased, []]
    if ploidy == 1:
        return ['call', phased, [rep]]
    if ploidy == 2:
        k = (math.isqrt(8 * rep + 1) - 1) // 2          # Call.allelePair: exact integer arithmetic
        j = rep - k * (k + 1) // 2
        return ['call', phased, [j, k - j] if phased else [j, k]]
    raise LayoutError('ploidy 3')


def _utf8(b):
    try:
        return [ord(c) for c in b.decode('utf-8')]
    except UnicodeDecodeError as e:
        raise LayoutError(f'string bytes are not UTF-8: {e}')


def _fields(r, types):
    """EBaseStruct with all fields optional: ceil(n/8) missing bytes, then the present fields in order."""
    miss = r.bits(len(types))
    return [None if m else read(r, t) for m, t in zip(miss, types)]


def read(r, t):
    k = kind(t)
    if k == 'int32':
        return ['i', r.i32()]
    if k == 'int64':
        return ['i', r.i64()]
    if k == 'float32':
        return _float(struct.unpack('<I', r.take(4))[0], 32)
    if k == 'float64':
        return _float(struct.unpack('<Q', r.take(8))[0], 64)
    if k == 'bool':
        return ['b', r.take(1)[0] != 0]
    if k == 'str':
        return ['s', _utf8(r.take(r.i32()))]
    if k == 'call':
        return _call(r.i32())
    if k == 'locus':
        c, p = _fields(r, ['str', 'int32'])
        if c is None or p is None:
            raise LayoutError('locus with a missing component')
        return ['locus', c[1], p[1]]
    if k == 'interval':
        s, e, i_s, i_e = _fields(r, [t[1], t[1], 'bool', 'bool'])
        if i_s is None or i_e is None:
            raise LayoutError('interval with a missing inclusion flag')
        return ['iv', s, e, i_s[1], i_e[1]]
    if k in ('array', 'set'):
        n = r.i32()
        if n < 0:
            raise LayoutError('negative length')
        miss = r.bits(n)
        return ['arr' if k == 'array' else 'set', [None if m else read(r, t[1]) for m in miss]]
    if k == 'dict':
        n = r.i32()
        if n < 0:
            raise LayoutError('negative length')
        return ['dict', [_fields(r, [t[1], t[2]]) for _ in range(n)]]     # required elements: no array-level missing bits
    if k == 'struct':
        return ['struct', _fields(r, [f[1] for f in t[1]])]
    if k == 'tuple':
        return ['tuple', _fields(r, list(t[1]))]
    if k == 'ndarray':
        shape = [r.i64() for _ in range(t[2])]
        if any(d < 0 for d in shape):
            raise LayoutError('negative dimension')
        n = 1
        for d in shape:
            n *= d
        cm = [read(r, t[1]) for _ in range(n)]                              # column-major, required elements
        # back to the logical row-major sequence
        out = [None] * n
        strides_cm, s = [], 1
        for d in shape:
            strides_cm.append(s)
            s *= d
        idx = [0] * len(shape)
        for pos in range(n):
            out[pos] = cm[sum(i * st for i, st in zip(idx, strides_cm))]
            for ax in range(len(shape) - 1, -1, -1):
                idx[ax] += 1
                if idx[ax] < shape[ax]:
                    break
                idx[ax] = 0
        return ['nd', shape, out]
    raise LayoutError(f'unknown type {t!r}')


def engine_read(t, data):
    """-> (neutral value, bytes consumed)"""
    r = R(data)
    v = read(r, t)
    return v, r.i
