"""Single-callback stepping on top of DetLoop (C40): `tick()` runs exactly ONE handle of the ready queue, so that the
harness can interleave its own actions (spawn / cancel / set an event) between any two callbacks - which is every
interleaving a real asyncio program can exhibit.  Uses CPython 3.12 private attributes (`_ready`, Handle._run,
`_callback.__self__` of task step/wake-up callbacks): trusted base.  Does not change DetLoop."""
from .detloop import DetLoop


class TickLoop(DetLoop):
    def ready_len(self):
        return len(self.loop._ready)

    def ready_tasks(self):
        """Tasks owning the callbacks of the ready queue, in order (None for a foreign callback)."""
        out = []
        for h in self.loop._ready:
            if h._cancelled:
                continue
            out.append(getattr(h._callback, '__self__', None))
        return out

    def tick(self):
        """Run one callback (skipping cancelled handles, as BaseEventLoop._run_once does). False if nothing was ready."""
        rd = self.loop._ready
        while rd:
            h = rd.popleft()
            if h._cancelled:
                continue
            h._run()
            return True
        return False
