"""Deterministic asyncio driver with a virtual clock (DESIGN §3.4).

The implementation under test runs on a real CPython `asyncio` event loop whose `time()` is virtual:
nothing ever sleeps, the harness decides when time passes.  asyncio's FIFO ready queue makes every
schedule (a list of harness actions) reproducible.

    dl = DetLoop()
    t = dl.spawn(coro)        # create a task (not yet run)
    dl.settle()               # run callbacks until the ready queue is empty (timers NOT advanced)
    dl.advance(1.5)           # move the clock forward, firing due timers in order, settling after each
    dl.run_until_idle()       # settle, then keep jumping to the next timer until nothing is scheduled
    dl.close()

Uses private CPython 3.12 attributes (`_ready`, `_scheduled`, `_run_once`): part of the trusted base.
`time.time`/`time.monotonic`/`time.monotonic_ns` can be patched to the virtual clock with `patch_time()`.
"""
import asyncio
import heapq
import time as _time


class _Loop(asyncio.SelectorEventLoop):
    def __init__(self):
        super().__init__()
        self.vt = 0.0

    def time(self):
        return self.vt


class DetLoop:
    def __init__(self, start=1000.0):
        self.loop = _Loop()
        self.loop.vt = float(start)
        asyncio.set_event_loop(self.loop)
        asyncio._set_running_loop(self.loop)   # we step the loop by hand; code under test calls get_running_loop()
        self._orig = None

    # ---- clock
    @property
    def now(self):
        return self.loop.vt

    def patch_time(self):
        self._orig = (_time.time, _time.monotonic, _time.monotonic_ns, _time.time_ns)
        _time.time = lambda: self.loop.vt
        _time.monotonic = lambda: self.loop.vt
        _time.monotonic_ns = lambda: int(round(self.loop.vt * 1_000_000_000))
        _time.time_ns = lambda: int(round(self.loop.vt * 1_000_000_000))

    def unpatch_time(self):
        if self._orig:
            _time.time, _time.monotonic, _time.monotonic_ns, _time.time_ns = self._orig
            self._orig = None

    # ---- tasks
    def spawn(self, coro, name=None):
        return self.loop.create_task(coro, name=name)

    def settle(self, max_iters=100000):
        """Run ready callbacks until none is left (does not move the clock)."""
        n = 0
        while self.loop._ready:
            self.loop._run_once()   # timers due at the current instant are also moved to ready here
            n += 1
            if n > max_iters:
                raise RuntimeError('DetLoop.settle: ready queue never drains (busy loop in the code under test?)')
        return n

    def _next_timer(self):
        sched = self.loop._scheduled
        while sched and sched[0]._cancelled:
            h = heapq.heappop(sched)
            h._scheduled = False
            self.loop._timer_cancelled_count = max(0, self.loop._timer_cancelled_count - 1)
        return sched[0]._when if sched else None

    def advance(self, dt):
        """Move the virtual clock forward by dt, firing timers in time order."""
        target = self.loop.vt + dt
        self.settle()
        while True:
            w = self._next_timer()
            if w is None or w > target:
                break
            self.loop.vt = max(self.loop.vt, w)
            self.loop._run_once()     # moves due timers to ready and runs them
            self.settle()
        self.loop.vt = target
        self.settle()

    def run_until_idle(self, max_jumps=100000):
        """Settle; then repeatedly jump to the next timer until nothing is scheduled."""
        self.settle()
        n = 0
        while True:
            w = self._next_timer()
            if w is None:
                return
            self.loop.vt = max(self.loop.vt, w)
            self.loop._run_once()
            self.settle()
            n += 1
            if n > max_jumps:
                raise RuntimeError('DetLoop.run_until_idle: timers never end')

    def close(self):
        self.unpatch_time()
        try:
            for t in asyncio.all_tasks(self.loop):
                t.cancel()
            self.settle()
        finally:
            asyncio._set_running_loop(None)
            self.loop.close()
            asyncio.set_event_loop(None)


def task_state(t):
    """Canonical observable state of a task: 'pending' | 'cancelled' | ('ok', result) | ('exc', ExcTypeName)."""
    if not t.done():
        return 'pending'
    if t.cancelled():
        return 'cancelled'
    e = t.exception()
    if e is not None:
        return ['exc', type(e).__name__]
    return ['ok', t.result()]
