"""Executable statements of C01..C10, C39, C41 over the observable projection `obs` (plain Python, independent of the service's SQL).

  /venv/bin/python oracles.py --seed 7 --n 2000 [--shrink] [--exhaustive DEPTH] [--malformed N] [--no-drain] [--json OUT]

Every check looks only at (ops, results, obs-after-each-op) as produced by runner.py; failures carry a STABLE key naming the class
of history (e.g. "C41:uncommitted-job-became-Ready:mark_complete", "C07:error-1242-two-cancelled-ancestors:schedule_job").
Per history only the FIRST occurrence of a key is reported (a broken counter stays broken).

Two checks need extra executions (done in-process through runner.Live):
  * C39 liveness: after the history a fair driver is simulated (`drain`): canceller picks -> cancel, scheduler picks -> schedule/start/
    complete, job-private picks -> create/creating/activate/schedule/complete, until quiescent; then every job of a committed update
    must be terminal and every batch/group with committed jobs complete;
  * C41 non-interference: if the last update of a batch is never committed, the history is re-run with that update erased and the
    projections restricted to everything else must coincide.
"""
import argparse
import asyncio
import collections
import copy
import json
import os
import sys

HERE = os.path.dirname(os.path.abspath(__file__))
sys.path.insert(0, os.path.dirname(HERE))

TERMINAL = ('Success', 'Failed', 'Error', 'Cancelled')
ACTIVE = ('Ready', 'Creating', 'Running')
REQUEST_OPS = ('create_batch', 'create_update', 'create_groups', 'create_jobs', 'commit')

Failure = collections.namedtuple('Failure', 'prop key index detail')


# ----------------------------------------------------------------------------------------------------------------------
# view of one obs
# ----------------------------------------------------------------------------------------------------------------------
class View:
    def __init__(self, obs):
        self.obs = obs
        J = collections.namedtuple('J', 'b j state cancelled npp attempt always_run cores group update ic')
        G = collections.namedtuple('G', 'b g state n_jobs n_completed n_succeeded n_failed n_cancelled mark update')
        self.jobs = {(r[0], r[1]): J(*r) for r in obs['jobs']}
        self.groups = {(r[0], r[1]): G(*r) for r in obs['groups']}
        self.anc = collections.defaultdict(set)
        for b, g, a, _lvl in obs['ancestors']:
            self.anc[(b, g)].add(a)
        self.batches = {r[0]: r for r in obs['batches']}
        self.updates = {(r[0], r[1]): r for r in obs['updates']}
        self.committed = {(r[0], r[1]): bool(r[6]) for r in obs['updates']}
        self.marks = {(b, g) for (b, g), x in self.groups.items() if x.mark}
        self.attempts = {(r[0], r[1], r[2]): r for r in obs['attempts']}
        self.instances = {r[0]: r for r in obs['instances']}
        self._sub = {}

    def group_cancelled(self, b, g):
        return any((b, a) in self.marks for a in self.anc.get((b, g), {g}))

    def n_marked_ancestors(self, b, g):
        return sum(1 for a in self.anc.get((b, g), {g}) if (b, a) in self.marks)

    def job_cancelled(self, j):
        return (not j.always_run) and bool(j.cancelled or self.group_cancelled(j.b, j.group))

    def job_committed(self, j):
        return self.committed.get((j.b, j.update), False)

    def subtree(self, b, g):
        k = (b, g)
        s = self._sub.get(k)
        if s is None:
            s = {gg for (bb, gg), an in self.anc.items() if bb == b and g in an}
            self._sub[k] = s
        return s

    def user_of_batch(self, b):
        return self.batches[b][1]


class Hist:
    """Facts accumulated along a history that are not in obs (parents, billing project of a batch)."""

    def __init__(self):
        self.parents = {}       # (b, j) -> [parent ids]
        self.bp = {}            # b -> billing project
        self.first = {}         # key -> Failure

    def report(self, prop, key, index, detail):
        """Only the FIRST failure of a family (= key without the trailing ':after-<op>' / ':<op>' that names the op introducing it) is
        kept per history: a broken counter stays broken, later ops did not break it."""
        fam = _family(key)
        if fam not in self.first:
            self.first[fam] = Failure(prop, key, index, detail)


OPNAMES = ('create_batch', 'create_update', 'create_groups', 'create_jobs', 'commit', 'cancel_group', 'delete_batch', 'new_instance',
           'activate_instance', 'deactivate_instance', 'mark_instance_deleted', 'schedule_job', 'unschedule_job', 'mark_creating',
           'mark_started', 'mark_complete', 'add_attempt_resources', 'billing_update', 'cleanup_staging', 'cleanup_cancellable',
           'compact_billing', 'scheduler_pick', 'canceller_pick', 'nonsense')


def _family(key):
    parts = key.split(':')
    last = parts[-1]
    if last.startswith('after-') and last[6:] in OPNAMES:
        return ':'.join(parts[:-1])
    return key


def staged_ready(v, h, j):
    """Ready before commit is legal only for parentless jobs of update 1 (they wait in the staging table)."""
    return j.state == 'Ready' and j.update == 1 and j.npp == 0 and not h.parents.get((j.b, j.j))


def uncommitted_active(v, h):
    out = []
    for j in v.jobs.values():
        if not v.job_committed(j) and j.state != 'Pending' and not staged_ready(v, h, j):
            out.append(j)
    return out


# ----------------------------------------------------------------------------------------------------------------------
# C01
# ----------------------------------------------------------------------------------------------------------------------
def recount_user(v):
    exp = collections.defaultdict(lambda: [0] * 8)
    for j in v.jobs.values():
        if not v.job_committed(j) or j.state not in ACTIVE:
            continue
        e = exp[(v.user_of_batch(j.b), j.ic)]
        c = v.job_cancelled(j)
        if j.state == 'Ready':
            if c:
                e[5] += 1
            else:
                e[0] += 1
                e[1] += j.cores
        elif j.state == 'Running':
            if c:
                e[6] += 1
            else:
                e[2] += 1
                e[3] += j.cores
        else:
            if c:
                e[7] += 1
            else:
                e[4] += 1
    return {k: x for k, x in exp.items() if any(x)}


USER_FIELDS = ['n_ready', 'ready_cores', 'n_running', 'running_cores', 'n_creating', 'n_cancelled_ready', 'n_cancelled_running',
               'n_cancelled_creating']


def recount_cancellable(v):
    exp = collections.defaultdict(lambda: [0] * 5)
    for j in v.jobs.values():
        if j.always_run or j.cancelled or j.state not in ACTIVE or v.group_cancelled(j.b, j.group):
            continue
        for a in v.anc.get((j.b, j.group), ()):
            e = exp[(j.b, j.update, a, j.ic)]
            if j.state == 'Ready':
                e[0] += 1
                e[1] += j.cores
            elif j.state == 'Creating':
                e[2] += 1
            else:
                e[3] += 1
                e[4] += j.cores
    return exp


def c01(v, h, op, res, k, prev):
    act = {(r[0], r[1]): list(r[2:]) for r in v.obs['user_res']}
    exp = recount_user(v)
    if act != exp:
        bad = sorted({USER_FIELDS[i] for key in set(act) | set(exp) for i in range(8)
                      if act.get(key, [0] * 8)[i] != exp.get(key, [0] * 8)[i]})
        ua = uncommitted_active(v, h)
        if ua:
            cause = 'uncommitted-job-' + sorted({j.state for j in ua})[0]
        elif op['op'] == 'commit' and any(v.group_cancelled(j.b, j.group) or j.cancelled for j in v.jobs.values()
                                          if j.b == op.get('batch') and j.update == op.get('update')):
            cause = 'commit-of-jobs-already-cancelled'
        else:
            cause = 'after-' + op['op']
        h.report('C01', f'C01:user-counters:{cause}', k, {'fields': bad, 'actual': {str(a): b for a, b in act.items()},
                                                           'expected': {str(a): b for a, b in exp.items()}})
    actc = {}
    for r in v.obs['cancellable']:
        if not v.group_cancelled(r[0], r[2]):
            actc[(r[0], r[1], r[2], r[3])] = list(r[4:])
    expc = {key: x for key, x in recount_cancellable(v).items() if any(x) and not v.group_cancelled(key[0], key[2])}
    if actc != expc:
        h.report('C01', f'C01:group-cancellable-counters:after-{op["op"]}', k,
                 {'actual': {str(a): b for a, b in actc.items() if expc.get(a) != b},
                  'expected': {str(a): b for a, b in expc.items() if actc.get(a) != b}})


# ----------------------------------------------------------------------------------------------------------------------
# C02 / C03
# ----------------------------------------------------------------------------------------------------------------------
def billed(a):
    start, rollup = a[4], a[5]
    if start is None or rollup is None:
        return 0
    return max(0, rollup - start)


def c02(v, h, op, res, k, prev):
    per_job = collections.defaultdict(int)
    for b, j, a, rname, q in v.obs['attempt_res']:
        at = v.attempts.get((b, j, a))
        if at is None:
            h.report('C02', 'C02:resource-row-without-attempt', k, [b, j, a])
            continue
        per_job[(b, j, rname)] += q * billed(at)
    exp_job = {key: x for key, x in per_job.items() if x}
    act_job = {(r[0], r[1], r[2]): r[3] for r in v.obs['agg_job']}
    if act_job != exp_job:
        h.report('C02', f'C02:job-usage:after-{op["op"]}', k, {'actual': str(act_job), 'expected': str(exp_job)})
    exp_group = collections.defaultdict(int)
    exp_bpu = collections.defaultdict(int)
    for (b, j, rname), x in exp_job.items():
        job = v.jobs.get((b, j))
        if job is None:
            continue
        for a in v.anc.get((b, job.group), ()):
            exp_group[(b, a, rname)] += x
        if b in h.bp:
            exp_bpu[(h.bp[b], v.user_of_batch(b), rname)] += x
    act_group = {(r[0], r[1], r[2]): r[3] for r in v.obs['agg_group']}
    if act_group != dict(exp_group):
        h.report('C02', f'C02:job-group-usage:after-{op["op"]}', k, {'actual': str(act_group), 'expected': str(dict(exp_group))})
    act_bpu = {(r[0], r[1], r[2]): r[3] for r in v.obs['agg_bp_user']}
    if act_bpu != dict(exp_bpu):
        h.report('C02', f'C02:billing-project-user-usage:after-{op["op"]}', k, {'actual': str(act_bpu), 'expected': str(dict(exp_bpu))})
    by_date = collections.defaultdict(int)
    for d, bp, u, rname, x in v.obs['agg_by_date']:
        by_date[(bp, u, rname)] += x
    if {a: b for a, b in by_date.items() if b} != act_bpu:
        h.report('C02', f'C02:by-date-total:after-{op["op"]}', k, {'by_date': str(dict(by_date)), 'total': str(act_bpu)})


def c03(v, h, op, res, k, prev):
    for key, a in v.attempts.items():
        start, rollup, end, reason = a[4], a[5], a[6], a[7]
        if end is not None and start is not None and billed(a) > max(0, end - start):
            h.report('C03', f'C03:billed-exceeds-attempt:after-{op["op"]}', k, list(a))
        if end is not None and start is None and billed(a) != 0:
            h.report('C03', 'C03:billed-without-start', k, list(a))
        if reason == 'activation_timeout' and billed(a) != 0:
            # (one cause whatever report exposes it: before migration 124 the trigger tested the timeout mark before it restored
            #  the stored reason; fixed by fixes/C03.diff — Coq: C03_timeout_bills_nothing)
            h.report('C03', 'C03:activation-timeout-attempt-billed:late-report-on-timed-out-attempt', k, list(a))
        if (end is None) != (reason is None):
            h.report('C03', f'C03:end-without-reason-or-reason-without-end:after-{op["op"]}', k, list(a))
        if prev is None:
            continue
        o = prev.attempts.get(key)
        if o is None:
            continue
        ostart, orollup, oend, oreason = o[4], o[5], o[6], o[7]
        timeout = reason == 'activation_timeout' and oreason != 'activation_timeout'      # this report MARKS the timeout
        # the report leaves the attempt with an end earlier than the time already billed (cf. Clamp.billed4_monotone)
        corrected = end is not None and orollup is not None and end < orollup
        # findings are identified by the failing situation, not by the kind of report that happens to expose it
        where = 'timed-out-attempt-that-got-a-start' if oreason == 'activation_timeout' else f'after-{op["op"]}'
        if billed(a) < billed(o) and not timeout and not corrected:
            h.report('C03', f'C03:billed-time-decreased:{where}', k, {'before': list(o), 'after': list(a)})
        if ostart is not None and not timeout and (start is None or start > ostart):
            h.report('C03', f'C03:start-moved-later:{where}', k, {'before': list(o), 'after': list(a)})
        if oreason is not None:
            earlier = oend is not None and end is not None and end < oend      # the one permitted correction (reason follows the end)
            if not earlier and (reason != oreason or end != oend):
                h.report('C03', f'C03:ended-attempt-end-or-reason-replaced:after-{op["op"]}', k, {'before': list(o), 'after': list(a)})


# ----------------------------------------------------------------------------------------------------------------------
# C04 / C05 / C06
# ----------------------------------------------------------------------------------------------------------------------
def allowed_transition(a, b):
    if a == b:
        return True
    if a == 'Pending':
        return b == 'Ready'
    if a == 'Ready':
        return b in ('Creating', 'Running') or b in TERMINAL
    if a == 'Creating':
        return b in ('Running', 'Ready') or b in TERMINAL
    if a == 'Running':
        return b == 'Ready' or b in TERMINAL
    return False


def tallies(v, b, g):
    n = comp = succ = fail = canc = 0
    sub = v.subtree(b, g)
    for j in v.jobs.values():
        if j.b != b or j.group not in sub or not v.job_committed(j):
            continue
        n += 1
        if j.state in TERMINAL:
            comp += 1
            if j.state == 'Success':
                succ += 1
            elif j.state == 'Cancelled':
                canc += 1
            else:
                fail += 1
    return n, comp, succ, fail, canc


def c04(v, h, op, res, k, prev):
    if prev is not None:
        for key, j in v.jobs.items():
            o = prev.jobs.get(key)
            if o is not None and not allowed_transition(o.state, j.state):
                h.report('C04', f'C04:transition:{o.state}->{j.state}:{op["op"]}', k, list(j))
    for (b, g), grp in v.groups.items():
        n, comp, succ, fail, canc = tallies(v, b, g)
        act = (grp.n_completed, grp.n_succeeded, grp.n_failed, grp.n_cancelled)
        if act != (comp, succ, fail, canc):
            ua = [j for j in v.jobs.values() if j.b == b and not v.job_committed(j) and j.state in TERMINAL]
            cause = 'uncommitted-job-terminal' if ua else f'after-{op["op"]}'
            h.report('C04', f'C04:completion-tallies:{cause}', k, {'group': [b, g], 'actual': act, 'expected': (comp, succ, fail, canc)})


def c05(v, h, op, res, k, prev):
    for (b, jid), j in v.jobs.items():
        ps = h.parents.get((b, jid))
        if ps is None:
            continue
        existing = [v.jobs[(b, q)] for q in ps if (b, q) in v.jobs]
        nonterm = [q for q in existing if q.state not in TERMINAL]
        missing = [q for q in ps if (b, q) not in v.jobs]
        if j.state != 'Pending' and (nonterm or missing) and not staged_ready(v, h, j):
            h.report('C05', f'C05:left-pending-before-all-parents-terminal:after-{op["op"]}', k, {'job': list(j), 'parents': ps})
        if v.job_committed(j):
            if j.state == 'Pending' and j.npp != len(nonterm) + len(missing):
                h.report('C05', f'C05:n_pending_parents-wrong:after-{op["op"]}', k, {'job': list(j), 'nonterminal_parents': len(nonterm)})
            if j.state == 'Pending' and ps and not nonterm and not missing:
                h.report('C05', f'C05:stuck-pending-all-parents-terminal:after-{op["op"]}', k, {'job': list(j)})
            bad = [q for q in existing if q.state in TERMINAL and q.state != 'Success']
            if j.state != 'Pending' and bad and not j.cancelled:
                h.report('C05', f'C05:failed-parent-did-not-cancel-child:after-{op["op"]}', k, {'job': list(j)})
            if j.cancelled and not bad and not (prev is not None and prev.jobs.get((b, jid)) and prev.jobs[(b, jid)].cancelled):
                h.report('C05', f'C05:cancelled-without-failed-parent:after-{op["op"]}', k, {'job': list(j)})
        if prev is not None:
            o = prev.jobs.get((b, jid))
            if o is not None and j.cancelled and not j.always_run and j.state in ('Creating', 'Running') and o.state not in ('Creating', 'Running'):
                h.report('C05', f'C05:cancelled-job-started:{op["op"]}', k, {'job': list(j)})


def always_run_served(v, h, op, res, k, prev):
    """Always-run children run regardless of their parents' outcomes (C05), also in a cancelled batch (C39): a scheduling request
    for an always-run Ready job of a committed update, with a fresh attempt id, on an active instance, is answered rc 0."""
    if op.get('op') != 'schedule_job' or prev is None:
        return
    j = prev.jobs.get((op.get('batch'), op.get('job')))
    inst = prev.instances.get(op.get('instance'))
    if j is None or inst is None or not j.always_run or j.state != 'Ready' or not prev.job_committed(j):
        return
    if inst[1] != 'active' or (j.b, j.j, op.get('attempt')) in prev.attempts:
        return
    if 'ok' not in res or res['ok'].get('rc') != 0:
        h.report('C05', 'C05:always-run-ready-job-not-scheduled', k, {'job': list(j), 'answer': res})
        h.report('C39', 'C39:always-run-ready-job-not-scheduled', k, {'job': list(j), 'answer': res})


def canceller_picks(v, h, op, res, k, prev):
    """What the canceller's selection queries offer is completed as Cancelled / unscheduled by its loops without further checks:
    they must offer only jobs that is_job_cancelled reports cancelled - never an always_run job (C05: always-run children run
    regardless; C39: always-run jobs of a cancelled batch still run) and never a job outside a cancelled subtree whose parents all
    succeeded (C07: siblings and ancestors are unaffected)."""
    if op.get('op') != 'canceller_pick' or 'ok' not in res:
        return
    for b, jid in res['ok'].get('jobs', []):
        j = v.jobs.get((b, jid))
        if j is None:
            continue
        if j.always_run:
            h.report('C05', f'C05:always-run-job-offered-to-canceller:{op.get("kind")}', k, list(j))
            h.report('C39', f'C39:always-run-job-offered-to-canceller:{op.get("kind")}', k, list(j))
        elif not v.job_cancelled(j):
            h.report('C07', f'C07:job-that-is-not-cancelled-offered-to-canceller:{op.get("kind")}', k, list(j))


def c06(v, h, op, res, k, prev):
    for (b, g), grp in v.groups.items():
        n, comp, _s, _f, _c = tallies(v, b, g)
        if grp.n_jobs != n:
            h.report('C06', f'C06:group-n_jobs:after-{op["op"]}', k, {'group': [b, g], 'actual': grp.n_jobs, 'expected': n})
        should = (comp == n)
        if (grp.state == 'complete') != should:
            ua = [j for j in v.jobs.values() if j.b == b and not v.job_committed(j) and j.state in TERMINAL]
            cause = 'uncommitted-job-terminal' if ua else f'after-{op["op"]}'
            what = 'complete-with-unfinished-jobs' if grp.state == 'complete' else 'running-with-all-jobs-terminal'
            h.report('C06', f'C06:group-state:{what}:{cause}', k, {'group': [b, g], 'n_jobs': n, 'terminal': comp})
    for b, row in v.batches.items():
        n, comp, _s, _f, _c = tallies(v, b, 0)
        if row[3] != n:
            h.report('C06', f'C06:batch-n_jobs:after-{op["op"]}', k, {'batch': b, 'actual': row[3], 'expected': n})
        if (row[2] == 'complete') != (comp == n):
            ua = [j for j in v.jobs.values() if j.b == b and not v.job_committed(j) and j.state in TERMINAL]
            cause = 'uncommitted-job-terminal' if ua else f'after-{op["op"]}'
            what = 'complete-with-unfinished-jobs' if row[2] == 'complete' else 'running-with-all-jobs-terminal'
            h.report('C06', f'C06:batch-state:{what}:{cause}', k, {'batch': b, 'n_jobs': n, 'terminal': comp})


# ----------------------------------------------------------------------------------------------------------------------
# C07
# ----------------------------------------------------------------------------------------------------------------------
def c07(v, h, op, res, k, prev):
    name = op['op']
    if prev is not None:
        for key, j in v.jobs.items():
            o = prev.jobs.get(key)
            if o is None:
                if prev.group_cancelled(j.b, j.group):
                    h.report('C07', 'C07:job-added-under-cancelled-group', k, list(j))
                continue
            if j.state in ('Creating', 'Running') and o.state != j.state and not j.always_run and prev.group_cancelled(j.b, j.group):
                h.report('C07', f'C07:job-of-cancelled-group-entered-{j.state}:{name}', k, list(j))
        for key, g in v.groups.items():
            if key not in prev.groups:
                parents = v.anc.get(key, set()) - {key[1]}
                if any((key[0], a) in prev.marks for a in parents):
                    h.report('C07', 'C07:group-added-under-cancelled-group', k, list(g))
        if name == 'cancel_group' and 'batch' in op and 'group' in op:
            b, g = op['batch'], op['group']
            if (b, g) in prev.marks and v.obs != prev.obs:
                h.report('C07', 'C07:repeated-cancel-changed-state', k, diff_obs(prev.obs, v.obs))
            if (b, g) in prev.groups:
                sub = prev.subtree(b, g)
                for key, j in v.jobs.items():
                    if (key[0] != b or j.group not in sub) and prev.jobs.get(key) != j:
                        h.report('C07', 'C07:cancel-changed-job-outside-subtree', k, list(j))
                up = prev.anc.get((b, g), set())
                for key, grp in v.groups.items():
                    if (key[0] != b or (key[1] not in sub and key[1] not in up)) and prev.groups.get(key) != grp:
                        h.report('C07', 'C07:cancel-changed-group-outside-subtree', k, list(grp))
                    if key[0] == b and key[1] in up and key[1] != g and prev.groups.get(key) is not None and \
                            (prev.groups[key].state, prev.groups[key].mark) != (grp.state, grp.mark):
                        h.report('C07', 'C07:cancel-changed-ancestor-group', k, list(grp))
    if name in ('schedule_job', 'mark_creating', 'mark_started') and 'err' in res:
        pv = prev or v
        j = pv.jobs.get((op.get('batch'), op.get('job')))
        inst = pv.instances.get(op.get('instance'))
        if j is not None and inst is not None:
            n = pv.n_marked_ancestors(j.b, j.group)
            if res['err'] == 'SqlError:1242' and n >= 2:
                h.report('C07', f'C07:error-1242-two-cancelled-ancestors:{name}', k, {'job': list(j), 'marked_ancestors': n})
            else:
                h.report('C07', f'C07:request-not-answered-normally:{name}:{res["err"]}', k, {'job': list(j)})


def diff_obs(a, b):
    out = {}
    for key in b:
        if a.get(key) != b.get(key):
            sa = [x for x in a.get(key, []) if x not in b.get(key, [])]
            sb = [x for x in b.get(key, []) if x not in a.get(key, [])]
            out[key] = {'before': sa[:6], 'after': sb[:6]}
    return out


# ----------------------------------------------------------------------------------------------------------------------
# C08 / C09
# ----------------------------------------------------------------------------------------------------------------------
def note_new_jobs(v, h, op, res, k, prev):
    """Record parents of newly inserted jobs; C08 checks on acceptance."""
    if op['op'] == 'create_batch' and 'ok' in res:
        h.bp.setdefault(res['ok']['batch'], op.get('bp'))
    if op['op'] != 'create_jobs' or not isinstance(op.get('jobs'), list):
        return
    b, kk = op.get('batch'), op.get('update')
    upd = v.updates.get((b, kk))
    before = prev.jobs if prev is not None else {}
    new = {key for key in v.jobs if key not in before}
    if 'err' in res:
        if prev is not None and v.obs != prev.obs:
            h.report('C08', f'C08:rejected-submission-changed-state:{res["err"]}', k, diff_obs(prev.obs, v.obs))
        return
    if upd is None:
        return
    sj, nj = upd[2], upd[3]
    specs = {}
    for s in op['jobs']:
        if isinstance(s.get('id'), int):
            specs[sj + s['id'] - 1] = s
    if not new and any((b, a) not in before for a in specs):
        h.report('C08', 'C08:accepted-but-nothing-inserted', k, {'ids': sorted(specs)})
    for (bb, jid) in sorted(new):
        s = specs.get(jid)
        if s is None:
            continue
        ps = list(s.get('parents_abs') or []) + [sj + r - 1 for r in (s.get('parents_rel') or [])]
        h.parents[(bb, jid)] = ps
        if not (sj <= jid < sj + nj):
            h.report('C08', 'C08:accepted-job-id-outside-reserved-range', k, {'job': jid, 'range': [sj, sj + nj - 1]})
        if any(not isinstance(q, int) or isinstance(q, bool) and False for q in ps):
            # a fractional id is rounded by the INT column: whatever job it then names was never checked
            h.report('C08', 'C08:accepted-non-integer-dependency', k, {'job': jid, 'parents': [str(q) for q in ps]})
            continue
        if len(set(ps)) != len(ps):
            # a job_parents row per distinct parent but n_pending_parents counts the list: the job could never become ready
            h.report('C08', 'C08:accepted-duplicated-dependency', k, {'job': jid, 'parents': ps})
        for q in ps:
            if q == jid:
                h.report('C08', 'C08:accepted-self-dependency', k, {'job': jid})
            elif (bb, q) not in v.jobs:
                # a parent in ANOTHER bunch of the same (still open) update may legitimately not be there yet: the client sends
                # the bunches of an update concurrently, and the update cannot be committed before every reserved id has its
                # job (commit_batch_update compares the staged count with the declared size; Props_C08.C08_accepted_is_wellfounded)
                if not (sj <= q < sj + nj):
                    h.report('C08', 'C08:accepted-missing-dependency', k, {'job': jid, 'parent': q})
            elif q > jid:
                h.report('C08', 'C08:accepted-later-dependency', k, {'job': jid, 'parent': q})
    # a swallowed bunch (ER_DUP_ENTRY) whose ids belong to ANOTHER update's range
    if not new:
        for a in specs:
            j = v.jobs.get((b, a))
            if j is not None and j.update != kk:
                h.report('C08', 'C08:bunch-colliding-with-other-update-silently-accepted', k, {'job': a, 'owner_update': j.update, 'sent_for': kk})


def c09(v, h, op, res, k, prev, seen_requests):
    name = op['op']
    rows = sorted(v.obs['updates'])
    byb = collections.defaultdict(list)
    for r in rows:
        byb[r[0]].append(r)
    for b, us in byb.items():
        nj, ng = 1, 1
        for i, r in enumerate(sorted(us, key=lambda r: r[1]), start=1):
            if r[1] != i or r[2] != nj or r[4] != ng:
                h.report('C09', f'C09:update-ranges-not-contiguous:after-{name}', k, us)
                break
            nj += r[3]
            ng += r[5]
    if name in REQUEST_OPS:
        sig = json.dumps(op, sort_keys=True)
        first = seen_requests.get(sig)
        if first is None:
            seen_requests[sig] = res
        elif 'ok' in first and prev is not None and not (name == 'commit' and first['ok'].get('rc')):
            # (a commit answered rc 1 -- wrong number of jobs -- was refused: Props_C09.C09_commit_retry_later is about rc 0)
            if v.obs != prev.obs:
                h.report('C09', f'C09:retry-changed-state:{name}', k, diff_obs(prev.obs, v.obs))
            if name in ('create_batch', 'create_update') and res != first:
                h.report('C09', f'C09:retry-answered-differently:{name}', k, {'first': first, 'retry': res})
    if name == 'create_jobs' and 'ok' in res and prev is not None:
        upd = v.updates.get((op.get('batch'), op.get('update')))
        if upd is not None:
            want = {(op['batch'], upd[2] + s['id'] - 1) for s in op['jobs'] if isinstance(s.get('id'), int)}
            new = {key for key in v.jobs if key not in prev.jobs}
            if new and new != want:
                h.report('C09', 'C09:server-ids-differ-from-client-ids', k, {'new': sorted(new), 'client': sorted(want)})


# ----------------------------------------------------------------------------------------------------------------------
# C10 / C39 (safety part) / C41 (state part)
# ----------------------------------------------------------------------------------------------------------------------
def c10(v, h, op, res, k, prev, pools):
    used = collections.defaultdict(int)
    for (b, j, a), at in v.attempts.items():
        if at[6] is None and at[3] is not None:
            job = v.jobs.get((b, j))
            if job is not None:
                used[at[3]] += job.cores
    for name, (_n, state, cores, free) in v.instances.items():
        exp = cores - used[name] if state in ('pending', 'active') else cores
        if free != exp:
            kind = 'pool' if pools.get(name, True) else 'job-private'
            h.report('C10', f'C10:free-cores:{state}-{kind}-instance:after-{op["op"]}', k,
                     {'instance': name, 'free': free, 'expected': exp, 'cores': cores})


def c10_memory(v, h, op, res, k, mem, pools):
    """ "the free cores recorded by the service": the driver keeps a copy of every instance's free cores in memory (Instance.free_cores_mcpu,
    used by the scheduler to place jobs), maintained by the REAL bookkeeping of batch/driver/job.py + the pool scheduler's reservation
    around schedule_job (runner.py).  After every op, for every instance that is live (pending / active) in the database, that the
    driver knows under the same state, and that received no message the real service cannot deliver (a worker report to an instance whose
    in-memory state is not 'active' is refused by active_instances_only; mark_job_creating is only called for the pending instance just
    created): in-memory free cores == instances_free_cores_mcpu.free_cores_mcpu."""
    if not mem:
        return
    for name, mstate, mfree, unauth in mem:
        row = v.instances.get(name)
        if row is None:
            continue
        _n, state, cores, free = row
        if state not in ('pending', 'active') or mstate != state or unauth:
            continue
        if mfree != free:
            # the op that FIRST separates the two copies of an instance is the failing input; while they stay apart later ops
            # (activation included, which changes the key's state part) did not break anything new
            broken = h.__dict__.setdefault('mem_apart', set())
            if name in broken:
                continue
            broken.add(name)
            kind = 'pool' if pools.get(name, True) else 'job-private'
            h.report('C10', f'C10:in-memory-free-cores:{state}-{kind}-instance:after-{op["op"]}', k,
                     {'instance': name, 'in_memory_free': mfree, 'database_free': free, 'cores': cores, 'answer': res})


def c39_safety(v, h, op, res, k, prev):
    for j in v.jobs.values():
        if j.state in ('Creating', 'Running'):
            if j.attempt is None:
                h.report('C39', f'C39:{j.state}-job-without-current-attempt:after-{op["op"]}', k, list(j))
            elif (j.b, j.j, j.attempt) not in v.attempts:
                h.report('C39', f'C39:current-attempt-row-missing:after-{op["op"]}', k, list(j))
        if j.state in ('Pending', 'Ready') and j.attempt is not None:
            h.report('C39', f'C39:{j.state}-job-with-current-attempt:after-{op["op"]}', k, list(j))
        if prev is not None:
            o = prev.jobs.get((j.b, j.j))
            # a stale attempt must never move the job: state changes of a Creating/Running job come only from its current attempt
            if o is not None and o.state in ('Creating', 'Running') and j.state != o.state and 'attempt' in op and op.get('attempt') not in (None, o.attempt) \
                    and op.get('job') == j.j and op.get('batch') == j.b:
                h.report('C39', f'C39:stale-attempt-moved-job:{op["op"]}', k, {'before': list(o), 'after': list(j), 'attempt': op.get('attempt')})
            # losing an instance resets only the jobs whose CURRENT attempt lives on it
            if o is not None and o.state in ('Creating', 'Running') and j.state != o.state and op['op'] in ('deactivate_instance', 'mark_instance_deleted'):
                cur = prev.attempts.get((o.b, o.j, o.attempt))
                if cur is not None and cur[3] != op.get('name'):
                    h.report('C39', f'C39:job-reset-by-loss-of-an-instance-it-is-not-running-on:{op["op"]}', k,
                             {'before': list(o), 'after': list(j), 'current_attempt_instance': cur[3], 'lost_instance': op.get('name')})
    if op['op'] in ('schedule_job', 'mark_creating', 'mark_started') and res.get('err') == 'SqlError:1242':
        pv = prev or v
        j = pv.jobs.get((op.get('batch'), op.get('job')))
        if j is not None and j.always_run:
            h.report('C39', f'C39:always-run-job-cannot-be-scheduled-error-1242:{op["op"]}', k, list(j))


def c41(v, h, op, res, k, prev):
    for j in uncommitted_active(v, h):
        o = prev.jobs.get((j.b, j.j)) if prev is not None else None
        if o is None or o.state != j.state:
            h.report('C41', f'C41:uncommitted-job-became-{j.state}:{op["op"]}', k, list(j))
    if op['op'] == 'scheduler_pick' and 'ok' in res:
        for b, jid in res['ok']['jobs']:
            j = v.jobs.get((b, jid))
            if j is not None and not v.job_committed(j):
                cause = 'staged-update-1-job-while-later-update-committed' if (j.update == 1 and not h.parents.get((b, jid))) \
                    else 'job-released-before-its-update-committed'
                h.report('C41', f'C41:uncommitted-job-offered-by-scheduler:{cause}', k, list(j))
    if op['op'] in ('schedule_job', 'mark_creating', 'mark_started') and 'ok' in res and prev is not None:
        j = v.jobs.get((op.get('batch'), op.get('job')))
        o = prev.jobs.get((op.get('batch'), op.get('job')))
        if j is not None and o is not None and not v.job_committed(j) and o.state != j.state:
            h.report('C41', f'C41:uncommitted-job-scheduled:{op["op"]}', k, list(j))


# ----------------------------------------------------------------------------------------------------------------------
# driver of the per-op checks
# ----------------------------------------------------------------------------------------------------------------------
def race_info(ent):
    r = ent.get('result') if isinstance(ent, dict) else None
    if isinstance(r, dict) and isinstance(r.get('ok'), dict) and isinstance(r['ok'].get('race'), dict):
        return r['ok']['race']
    return None


def flatten_races(ops, ents):
    """An executed op "race" (two overlapping requests, runner.Live._race) is presented to the per-op checks as its two requests in
    the order in which they FINISHED, each with its own answer; the state between them is the projection the runner took when the
    first of them had finished (`obs_mid`; the other request had no committed write by then).  Returns (ops, ents, origin indices)."""
    if not any(isinstance(op, dict) and op.get('op') == 'race' for op in ops):
        return ops, ents, list(range(len(ops)))
    o2, e2, orig = [], [], []
    for i, (op, ent) in enumerate(zip(ops, ents)):
        info = race_info(ent) if isinstance(op, dict) and op.get('op') == 'race' else None
        if info is None:
            o2.append(op)
            e2.append(ent)
            orig.append(i)
            continue
        x, y = info['order']
        o2 += [op[x], op[y]]
        e2 += [{'result': info[x], 'obs': ent.get('obs_mid') or ent['obs']}, {'result': info[y], 'obs': ent['obs'], 'mem': ent.get('mem')}]
        orig += [i, i]
    return o2, e2, orig


def c09_race(h, op, ent, k):
    """C09 on two OVERLAPPING deliveries (property level, implementation only).
    A request and its verbatim retry: the state after both equals the state after a single delivery (= the state when the first
    of the two had finished), and batch-create / update-create / job-bunch / commit answer both deliveries identically.
    Two different requests: two update-creates of one batch reserve different update ids and disjoint id ranges, each answer is
    the row of the updates table; two batch-creates get different batches.  (Contiguity of the ranges after the race: clause
    'update-ranges-not-contiguous' of c09 on the flattened history.)"""
    info = race_info(ent)
    if info is None:
        return
    a, b = op['first'], op['second']
    if a.get('op') not in REQUEST_OPS or b.get('op') not in REQUEST_OPS:
        return          # overlapping driver / worker messages: judged by c04, c05, c06, c10, c39 on the flattened history
    ra, rb = info['first'], info['second']
    kind = f"{a.get('op')}-vs-{b.get('op')}"
    if a == b:
        first = info[info['order'][0]]
        if 'ok' in first and not (a['op'] == 'commit' and first['ok'].get('rc')):
            mid = ent.get('obs_mid')
            if mid is not None and ent['obs'] != mid:
                h.report('C09', f'C09:race-retry-changed-state:{a["op"]}', k, {'answers': [ra, rb], 'pause': op.get('pause'), 'diff': diff_obs(mid, ent['obs'])})
            if a['op'] != 'create_groups' and ra != rb:
                h.report('C09', f'C09:race-retry-answered-differently:{a["op"]}', k, {'first': ra, 'second': rb, 'pause': op.get('pause')})
        return
    if 'ok' not in ra or 'ok' not in rb:
        return
    if a['op'] == 'create_batch' and b['op'] == 'create_batch':
        if ra['ok']['batch'] == rb['ok']['batch']:
            h.report('C09', 'C09:race-two-create-requests-one-batch', k, {'first': ra, 'second': rb})
    if a['op'] == 'create_update' and b['op'] == 'create_update' and a.get('batch') == b.get('batch'):
        rows = {(r[0], r[1]): r for r in ent['obs']['updates']}
        rng = []
        for q, r in ((a, ra['ok']), (b, rb['ok'])):
            row = rows.get((q['batch'], r['update']))
            if row is None or row[2] != r['start_job'] or row[4] != r['start_group'] or row[3] != q['n_jobs'] or row[5] != q['n_groups']:
                h.report('C09', 'C09:race-answer-is-not-the-reserved-range', k, {'request': q, 'answer': r, 'row': row})
            rng.append((r['update'], r['start_job'], r['start_job'] + q['n_jobs'], r['start_group'], r['start_group'] + q['n_groups']))
        (u1, j1, j1e, g1, g1e), (u2, j2, j2e, g2, g2e) = rng
        if u1 == u2 or (j1 < j2e and j2 < j1e) or (g1 < g2e and g2 < g1e):
            h.report('C09', 'C09:race-updates-share-ids', k, {'kind': kind, 'first': ra, 'second': rb})


def check_history(ops, ents, props=None):
    h = Hist()
    if props is None or 'C09' in props:
        for k, (op, ent) in enumerate(zip(ops, ents)):
            if isinstance(op, dict) and op.get('op') == 'race':
                c09_race(h, op, ent, k)
    ops, ents, origin = flatten_races(ops, ents)
    prev = None
    seen = {}
    pools = {}
    for k, (op, ent) in enumerate(zip(ops, ents)):
        res = ent['result']
        v = View(ent['obs'])
        if op.get('op') == 'new_instance' and 'ok' in res:
            pools[op['name']] = op.get('inst_coll') != 'job-private'
        note_new_jobs(v, h, op, res, k, prev)
        c01(v, h, op, res, k, prev)
        c02(v, h, op, res, k, prev)
        c03(v, h, op, res, k, prev)
        c04(v, h, op, res, k, prev)
        c05(v, h, op, res, k, prev)
        canceller_picks(v, h, op, res, k, prev)
        always_run_served(v, h, op, res, k, prev)
        c06(v, h, op, res, k, prev)
        c07(v, h, op, res, k, prev)
        c09(v, h, op, res, k, prev, seen)
        c10(v, h, op, res, k, prev, pools)
        c10_memory(v, h, op, res, k, ent.get('mem'), pools)
        c39_safety(v, h, op, res, k, prev)
        c41(v, h, op, res, k, prev)
        prev = v
    fails = list(h.first.values())
    if len(origin) != len(set(origin)):      # indices of the flattened history -> indices of the history as given
        racekeys = {id(f) for f in fails if f.key.startswith('C09:race-')}
        fails = [f if (id(f) in racekeys or f.index is None or not (0 <= f.index < len(origin))) else f._replace(index=origin[f.index]) for f in fails]
    if props:
        fails = [f for f in fails if f.prop in props]
    return fails, h, prev


# ----------------------------------------------------------------------------------------------------------------------
# execution helpers (in-process runner)
# ----------------------------------------------------------------------------------------------------------------------
_RUN = {}


def _live(config=None):
    import runner
    from minisql import Engine
    import hailload
    key = json.dumps(config or {}, sort_keys=True)
    lv = _RUN.get(key)
    if lv is None:
        cfg = dict(runner.DEFAULT_CONFIG)
        cfg.update(config or {})
        lv = runner.Live(runner.get_impl(), Engine(repo=hailload.REPO, seed=0), cfg)
        _RUN[key] = lv
    return lv


async def run_ops(live, ops, seed):
    live.start(seed)
    ents = []
    for op in ops:
        ents.append(await live.step(op))
    return ents


async def drain(live, ops, ents, max_rounds=40):
    """Simulate a fair driver + workers after the history (C39 liveness): Driver.quiesce.  Returns (extra ops, extra ents, problems)."""
    import random as _random
    if not ents:
        return [], [], []
    d = Driver(live, _random.Random(0))
    d.ops = list(ops)
    d.ents = list(ents)
    d.t = max([o.get('time', 0) for o in ops if isinstance(o.get('time'), int)] + [1000]) + 1000
    await d.quiesce(max_rounds)
    return d.ops[len(ops):], d.ents[len(ents):], d.problems


# ----------------------------------------------------------------------------------------------------------------------
# realistic driver-in-the-loop histories: the client ops come from gen.py, every driver / worker message is derived from the
# ACTUAL state (scheduler / canceller picks, existing attempts); faults = verbatim duplicates / late re-deliveries of messages
# that were really sent, preemptions, and messages racing with deactivation.  The executed op list is an ordinary history.
# ----------------------------------------------------------------------------------------------------------------------
LIFECYCLE = ('schedule_job', 'unschedule_job', 'mark_creating', 'mark_started', 'mark_complete', 'add_attempt_resources', 'billing_update',
             'new_instance', 'activate_instance', 'deactivate_instance', 'mark_instance_deleted', 'scheduler_pick', 'canceller_pick')


class Driver:
    def __init__(self, live, rng, p_dup=0.10, p_preempt=0.04):
        self.live = live
        self.r = rng
        self.ops = []
        self.ents = []
        self.sent = []
        self.t = 1000
        self.n_att = 0
        self.n_inst = 0
        self.p_dup = p_dup
        self.p_preempt = p_preempt
        self.problems = []

    def now(self):
        self.t += self.r.randint(1, 30)
        return self.t

    async def do(self, op, message=False):
        if isinstance(op.get('time'), int):
            self.t = max(self.t, op['time'])
        ent = await self.live.step(op)
        self.ops.append(op)
        self.ents.append(ent)
        if message:
            self.sent.append(op)
        return ent

    def view(self):
        return View(self.ents[-1]['obs'])

    async def ensure_pool_instance(self, ic, cores):
        v = self.view()
        used = collections.defaultdict(int)
        for name, (_n, state, c, free) in v.instances.items():
            pass
        for name, (_n, state, c, free) in sorted(v.instances.items()):
            if state == 'active' and self.live.world.instance(name) is not None and self.live.world.instance(name).inst_coll.name == ic \
                    and free >= cores:
                return name
        self.n_inst += 1
        name = f'd{self.n_inst}'
        await self.do({'op': 'new_instance', 'name': name, 'inst_coll': ic, 'cores': max(1000, ((cores + 999) // 1000) * 1000) * self.r.choice([1, 2])})
        await self.do({'op': 'activate_instance', 'name': name, 'time': self.now()}, message=True)
        return name

    async def step(self, force=None, user=None, ic=None, ckind=None):
        """One driver / worker / environment step chosen from what the actual state enables.  Returns True if something was done."""
        r = self.r
        v = self.view()
        users = sorted({row[1] for row in v.batches.values()})
        if not users:
            return False
        kinds = ['schedule', 'schedule', 'worker', 'worker', 'worker', 'cancel', 'activate', 'orphans']
        if self.sent and r.random() < self.p_dup:
            kinds = ['replay']
        elif r.random() < self.p_preempt:
            kinds = ['preempt', 'late-worker']
        kind = force or r.choice(kinds)
        if kind == 'replay':
            await self.do(copy.deepcopy(r.choice(self.sent[-12:])))
            return True
        if kind == 'preempt':
            live = [n for n, row in v.instances.items() if row[1] in ('pending', 'active')]
            if live:
                name = r.choice(live)
                reason = 'activation_timeout' if (v.instances[name][1] == 'pending' and r.random() < 0.7) else r.choice(['preempted', 'deactivated'])
                await self.do({'op': 'deactivate_instance', 'name': name, 'reason': reason, 'time': self.now()}, message=True)
                return True
            return False
        if kind == 'late-worker':
            # a worker report that raced with the deactivation of its instance (the active_instances_only check passed before)
            dead = [(b, j, a, at) for (b, j, a), at in sorted(v.attempts.items())
                    if at[3] in v.instances and v.instances[at[3]][1] in ('inactive', 'deleted')]
            if not dead:
                return False
            b, j, a, at = r.choice(dead)
            if r.random() < 0.5:
                await self.do({'op': 'billing_update', 'instance': at[3], 'time': self.now(), 'attempts': [[b, j, a]]}, message=True)
            else:
                t0 = self.now()
                await self.do({'op': 'mark_complete', 'batch': b, 'job': j, 'attempt': a, 'instance': at[3], 'state': r.choice(['Success', 'Failed']),
                               'start': t0 - r.randint(0, 60), 'end': t0 + r.randint(0, 60), 'reason': 'completed', 'time': self.now()}, message=True)
            return True
        if kind == 'schedule':
            u = user or r.choice(users)
            ic = ic or r.choice(sorted(self.live.config['inst_colls']))
            res = (await self.do({'op': 'scheduler_pick', 'inst_coll': ic, 'user': u}))['result']
            jobs = res.get('ok', {}).get('jobs', [])
            if not jobs:
                return False
            b, j = r.choice(jobs)
            job = self.view().jobs[(b, j)]
            self.n_att += 1
            a = f'x{self.n_att}'
            if self.live.config['inst_colls'][ic]:
                name = await self.ensure_pool_instance(ic, job.cores)
                e = await self.do({'op': 'schedule_job', 'batch': b, 'job': j, 'attempt': a, 'instance': name}, message=True)
            else:
                self.n_inst += 1
                name = f'd{self.n_inst}'
                await self.do({'op': 'new_instance', 'name': name, 'inst_coll': ic, 'cores': max(1000, ((job.cores + 999) // 1000) * 1000)})
                e = await self.do({'op': 'mark_creating', 'batch': b, 'job': j, 'attempt': a, 'instance': name, 'time': self.now()}, message=True)
            if 'err' in e['result']:
                self.problems.append(f"{e['result']['err']}")
            return True
        if kind == 'activate':
            pend = [n for n, row in v.instances.items() if row[1] == 'pending']
            if not pend:
                # JobPrivateInstanceManager.schedule_jobs_loop_body: Creating jobs whose instance is already active
                for (b, j, a), at in sorted(v.attempts.items()):
                    job = v.jobs.get((b, j))
                    inst = v.instances.get(at[3])
                    if job is not None and job.state == 'Creating' and job.attempt == a and inst is not None and inst[1] == 'active':
                        e = await self.do({'op': 'schedule_job', 'batch': b, 'job': j, 'attempt': a, 'instance': at[3]}, message=True)
                        if 'err' in e['result']:
                            self.problems.append(f"{e['result']['err']}")
                        return True
                return False
            name = r.choice(pend)
            await self.do({'op': 'activate_instance', 'name': name, 'time': self.now()}, message=True)
            v = self.view()
            for (b, j, a), at in sorted(v.attempts.items()):
                job = v.jobs.get((b, j))
                if at[3] == name and job is not None and job.state == 'Creating' and job.attempt == a:
                    e = await self.do({'op': 'schedule_job', 'batch': b, 'job': j, 'attempt': a, 'instance': name}, message=True)
                    if 'err' in e['result']:
                        self.problems.append(f"{e['result']['err']}")
            return True
        if kind == 'worker':
            live_att = []
            for (b, j, a), at in v.attempts.items():
                inst = v.instances.get(at[3])
                job = v.jobs.get((b, j))
                if at[6] is None and inst is not None and inst[1] == 'active' and job is not None and job.state == 'Running' and job.attempt == a:
                    live_att.append((b, j, a, at))
            if not live_att:
                return False
            b, j, a, at = r.choice(sorted(live_att, key=lambda x: x[:3]))
            x = r.random()
            if x < 0.25 and at[4] is None:
                await self.do({'op': 'mark_started', 'batch': b, 'job': j, 'attempt': a, 'instance': at[3], 'time': self.now()}, message=True)
                await self.do({'op': 'add_attempt_resources', 'batch': b, 'job': j, 'attempt': a,
                               'resources': [{'name': r.choice(['cpu', 'mem', 'disk']), 'quantity': r.choice([1, 2, 1000])}]}, message=True)
            elif x < 0.45:
                await self.do({'op': 'billing_update', 'instance': at[3], 'time': self.now(), 'attempts': [[b, j, a]]}, message=True)
            else:
                start = at[4] if at[4] is not None else self.now()
                end = self.now()
                await self.do({'op': 'mark_complete', 'batch': b, 'job': j, 'attempt': a, 'instance': at[3],
                               'state': r.choice(['Success', 'Success', 'Success', 'Failed', 'Error']), 'start': start, 'end': end,
                               'reason': 'completed', 'time': self.now()}, message=True)
                if r.random() < 0.5:
                    await self.do({'op': 'add_attempt_resources', 'batch': b, 'job': j, 'attempt': a,
                                   'resources': [{'name': r.choice(['cpu', 'mem']), 'quantity': r.choice([1, 3])}]}, message=True)
            return True
        if kind == 'cancel':
            u = user or r.choice(users)
            k2 = ckind or r.choice(['ready', 'creating', 'running'])
            res = (await self.do({'op': 'canceller_pick', 'kind': k2, 'user': u}))['result']
            jobs = res.get('ok', {}).get('jobs', [])
            if not jobs:
                return False
            b, j = r.choice(jobs)
            v = self.view()
            if k2 == 'ready':
                e = await self.do({'op': 'mark_complete', 'batch': b, 'job': j, 'attempt': None, 'instance': None, 'state': 'Cancelled',
                                   'start': None, 'end': None, 'reason': 'cancelled', 'time': self.now()}, message=True)
                if 'err' in e['result']:
                    self.problems.append(f"{e['result']['err']}")
                return True
            for (bb, jj, a), at in sorted(v.attempts.items()):
                if (bb, jj) != (b, j):
                    continue
                if k2 == 'creating':
                    e = await self.do({'op': 'mark_complete', 'batch': b, 'job': j, 'attempt': a, 'instance': at[3], 'state': 'Cancelled',
                                       'start': None, 'end': self.now(), 'reason': 'cancelled', 'time': self.now()}, message=True)
                    await self.do({'op': 'deactivate_instance', 'name': at[3], 'reason': 'cancelled', 'time': self.now()}, message=True)
                else:
                    e = await self.do({'op': 'unschedule_job', 'batch': b, 'job': j, 'attempt': a, 'instance': at[3], 'time': self.now(),
                                       'reason': 'cancelled'}, message=True)
                if 'err' in e['result']:
                    self.problems.append(f"{e['result']['err']}")
            return True
        if kind == 'orphans':
            # Canceller.cancel_orphaned_attempts_loop_body: started, not ended, not the job's current running attempt, instance active
            for (b, j, a), at in sorted(v.attempts.items()):
                inst = v.instances.get(at[3])
                job = v.jobs.get((b, j))
                if at[4] is not None and at[6] is None and inst is not None and inst[1] == 'active' and job is not None and \
                        (job.state not in ('Running', 'Creating') or job.attempt != a):
                    await self.do({'op': 'unschedule_job', 'batch': b, 'job': j, 'attempt': a, 'instance': at[3], 'time': self.now(),
                                   'reason': 'cancelled'}, message=True)
                    return True
            return False
        return False

    async def quiesce(self, max_rounds=60):
        """Fair driver until nothing is enabled any more (no faults)."""
        self.p_dup = 0
        self.p_preempt = 0
        idle = 0
        for _ in range(max_rounds * 8):
            did = False
            users = sorted({row[1] for row in self.view().batches.values()})
            for u in users:
                for ck in ('ready', 'creating', 'running'):
                    burst = 0
                    while await self.step(force='cancel', user=u, ckind=ck):
                        did = True
                        burst += 1
                        if burst >= 200 or len(self.ops) > 4000:     # a broken routine may offer the same job for ever
                            self.problems.append('no-quiescence')
                            return False
            for kind in ('activate', 'worker', 'orphans'):
                for _rep in range(3):
                    if await self.step(force=kind):
                        did = True
            for u in users:
                for c in sorted(self.live.config['inst_colls']):
                    if await self.step(force='schedule', user=u, ic=c):
                        did = True
            if did:
                idle = 0
            else:
                idle += 1
                if idle >= 3:
                    return True
        self.problems.append('no-quiescence')
        return False


async def driven_history(live, seed, client_ops, rng, steps_per_op=2.0):
    live.start(seed)
    d = Driver(live, rng)
    for op in client_ops:
        if op.get('op') in LIFECYCLE:
            continue
        await d.do(op)
        n = 0
        while rng.random() < steps_per_op / (steps_per_op + 1.0) and n < 8:
            await d.step()
            n += 1
    n_before = len(d.ops)
    await d.quiesce()
    return d, n_before


def c39_liveness(final_view, problems, hist):
    fails = []
    v = final_view
    stuck = [j for j in v.jobs.values() if v.job_committed(j) and j.state not in TERMINAL]
    if stuck:
        j = stuck[0]
        ps = hist.parents.get((j.b, j.j)) or []
        if any(p.endswith('SqlError:1242') for p in problems):
            why = 'error-1242' + ('-always-run-job' if any(s.always_run for s in stuck) else '')
        elif j.state == 'Pending' and any((j.b, q) not in v.jobs or q >= j.j for q in ps):
            why = 'pending-on-missing-or-later-parent'
        elif j.state == 'Pending' and any((j.b, q) in v.jobs and not v.job_committed(v.jobs[(j.b, q)]) for q in ps):
            why = 'pending-on-parent-in-uncommitted-update'
        elif problems:
            why = sorted(set(problems))[0]
        else:
            why = f'{j.state}-job-never-picked'
        fails.append(Failure('C39', f'C39:liveness:job-never-finishes:{why}', -1, {'job': list(j), 'problems': sorted(set(problems))[:5]}))
    for b, row in v.batches.items():
        n, comp, *_ = tallies(v, b, 0)
        if n and comp == n and row[2] != 'complete':
            fails.append(Failure('C39', 'C39:liveness:batch-not-complete-after-all-jobs-finished', -1, {'batch': b}))
    return fails


def erase_last_uncommitted_update(ops, ents):
    """If some batch's LAST update was never committed: return (batch, update, erased ops); else None."""
    if not ents:
        return None
    v = View(ents[-1]['obs'])
    by_batch = collections.defaultdict(list)
    for (b, kk), r in v.updates.items():
        by_batch[b].append(r)
    for b, us in sorted(by_batch.items()):
        last = max(us, key=lambda r: r[1])
        if last[6] or last[1] == 1:
            continue
        kk, sj, nj, sg, ng = last[1], last[2], last[3], last[4], last[5]
        token = None
        for op, ent in zip(ops, ents):
            if op.get('op') == 'create_update' and op.get('batch') == b and ent['result'].get('ok', {}).get('update') == kk:
                token = op.get('token')
        erased = []
        for op in ops:
            name = op.get('op')
            if name == 'create_update' and op.get('batch') == b and op.get('token') == token:
                continue
            if name in ('create_groups', 'create_jobs', 'commit') and op.get('batch') == b and op.get('update') == kk:
                continue
            if op.get('batch') == b and isinstance(op.get('job'), int) and sj <= op['job'] < sj + nj:
                continue
            if name == 'cancel_group' and op.get('batch') == b and isinstance(op.get('group'), int) and sg <= op['group'] < sg + ng:
                continue
            if name == 'billing_update':
                op = dict(op, attempts=[a for a in op.get('attempts', []) if not (a[0] == b and sj <= a[1] < sj + nj)])
            erased.append(op)
        return b, kk, (sj, nj, sg, ng), erased
    return None


def restrict(obs, b, kk, rng):
    sj, nj, sg, ng = rng
    injob = lambda x: sj <= x < sj + nj          # noqa: E731
    ingrp = lambda x: sg <= x < sg + ng          # noqa: E731
    o = {}
    o['jobs'] = [r for r in obs['jobs'] if not (r[0] == b and injob(r[1]))]
    o['groups'] = [r for r in obs['groups'] if not (r[0] == b and ingrp(r[1]))]
    o['ancestors'] = [r for r in obs['ancestors'] if not (r[0] == b and ingrp(r[1]))]
    o['batches'] = obs['batches']
    o['updates'] = [r for r in obs['updates'] if not (r[0] == b and r[1] == kk)]
    o['user_res'] = obs['user_res']
    o['cancellable'] = [r for r in obs['cancellable'] if not (r[0] == b and r[1] == kk)]
    o['staging'] = [r for r in obs['staging'] if not (r[0] == b and r[1] == kk)]
    o['attempts'] = [r for r in obs['attempts'] if not (r[0] == b and injob(r[1]))]
    o['instances'] = obs['instances']
    o['attempt_res'] = [r for r in obs['attempt_res'] if not (r[0] == b and injob(r[1]))]
    o['agg_job'] = [r for r in obs['agg_job'] if not (r[0] == b and injob(r[1]))]
    o['agg_group'] = [r for r in obs['agg_group'] if not (r[0] == b and ingrp(r[1]))]
    o['agg_bp_user'] = obs['agg_bp_user']
    o['agg_by_date'] = obs['agg_by_date']
    return o


async def c41_noninterference(live, ops, ents, seed):
    e = erase_last_uncommitted_update(ops, ents)
    if e is None:
        return []
    b, kk, rng, erased = e
    ents2 = await run_ops(live, erased, seed)
    a = restrict(ents[-1]['obs'], b, kk, rng)
    c = restrict(ents2[-1]['obs'], b, kk, rng) if ents2 else None
    if c is None or a == c:
        return []
    d = diff_obs(c, a)
    sections = '+'.join(sorted(d))
    return [Failure('C41', f'C41:noninterference:never-committed-update-changed:{sections}', len(ops) - 1,
                    {'batch': b, 'update': kk, 'diff(erased -> actual)': d})]


async def check_full(ops, seed, config=None, do_drain=True, do_erase=True, props=None):
    """Returns (failures, ents).  Failures found by the per-op checks during the drain phase carry `.detail['_history']` = the
    complete executed op sequence (history + drain ops), which reproduces them as an ordinary history."""
    live = _live(config)
    ents = await run_ops(live, ops, seed)
    fails, hist, last = check_history(ops, ents, None)
    if do_drain and ents:
        extra, xents, problems = await drain(live, ops, ents)
        if xents:
            f2, hist2, last2 = check_history(ops + extra, ents + xents, None)
            known = {_family(f.key) for f in fails}
            # per-op checks over the drain phase as well (they are ordinary ops)
            for f in f2:
                if _family(f.key) not in known:
                    fails.append(Failure(f.prop, f.key, f.index, {'_history': (ops + extra)[:f.index + 1], 'detail': f.detail}))
            fails.extend(c39_liveness(last2, problems, hist2))
        else:
            fails.extend(c39_liveness(last, problems, hist))
    if do_erase:
        fails.extend(await c41_noninterference(live, ops, ents, seed))
    if props:
        fails = [f for f in fails if f.prop in props]
    return fails, ents


# ----------------------------------------------------------------------------------------------------------------------
# delta debugging
# ----------------------------------------------------------------------------------------------------------------------
async def shrink(ops, seed, key, config=None):
    drainy = key.startswith('C39:liveness')
    erasy = key.startswith('C41:noninterference')

    async def bad(cand):
        try:
            fails, _ = await check_full(cand, seed, config, do_drain=drainy, do_erase=erasy)
        except Exception:
            return False
        return any(f.key == key for f in fails)

    cur = list(ops)
    n = 2
    while len(cur) >= 2:
        chunk = max(1, len(cur) // n)
        reduced = False
        for i in range(0, len(cur), chunk):
            cand = cur[:i] + cur[i + chunk:]
            if cand and await bad(cand):
                cur = cand
                n = max(n - 1, 2)
                reduced = True
                break
        if not reduced:
            if chunk == 1:
                break
            n = min(len(cur), n * 2)
    # drop optional fields / simplify bunches
    for i, op in enumerate(list(cur)):
        if op.get('op') == 'create_jobs' and len(op.get('jobs', [])) > 1:
            for drop in range(len(op['jobs']) - 1, -1, -1):
                cand_op = copy.deepcopy(op)
                del cand_op['jobs'][drop]
                cand = cur[:i] + [cand_op] + cur[i + 1:]
                if await bad(cand):
                    cur = cand
                    op = cand_op
    return cur


# ----------------------------------------------------------------------------------------------------------------------
# campaign
# ----------------------------------------------------------------------------------------------------------------------
def _jsonable(x):
    if isinstance(x, dict):
        return {str(k): _jsonable(v) for k, v in x.items()}
    if isinstance(x, (list, tuple, set)):
        return [_jsonable(v) for v in x]
    return x


async def campaign(histories, seed, config=None, do_drain=True, do_erase=True, do_shrink=False, log=None):
    found = {}
    stats = collections.Counter()
    import time
    t0 = time.time()
    nops = 0
    for i, ops in enumerate(histories):
        fails, ents = await check_full(ops, seed + i, config, do_drain, do_erase)
        nops += len(ops)
        for f in fails:
            stats[f.key] += 1
            wit = ops
            detail = f.detail
            if isinstance(detail, dict) and '_history' in detail:
                wit = detail['_history']
                detail = detail['detail']
            if f.key not in found or len(wit) < len(found[f.key]['history']):
                found[f.key] = {'property': f.prop, 'key': f.key, 'seed': seed + i, 'index': f.index, 'detail': _jsonable(detail),
                                'history': wit, 'count': 0}
        if log and (i + 1) % 200 == 0:
            print(f'  {i + 1}/{len(histories)} histories, {len(found)} distinct keys, {nops / (time.time() - t0):.0f} ops/s', file=log)
    for key, ent in found.items():
        ent['count'] = stats[key]
        if do_shrink:
            ent['minimal'] = await shrink(ent['history'], ent['seed'], key, config)
    return found, {'histories': len(histories), 'ops': nops, 'seconds': round(time.time() - t0, 1), 'op_histogram': dict(_live(config).stats)}


async def driven_campaign(histories, seed, config=None, do_shrink=False, log=None):
    """Realistic campaign: see Driver.  Liveness is judged after the driver has quiesced."""
    import random as _random
    import time
    found = {}
    stats = collections.Counter()
    t0 = time.time()
    nops = 0
    live = _live(config)
    for i, client_ops in enumerate(histories):
        rng = _random.Random(f'driven/{seed}/{i}')
        d, n_before = await driven_history(live, seed + i, client_ops, rng)
        ops, ents = d.ops, d.ents
        nops += len(ops)
        fails, hist, last = check_history(ops, ents, None)
        if last is not None:
            fails = fails + c39_liveness(last, d.problems, hist)
        fails = fails + await c41_noninterference(live, ops[:n_before], ents[:n_before], seed + i)
        for f in fails:
            stats[f.key] += 1
            wit = ops if f.index < 0 else ops[:f.index + 1]
            if f.key not in found or len(wit) < len(found[f.key]['history']):
                found[f.key] = {'property': f.prop, 'key': f.key, 'seed': seed + i, 'index': f.index, 'detail': _jsonable(f.detail),
                                'history': wit, 'count': 0}
        if log and (i + 1) % 100 == 0:
            print(f'  {i + 1}/{len(histories)} driven histories, {len(found)} distinct keys, {nops / (time.time() - t0):.0f} ops/s', file=log)
    for key, ent in found.items():
        ent['count'] = stats[key]
        if do_shrink:
            ent['minimal'] = await shrink(ent['history'], ent['seed'], key, config)
    return found, {'histories': len(histories), 'ops': nops, 'seconds': round(time.time() - t0, 1), 'op_histogram': dict(live.stats)}


def main():
    ap = argparse.ArgumentParser()
    ap.add_argument('--driven', action='store_true', help='realistic mode: driver/worker messages derived from the actual state')
    ap.add_argument('--seed', type=int, default=0)
    ap.add_argument('--n', type=int, default=500)
    ap.add_argument('--exhaustive', type=int, default=None)
    ap.add_argument('--second-update', action='store_true')
    ap.add_argument('--always-run-child', action='store_true')
    ap.add_argument('--malformed', type=int, default=0)
    ap.add_argument('--no-drain', action='store_true')
    ap.add_argument('--no-erase', action='store_true')
    ap.add_argument('--shrink', action='store_true')
    ap.add_argument('--json', default=None)
    ap.add_argument('--replay', default=None, help='JSON file with {"history": [...], "seed": n}')
    a = ap.parse_args()
    import gen
    if a.replay:
        doc = json.load(open(a.replay))
        hs = [doc.get('minimal') or doc['history']]
        a.seed = doc.get('seed', 0)
    elif a.exhaustive is not None:
        hs = gen.exhaustive(a.exhaustive, a.always_run_child, a.second_update)
    elif a.malformed:
        hs = gen.generate_malformed(a.seed, a.malformed)
    else:
        hs = gen.generate(a.seed, a.n)
    if a.driven:
        found, st = asyncio.run(driven_campaign(hs, a.seed, None, a.shrink, sys.stderr))
    else:
        found, st = asyncio.run(campaign(hs, a.seed, None, not a.no_drain, not a.no_erase, a.shrink, sys.stderr))
    print(json.dumps({k: v for k, v in st.items() if k != 'op_histogram'}))
    print('op/err histogram:', ' '.join(f'{k}={v}' for k, v in sorted(st['op_histogram'].items())))
    for key in sorted(found):
        e = found[key]
        print(f"\n== {key}   ({e['count']} histories; shortest witness {len(e['history'])} ops, seed {e['seed']}, first at op #{e['index']})")
        print('   detail:', json.dumps(e['detail'], default=str)[:600])
        if 'minimal' in e:
            print(f"   minimal history ({len(e['minimal'])} ops):")
            for op in e['minimal']:
                print('     ', json.dumps(op))
    if a.json:
        json.dump({'stats': st, 'found': found}, open(a.json, 'w'), default=str)


if __name__ == '__main__':
    main()
