"""Shared plug-in machinery for the batch-database family (C01-C10, C39, C41).

Every property of the family is decided by
  * its own Coq theorems about the ONE model coq/theories/BatchDB/Model.v (Props_<ID>.v),
  * the shared correspondence  model step  ~  real SQL routines + real handlers on minisql  (corr.compare), run on the
    committed corpus (minimised past failures and hand-written edge cases, incl. the witnesses of the repaired
    defects), a small exhaustive scope and seeded random histories, comparing result and full observable projection after
    every op,
  * its own oracle: the property's statement recomputed from the implementation's observable projection by
    harness/batchdb/oracles.py (independent of the model and of the service's SQL).

The implementation run and the model run are cached per (repo sources, harness, model, seed, tier) under
/verif/.work/cache so that the twelve checks of one pass share them; the cache key covers every file that can influence
the result, so an edit of /repo, of the model or of the harness invalidates it.
"""
from __future__ import annotations

import fcntl
import glob
import hashlib
import json
import os
import pickle
import sys
import time
from typing import Any, Dict, List, Optional

from harness import core
from harness.core import Corr, Disagreement, Failure
from harness.batchdb import corr as C

HERE = os.path.dirname(os.path.abspath(__file__))
sys.path.insert(0, HERE)
FAMILY = ['C01', 'C02', 'C03', 'C04', 'C05', 'C06', 'C07', 'C08', 'C09', 'C10', 'C39', 'C41']

REPO_GLOBS = ['batch/sql/*.sql', 'batch/sql/*.py', 'batch/batch/*.py', 'batch/batch/front_end/*.py', 'batch/batch/driver/*.py',
              'batch/batch/driver/instance_collection/*.py', 'batch/batch/cloud/*.py', 'gear/gear/database.py', 'hail/python/hailtop/batch_client/parse.py']
VERIF_GLOBS = ['harness/impl/batchdb_driven.py', 'harness/batchdb/*.py', 'harness/minisql/*.py', 'harness/core.py', 'harness/loader/hailload.py',
               'coq/theories/BatchDB/Model.v', 'coq/theories/BatchDB/Obs.v', 'corpus/C*/*.json']


def _digest(ctx) -> str:
    h = hashlib.sha256()
    for base, globs in ((ctx.repo, REPO_GLOBS), (core.VERIF, VERIF_GLOBS)):
        for g in globs:
            for p in sorted(glob.glob(os.path.join(base, g))):
                if os.path.basename(p).startswith('test_'):
                    continue
                h.update(p.encode())
                with open(p, 'rb') as f:
                    h.update(hashlib.sha256(f.read()).digest())
    h.update(f'{ctx.seed}|{ctx.tier}'.encode())
    return h.hexdigest()[:20]


def corpus_histories() -> List[Dict[str, Any]]:
    out = []
    for pid in FAMILY:
        for p in sorted(glob.glob(os.path.join(core.VERIF, 'corpus', pid, '*.json'))):
            doc = json.load(open(p))
            if 'history' in doc:
                out.append({'name': os.path.relpath(p, core.VERIF), 'history': doc['history']})
            for k, h in (doc.get('histories') or {}).items():
                out.append({'name': os.path.relpath(p, core.VERIF) + '#' + k, 'history': h})
            # histories outside the environment assumptions (e.g. updates committed out of order): compared model-vs-implementation
            # after every op like all others, but not judged by the family oracles (whose statements assume good histories)
            for k, h in (doc.get('tie_only') or {}).items():
                out.append({'name': 'tieonly/' + os.path.relpath(p, core.VERIF) + '#' + k, 'history': h})
            # overlapping requests, written compactly: named ops + templates, one history per listed pause point
            for name, h in expand_race_templates(doc):
                out.append({'name': os.path.relpath(p, core.VERIF) + '#' + name, 'history': h})
    return out


def expand_race_templates(doc: Dict[str, Any]):
    """{"ops": {NAME: op}, "race_templates": [{"name", "prefix": [NAME..], "first": NAME, "second": NAME, "pauses": [k..], "suffix": [NAME..]}]}
    -> (name-k<k>, prefix + [{"op":"race","first":..,"second":..,"pause":k}] + suffix) for every listed k."""
    import copy
    ops = doc.get('ops') or {}
    out = []
    for t in doc.get('race_templates') or []:
        for k in t['pauses']:
            h = [copy.deepcopy(ops[x]) for x in t.get('prefix', [])]
            h.append({'op': 'race', 'first': copy.deepcopy(ops[t['first']]), 'second': copy.deepcopy(ops[t['second']]), 'pause': k})
            h += [copy.deepcopy(ops[x]) for x in t.get('suffix', [])]
            out.append((f"{t['name']}-k{k}", h))
    return out


def histories_for(ctx) -> List[Dict[str, Any]]:
    import gen
    hs = corpus_histories()
    n_rand = ctx.scale(40, 600)
    # race mode: a few client requests per run are delivered twice, overlapping (op "race"; own random stream, so the histories are
    # otherwise exactly those of the plain generator)
    for i, h in enumerate(gen.generate(ctx.seed, n_rand, p_race=gen.P_RACE)):
        hs.append({'name': f'random:{ctx.seed}:{i}', 'history': h})
    n_mal = ctx.scale(24, 120)      # every malformed variant at least once (the histories are four ops long)
    for i, h in enumerate(gen.generate_malformed(ctx.seed + 1, n_mal)):
        hs.append({'name': f'malformed:{ctx.seed + 1}:{i}', 'history': h})
    if ctx.thorough:
        ex = gen.exhaustive(3, False, False)
        for i, h in enumerate(ex[:1500]):
            hs.append({'name': f'exhaustive3:{i}', 'history': h})
    return hs


def shared_run(ctx) -> Dict[str, Any]:
    """(cached) implementation results, model results and their comparison for this tree/seed/tier."""
    cache_dir = os.path.join(core.VERIF, '.work', 'cache')
    os.makedirs(cache_dir, exist_ok=True)
    key = _digest(ctx)
    path = os.path.join(cache_dir, f'batchdb-{key}.pkl')
    lock = open(os.path.join(cache_dir, f'batchdb-{key}.lock'), 'w')      # per tree/seed/tier: scratch-tree runs do not wait for each other
    fcntl.flock(lock, fcntl.LOCK_EX)
    try:
        if os.path.exists(path) and os.environ.get('VERIF_NO_CACHE') != '1':
            with open(path, 'rb') as f:
                doc = pickle.load(f)
            doc['cache'] = 'hit'
            return doc
        t0 = time.time()
        named = histories_for(ctx)
        hs = [x['history'] for x in named]
        doc: Dict[str, Any] = {'names': [x['name'] for x in named], 'histories': hs, 'key': key, 'n_tie_only': len(hs),
                               'driven_failures': [], 'error': None, 'corr': None, 'impl': None}
        try:
            # realistic driver-in-the-loop histories (oracles evaluated in-process, incl. liveness and non-interference)
            drv = ctx.run_impl('batchdb_driven.py', {'seed': ctx.seed, 'n': ctx.scale(25, 400)}, timeout=3000)
            base = len(hs)
            for i, h in enumerate(drv['histories']):
                doc['names'].append(f'driven:{ctx.seed}:{i}')
                hs.append(h)
            for f in drv['failures']:
                f['history'] += base
            doc['driven_failures'] = drv['failures']
            doc['driven_stats'] = drv['stats']
            impl_tie = C.run_impl(ctx, hs[:base], 'all')
            impl = {'results': impl_tie['results'] + drv['results'], 'stats': {'tie': impl_tie.get('stats'), 'driven': drv['stats']}}
            doc['impl'] = impl
        except core.ImplCrash as e:
            doc['error'] = ('ImplCrash', str(e)[-3000:])
        if doc['impl'] is not None:
            try:
                c, _ = C.compare(ctx, hs, impl=doc['impl'])
                doc['corr'] = c
            except core.CoqEvalError as e:
                doc['error'] = ('CoqEvalError', str(e)[-3000:])
        doc['seconds'] = round(time.time() - t0, 1)
        doc['cache'] = 'miss'
        for old in glob.glob(os.path.join(cache_dir, 'batchdb-*.pkl')) + glob.glob(os.path.join(cache_dir, 'batchdb-*.lock')):
            try:
                if time.time() - os.path.getmtime(old) > 3 * 3600:      # keep recent entries: scratch-tree runs have their own keys
                    os.remove(old)
            except OSError:
                pass
        with open(path, 'wb') as f:
            pickle.dump(doc, f)
        return doc
    finally:
        fcntl.flock(lock, fcntl.LOCK_UN)
        lock.close()


def correspond(ctx) -> Corr:
    doc = shared_run(ctx)
    if doc['error'] is not None and doc['corr'] is None:
        kind, msg = doc['error']
        raise core.TieBroken('batchdb-correspondence', f'{kind}: {msg}')
    c: Corr = doc['corr']
    out = Corr(evaluations=c.evaluations, distinct_nontrivial=c.distinct_nontrivial, rule=c.rule,
               samples=[{'name': doc['names'][i], 'ops': len(doc['histories'][i]), 'first_ops': doc['histories'][i][:4]} for i in (0, len(doc['histories']) // 2, len(doc['histories']) - 1)],
               disagreements=list(c.disagreements), histograms=dict(c.histograms), names=list(c.names))
    out.histograms['shared_run'] = {'cache': doc['cache'], 'seconds': doc['seconds'], 'histories': len(doc['histories'])}
    return out


# oracle keys whose theorem is proved for ARBITRARY states (Props_C08: C08_bad_bunch_rejected, C08_rejected_unchanged): a history need
# not satisfy the environment assumptions for them to count as a failing input
ANY_STATE_KEYS = {'C08': ['C08:accepted-', 'C08:rejected-submission-changed-state', 'C08:bunch-colliding'],
                  # Props_C41.C41_parent_completion_does_not_release: from ANY state a completion report leaves the rows of uncommitted
                  # updates unchanged
                  'C41': ['C41:uncommitted-job-became-Ready:mark_complete', 'C41:uncommitted-job-became-Cancelled:mark_complete',
                          'C41:uncommitted-job-became-Pending:mark_complete']}


def oracle_for(pid: str):
    props = {pid}

    def oracle(ctx, budget):
        import oracles
        doc = shared_run(ctx)
        impl = doc.get('impl')
        if impl is None:
            raise core.ImplCrash('batchdb/runner.py', 1, doc['error'][1] if doc['error'] else 'no implementation results')
        fails: List[Failure] = []
        n_hist = 0
        n_ops = 0
        keys_seen: Dict[str, int] = {}
        def add(f_key, detail, h, index, source):
            keys_seen[f_key] = keys_seen.get(f_key, 0) + 1
            if keys_seen[f_key] == 1:
                k = len(h) - 1 if index is None or index < 0 else index
                fails.append(Failure(f_key, f'{f_key}: {detail}'[:400], {'history': h[:k + 1], 'source': source}, None, detail))

        # corpus histories (legal by construction): statement recomputed after every op
        for name, h, ents in zip(doc['names'], doc['histories'], impl['results']):
            if not name.startswith('corpus/'):
                continue
            n_hist += 1
            n_ops += len(h)
            found, _hist, _last = oracles.check_history(h, ents, props)
            for f in found:
                add(f.key, f.detail, h, f.index, name)
        # driven histories: evaluated in-process by harness/impl/batchdb_driven.py (incl. C39 liveness, C41 non-interference)
        for name, h in zip(doc['names'], doc['histories']):
            if name.startswith('driven:'):
                n_hist += 1
                n_ops += len(h)
        for f in doc.get('driven_failures', []):
            if f['prop'] in props:
                add(f['key'], f['detail'], doc['histories'][f['history']], f['index'], doc['names'][f['history']])
        if budget > 1:
            # a proof or the tie broke: search further histories for a concrete failing one — within a time box, so that the
            # VIOLATION line (with or without a failing input) is always printed in reasonable time
            deadline = time.time() + ctx.scale(300, 1800)

            def left():
                return max(20, int(deadline - time.time()))
            try:
                drv = ctx.run_impl('batchdb_driven.py', {'seed': ctx.seed + 7919, 'n': ctx.scale(40, 600), 'props': sorted(props)}, timeout=left())
                for h in drv['histories']:
                    n_hist += 1
                    n_ops += len(h)
                for f in drv['failures']:
                    add(f['key'], f['detail'], drv['histories'][f['history']], f['index'], f"search:{ctx.seed + 7919}:{f['history']}")
            except core.ImplCrash as e:
                keys_seen['search-error:driven:' + str(e)[:60]] = 1
            # the free-mode histories of the tie (duplicate, late and reordered messages) restricted to their GOOD sub-history
            # by the model's executable legality filter (BatchDB/LegalFilter.v) — first those on which the tie disagreed
            try:
                cand, names = [], []
                for d in (doc['corr'].disagreements if doc.get('corr') is not None else []):
                    hh = (d.case or {}).get('history') if isinstance(d.case, dict) else None
                    if hh:
                        cand.append(hh)
                        names.append('tie-disagreement')
                for name, hh in zip(doc['names'], doc['histories']):
                    if name.startswith('random:'):
                        cand.append(hh)
                        names.append(name)
                cand, names = cand[:ctx.scale(80, 700)], names[:ctx.scale(80, 700)]
                if time.time() > deadline:
                    raise core.ImplCrash('search', -9, 'time box used up')
                good = C.legal_filtered(ctx, cand)
                res = C.run_impl(ctx, good, 'all', timeout=left())
                for name, hh, ents in zip(names, good, res['results']):
                    n_hist += 1
                    n_ops += len(hh)
                    found, _hist, _last = oracles.check_history(hh, ents, props)
                    for f in found:
                        add(f.key, f.detail, hh, f.index, 'legal-filtered:' + name)
            except (core.CoqEvalError, core.ImplCrash) as e:
                keys_seen['search-error:' + type(e).__name__] = 1
            # oracle clauses whose theorem holds in EVERY state (no environment assumption) are evaluated on the unfiltered
            # histories as well: tie disagreements first, then the tie-only corpus and the free-mode histories
            anyk = ANY_STATE_KEYS.get(pid)
            if anyk:
                cand = []
                for d in (doc['corr'].disagreements if doc.get('corr') is not None else []):
                    hh = (d.case or {}).get('history') if isinstance(d.case, dict) else None
                    if hh:
                        cand.append(('tie-disagreement', hh, None))
                for name, hh, ents in zip(doc['names'], doc['histories'], impl['results']):
                    if name.startswith('tieonly/') or name.startswith('random:'):
                        cand.append((name, hh, ents))
                need = [c for c in cand if c[2] is None]
                if need:
                    try:
                        res = C.run_impl(ctx, [c[1] for c in need], 'all', timeout=left())
                        it = iter(res['results'])
                        cand = [(n, hh, e if e is not None else next(it)) for n, hh, e in cand]
                    except core.ImplCrash:
                        cand = [c for c in cand if c[2] is not None]
                for name, hh, ents in cand:
                    n_hist += 1
                    n_ops += len(hh)
                    found, _hist, _last = oracles.check_history(hh, ents, props)
                    for f in found:
                        if any(f.key.startswith(q) for q in anyk):
                            add(f.key, f.detail, hh, f.index, 'any-state:' + name)
        stats = {'evaluations': n_hist, 'distinct_nontrivial': len({json.dumps(h, sort_keys=True) for h in doc['histories'] if len(h) >= 5}),
                 'rule': f'oracle {pid}: property statement recomputed from the observable projection after every op of every history '
                         f'(harness/batchdb/oracles.py); {n_ops} ops',
                 'histograms': {f'oracle_{pid}_keys': keys_seen}}
        return fails, stats
    return oracle


def replay(ctx, doc):
    import oracles
    case = doc.get('case') or {}
    h = case.get('history') if isinstance(case, dict) else None
    if not h:
        return {'note': 'no history stored in this replay', 'doc': doc}
    res = C.run_impl(ctx, [h], 'all')
    found, _h, _l = oracles.check_history(h, res['results'][0], {doc.get('property')})
    return {'history': h, 'results': [e['result'] for e in res['results'][0]], 'oracle': [getattr(f, 'key', str(f)) for f in found]}


COMMON_TRUSTED = [
    'harness/minisql: my in-memory engine for the MySQL subset used by batch/sql and the handlers (stands in for MySQL 8 / InnoDB '
    'semantics: 3VL, SELECT INTO, error 1242/1062/1452/1644, triggers per row, ROW_COUNT, user variables, transactions as snapshots)',
    'harness/batchdb/runner.py SUBSTITUTIONS (auth wrappers skipped, schedule_job = the real function without its state assert / job config / worker POST, '
    'fake select_inst_coll, virtual clock, no network)',
    'harness/batchdb/corr.py canonicalisation (strings interned per history, token shards and billing days summed, all-zero counter rows dropped)',
    'loader stubs/shims (harness/loader)',
]
COMMON_ASSUMPTIONS = [
    'each DB transaction is atomic and serialisable with respect to the rows it locks: an interleaving of requests is an interleaving of the ops of INTERFACE.md',
    'environment (Legal.v): driver/worker messages name jobs of committed updates (the scheduler and canceller only select such jobs - checked by the oracle on '
    'scheduler_pick/canceller_pick), complete reports that name an instance carry an end time',
]
