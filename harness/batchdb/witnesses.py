"""Hand-minimised witness histories for the defect classes found by oracles.py, with the oracle keys they must produce.
  /venv/bin/python witnesses.py            # on $VERIF_REPO (default /repo): prints, per witness, expected vs reported keys
`fixed_by` names the migration that silences the witness (it must still fire on the pre-fix tree bd134079f)."""
import asyncio
import json
import os
import sys

sys.path.insert(0, os.path.dirname(os.path.abspath(__file__)))

J = lambda rel, **kw: dict({'id': rel, 'group_abs': 0, 'always_run': False, 'cores': 1000, 'inst_coll': 'standard', 'parents_abs': [],  # noqa: E731
                            'parents_rel': []}, **kw)
B = {'op': 'create_batch', 'user': 'u1', 'bp': 'bp1', 'token': 'bt'}
U = lambda k, nj, ng=0: {'op': 'create_update', 'batch': 1, 'user': 'u1', 'token': f'ut{k}', 'n_jobs': nj, 'n_groups': ng}  # noqa: E731
CJ = lambda k, jobs: {'op': 'create_jobs', 'batch': 1, 'update': k, 'user': 'u1', 'jobs': jobs}  # noqa: E731
CM = lambda k: {'op': 'commit', 'batch': 1, 'update': k, 'user': 'u1'}  # noqa: E731
I1 = [{'op': 'new_instance', 'name': 'i1', 'inst_coll': 'standard', 'cores': 2000}, {'op': 'activate_instance', 'name': 'i1', 'time': 10}]

WITNESSES = [
    dict(name='C07/C39: sub-group cancelled, then the batch: scheduling requests fail with error 1242', fixed_by='121',
         expect=['C07:error-1242-two-cancelled-ancestors:schedule_job', 'C39:always-run-job-cannot-be-scheduled-error-1242:schedule_job'],
         history=[B, U(1, 1, 1), {'op': 'create_groups', 'batch': 1, 'update': 1, 'user': 'u1', 'groups': [{'id': 1, 'parent_abs': 0}]},
                  CJ(1, [dict(J(1, always_run=True), group_abs=1)]), CM(1), *I1,
                  {'op': 'cancel_group', 'batch': 1, 'group': 1}, {'op': 'cancel_group', 'batch': 1, 'group': 0},
                  {'op': 'schedule_job', 'batch': 1, 'job': 1, 'attempt': 'a1', 'instance': 'i1'}]),
    dict(name='C41/C01/C04/C06: parent completes while its child sits in an uncommitted update', fixed_by='122',
         expect=['C41:uncommitted-job-became-Ready:mark_complete', 'C01:user-counters:uncommitted-job-Ready'],
         history=[B, U(1, 2), CJ(1, [J(1), J(2)]), CM(1), *I1,
                  {'op': 'schedule_job', 'batch': 1, 'job': 1, 'attempt': 'a1', 'instance': 'i1'},
                  U(2, 1), CJ(2, [J(1, parents_abs=[1])]),
                  {'op': 'mark_complete', 'batch': 1, 'job': 1, 'attempt': 'a1', 'instance': 'i1', 'state': 'Success', 'start': 20, 'end': 30,
                   'reason': 'completed', 'time': 31},
                  {'op': 'scheduler_pick', 'inst_coll': 'standard', 'user': 'u1'}]),
    dict(name='C41: update 2 is committed before update 1: the staged Ready jobs of update 1 are offered to the scheduler', fixed_by=None,
         expect=['C41:uncommitted-job-offered-by-scheduler:staged-update-1-job-while-later-update-committed'],
         history=[B, U(1, 1), U(2, 1), CJ(1, [J(1)]), CJ(2, [J(1)]), CM(2), {'op': 'scheduler_pick', 'inst_coll': 'standard', 'user': 'u1'}]),
    dict(name='C10: attempt of a job-private job ends while its instance is still pending: cores are not given back', fixed_by='123',
         expect=['C10:free-cores:pending-job-private-instance:after-mark_complete'],
         history=[B, U(1, 1), CJ(1, [J(1, inst_coll='job-private')]), CM(1),
                  {'op': 'new_instance', 'name': 'p1', 'inst_coll': 'job-private', 'cores': 1000},
                  {'op': 'mark_creating', 'batch': 1, 'job': 1, 'attempt': 'a1', 'instance': 'p1', 'time': 20},
                  {'op': 'cancel_group', 'batch': 1, 'group': 0},
                  {'op': 'mark_complete', 'batch': 1, 'job': 1, 'attempt': 'a1', 'instance': 'p1', 'state': 'Cancelled', 'start': None, 'end': 40,
                   'reason': 'cancelled', 'time': 41}]),
    dict(name='C03: activation-timeout attempt is billed by a late complete report and un-billed by the next heartbeat', fixed_by='124',
         expect=['C03:activation-timeout-attempt-billed:late-report-on-timed-out-attempt', 'C03:billed-time-decreased:timed-out-attempt-that-got-a-start',
                 'C03:start-moved-later:timed-out-attempt-that-got-a-start'],
         history=[B, U(1, 1), CJ(1, [J(1, inst_coll='job-private')]), CM(1),
                  {'op': 'new_instance', 'name': 'p1', 'inst_coll': 'job-private', 'cores': 1000},
                  {'op': 'mark_creating', 'batch': 1, 'job': 1, 'attempt': 'a1', 'instance': 'p1', 'time': 100},
                  {'op': 'add_attempt_resources', 'batch': 1, 'job': 1, 'attempt': 'a1', 'resources': [{'name': 'cpu', 'quantity': 10}]},
                  {'op': 'deactivate_instance', 'name': 'p1', 'reason': 'activation_timeout', 'time': 200},
                  {'op': 'mark_complete', 'batch': 1, 'job': 1, 'attempt': 'a1', 'instance': 'p1', 'state': 'Success', 'start': 150, 'end': 300,
                   'reason': 'completed', 'time': 310},
                  {'op': 'billing_update', 'instance': 'p1', 'time': 250, 'attempts': [[1, 1, 'a1']]}]),
    dict(name='C08: self / later / missing dependency and out-of-range ids are accepted', fixed_by='commit 658457514 (front_end validation)',
         expect=['C08:accepted-self-dependency', 'C08:accepted-later-dependency', 'C08:accepted-missing-dependency',
                 'C08:accepted-job-id-outside-reserved-range'],
         history=[B, U(1, 3), CJ(1, [J(1, parents_rel=[1]), J(2, parents_rel=[3]), J(3, parents_abs=[40]), J(4)]), CM(1)]),
    dict(name='C08: a bunch whose ids lie in ANOTHER update\'s range is swallowed as "already inserted"; commit then reports a wrong count', fixed_by='commit 658457514 (front_end validation)',
         expect=['C08:bunch-colliding-with-other-update-silently-accepted'],
         history=[B, U(1, 1), CJ(1, [J(1)]), CM(1), U(2, 1), CJ(2, [J(0)]), CM(2)]),
    dict(name='C08 consequence: job of a later update with a missing parent becomes Ready AND cancelled at commit', fixed_by='commit 658457514 (front_end validation)',
         expect=['C08:accepted-missing-dependency', 'C05:left-pending-before-all-parents-terminal:after-commit'],
         history=[B, U(1, 1), CJ(1, [J(1)]), CM(1), U(2, 1), CJ(2, [J(1, parents_abs=[7])]), CM(2)]),
    dict(name='C10 (forged input): unschedule_job for an attempt id that never existed releases cores that were never taken', fixed_by=None,
         expect=['C10:free-cores:active-pool-instance:after-unschedule_job'],
         history=[B, U(1, 1), CJ(1, [J(1)]), CM(1), *I1,
                  {'op': 'unschedule_job', 'batch': 1, 'job': 1, 'attempt': 'ghost', 'instance': 'i1', 'time': 50, 'reason': 'cancelled'}]),
]


def main():
    import oracles
    prefix = '--prefix' in sys.argv      # pre-fix tree: every witness must fire; default (fixed tree): fixed witnesses must be silent

    async def run():
        ok = True
        for w in WITNESSES:
            fails, ents = await oracles.check_full(w['history'], 0, None, do_drain=False, do_erase=False)
            keys = sorted({f.key for f in fails})
            missing = [k for k in w['expect'] if k not in keys]
            present = [k for k in w['expect'] if k in keys]
            print(f"- {w['name']}  (fixed by: {w['fixed_by']})")
            print(f"    reported: {keys}")
            if w['fixed_by'] and not prefix:
                good = not present
                print(f"    expected SILENT on the fixed tree: {'OK' if good else 'STILL FIRES ' + str(present)}")
            else:
                good = not missing
                print(f"    expected keys: {'ALL PRESENT' if good else 'MISSING ' + str(missing)}")
            ok = ok and good
        return ok
    sys.exit(0 if asyncio.run(run()) else 1)


if __name__ == '__main__':
    main()
