"""A fake `gear.Database` / `gear.Transaction` backed by minisql.

Two layers, mirroring the real stack:
  * FakePool / FakeConnection / FakeCursor: the aiomysql surface gear uses (`acquire()`, `cursor()`, `execute`, `executemany`,
    `fetchone`, `fetchmany`, `lastrowid`, `commit`, `rollback`), with pymysql's client-side behaviour that matters:
      - `%s` parameter substitution (done by binding, `%%` = literal percent; args=None means no formatting at all);
      - `executemany` on `INSERT ... VALUES (...)` is rewritten into ONE multi-row INSERT (pymysql's RE_INSERT_VALUES), so a
        duplicate key in row k leaves NO row of the bunch behind (statement atomicity) -- `_create_jobs` relies on this;
        any other statement is executed once per argument tuple;  an empty argument list executes nothing;
      - server errors are raised as the pymysql.err class pymysql's error map chooses (1062/1452/1048 IntegrityError,
        1644/1242/1172 OperationalError, ...), `args == (code, message)`.
  * FakeDatabase / FakeTransaction: line-by-line mirror of gear/gear/database.py (same methods, same transaction boundaries:
    every Database.* convenience call is its own transaction, `start()` issues START TRANSACTION [READ ONLY], exit commits or
    rolls back).  The REAL `gear.transaction` decorator works on it unchanged (it only needs `db.start(read_only=...)`).

`Unsupported` (SQL outside the minisql subset) is never converted: it propagates so that the run fails closed.

Overlapping requests (history op "race", see race.py): while `FakeDatabase.race` is set, a connection opened by one of the two
racing handler tasks carries its `party`; every statement of such a connection is executed through `race.execute` in a worker
thread (pause point of the first request, table-granular lock check against the other party -- possibly parking the thread until
the other one finished --, snapshot for consistent reads; for a CALL the same gate runs before every statement of the procedure
body, `engine.stmt_hook`); the end of a transaction releases the party's locks (`race.end_tx`).
Connections without a party (every ordinary op) never touch that code.
"""
import re

import pymysql  # the shim in harness/loader/shims (or the real one): only pymysql.err is used

from minisql import MySQLError

# pymysql/cursors.py
RE_INSERT_VALUES = re.compile(
    r"\s*((?:INSERT|REPLACE)\b.+\bVALUES?\s*)"
    + r"(\(\s*(?:%s|%\(.+\)s)\s*(?:,\s*(?:%s|%\(.+\)s)\s*)*\))"
    + r"(\s*(?:ON DUPLICATE.*)?);?\s*\Z",
    re.IGNORECASE | re.DOTALL,
)

# pymysql/err.py error_map (the codes minisql can raise)
_INTEGRITY = {1062, 1451, 1452, 1216, 1217, 1048}
_PROGRAMMING = {1064, 1146, 1102, 1103, 1110, 1111, 1112, 1113, 1179, 1166, 1007}
_DATA = {1265, 1263, 1264, 1230, 1171, 1406, 1441, 1366, 1367}
_NOTSUPPORTED = {1196, 1235, 1289, 1286}


def to_pymysql_error(e):
    code = e.code
    if code in _INTEGRITY:
        cls = pymysql.err.IntegrityError
    elif code in _PROGRAMMING:
        cls = pymysql.err.ProgrammingError
    elif code in _DATA:
        cls = pymysql.err.DataError
    elif code in _NOTSUPPORTED:
        cls = pymysql.err.NotSupportedError
    elif code < 1000:
        cls = pymysql.err.InternalError
    else:
        cls = pymysql.err.OperationalError
    return cls(code, e.msg)


class FakeCursor:
    def __init__(self, conn):
        self._conn = conn
        self._rows = None
        self._pos = 0
        self.rowcount = -1
        self.lastrowid = None
        self.description = None

    async def __aenter__(self):
        return self

    async def __aexit__(self, *exc):
        self._rows = None
        return False

    def _run(self, sql, args):
        db = self._conn._db
        db.n_statements += 1
        if db.trace is not None:
            db.trace.append((sql, args))
        try:
            r = self._conn._sess.execute(sql, args)
        except MySQLError as e:
            raise to_pymysql_error(e) from None
        return r

    async def _gated(self, sql, args):
        race = self._conn._db.race
        if race is None or self._conn.party is None:
            return self._run(sql, args)
        # gate + execution in a worker thread of the race: the statement (or, for a CALL, a statement of the procedure body) may park there
        return await race.execute(self._conn, sql, args, self._run)

    async def execute(self, sql, args=None):
        r = await self._gated(sql, args)
        self._rows = r.rows
        self._pos = 0
        self.rowcount = r.rowcount
        self.lastrowid = r.lastrowid
        return r.rowcount

    async def executemany(self, sql, args):
        if not args:
            return None
        m = RE_INSERT_VALUES.match(sql)
        if m:
            prefix = m.group(1)
            values = m.group(2).rstrip()
            postfix = m.group(3) or ''
            if '%(' in values:
                raise NotImplementedError('named parameters')
            n = len(args)
            bulk = prefix + ','.join([values] * n) + postfix
            flat = []
            for a in args:
                if isinstance(a, dict):
                    raise NotImplementedError('named parameters')
                flat.extend(a)
            r = await self._gated(bulk, flat)
            self.rowcount = r.rowcount
            self.lastrowid = r.lastrowid
            self._rows = None
            return r.rowcount
        total = 0
        for a in args:
            total += await self.execute(sql, a)
        self.rowcount = total
        return total

    async def fetchone(self):
        if self._rows is None or self._pos >= len(self._rows):
            return None
        r = self._rows[self._pos]
        self._pos += 1
        return r

    async def fetchmany(self, size=None):
        if self._rows is None:
            return []
        size = size or 1
        out = self._rows[self._pos:self._pos + size]
        self._pos += len(out)
        return out

    async def fetchall(self):
        if self._rows is None:
            return []
        out = self._rows[self._pos:]
        self._pos = len(self._rows)
        return out


class FakeConnection:
    def __init__(self, db):
        self._db = db
        self._sess = db.engine.connect()
        self.party = None
        if db.race is not None:
            from batchdb.race import PARTY
            self.party = PARTY.get()
            self._sess.race_party = self.party      # read by race.RaceControl.inner (statements of procedure bodies)

    def cursor(self):
        return FakeCursor(self)

    def _end_tx(self):
        if self.party is not None and self._db.race is not None:
            self._db.race.end_tx(self)

    async def commit(self):
        self._sess.commit()
        self._end_tx()

    async def rollback(self):
        self._sess.rollback()
        self._end_tx()

    def close(self):
        self._sess.close()
        self._end_tx()


class FakeTransaction:
    """Mirror of gear.database.Transaction."""

    def __init__(self, db):
        self._db = db
        self.conn = None

    async def async_init(self, read_only):
        self.conn = FakeConnection(self._db)
        self._db.n_transactions += 1
        try:
            async with self.conn.cursor() as cursor:
                if read_only:
                    await cursor.execute('START TRANSACTION READ ONLY;')
                else:
                    await cursor.execute('START TRANSACTION;')
        except BaseException:
            self.conn.close()
            self.conn = None
            raise

    async def _aexit(self, exc_type, exc_val, exc_tb):
        try:
            if self.conn is not None:
                if exc_type:
                    await self.conn.rollback()
                else:
                    await self.conn.commit()
        finally:
            if self.conn is not None:
                self.conn.close()
            self.conn = None

    async def just_execute(self, sql, args=None):
        assert self.conn
        async with self.conn.cursor() as cursor:
            await cursor.execute(sql, args)

    async def execute_and_fetchone(self, sql, args=None, query_name=None):
        assert self.conn
        async with self.conn.cursor() as cursor:
            await cursor.execute(sql, args)
            return await cursor.fetchone()

    async def execute_and_fetchall(self, sql, args=None, query_name=None):
        assert self.conn
        async with self.conn.cursor() as cursor:
            await cursor.execute(sql, args)
            while True:
                rows = await cursor.fetchmany(100)
                if not rows:
                    break
                for row in rows:
                    yield row

    async def execute_insertone(self, sql, args=None, *, query_name=None):
        assert self.conn
        async with self.conn.cursor() as cursor:
            await cursor.execute(sql, args)
            return cursor.lastrowid

    async def execute_update(self, sql, args=None, query_name=None):
        assert self.conn
        async with self.conn.cursor() as cursor:
            return await cursor.execute(sql, args)

    async def execute_many(self, sql, args_array, query_name=None):
        assert self.conn
        async with self.conn.cursor() as cursor:
            return await cursor.executemany(sql, args_array)


class _TxCM:
    def __init__(self, db, read_only):
        self.db = db
        self.read_only = read_only
        self.tx = None

    async def __aenter__(self):
        tx = FakeTransaction(self.db)
        await tx.async_init(self.read_only)
        self.tx = tx
        return tx

    async def __aexit__(self, exc_type, exc_val, exc_tb):
        assert self.tx is not None
        await self.tx._aexit(exc_type, exc_val, exc_tb)
        self.tx = None


class CallError(Exception):
    def __init__(self, rv):
        super().__init__(rv)
        self.rv = rv


def _call_error_class():
    try:
        from gear.database import CallError as RealCallError  # the class front_end catches
        return RealCallError
    except Exception:   # gear not importable (unit tests without the loader)
        return CallError


class FakeDatabase:
    """Mirror of gear.database.Database (every convenience method = its own transaction)."""

    def __init__(self, engine):
        self.engine = engine
        self.n_statements = 0
        self.n_transactions = 0
        self.trace = None
        self.pool = self
        self.race = None          # race.RaceControl while a "race" op runs

    async def async_init(self, config_file=None, maxsize=10):
        return None

    def start(self, read_only=False):
        return _TxCM(self, read_only)

    async def just_execute(self, sql, args=None):
        async with self.start() as tx:
            await tx.just_execute(sql, args)

    async def execute_and_fetchone(self, sql, args=None, query_name=None):
        async with self.start() as tx:
            return await tx.execute_and_fetchone(sql, args, query_name)

    async def select_and_fetchone(self, sql, args=None, query_name=None):
        async with self.start(read_only=True) as tx:
            return await tx.execute_and_fetchone(sql, args, query_name)

    async def execute_and_fetchall(self, sql, args=None, query_name=None):
        async with self.start() as tx:
            async for row in tx.execute_and_fetchall(sql, args, query_name):
                yield row

    async def select_and_fetchall(self, sql, args=None, query_name=None):
        async with self.start(read_only=True) as tx:
            async for row in tx.execute_and_fetchall(sql, args, query_name):
                yield row

    async def execute_insertone(self, sql, args=None):
        async with self.start() as tx:
            return await tx.execute_insertone(sql, args)

    async def execute_update(self, sql, args=None, query_name=None):
        async with self.start() as tx:
            return await tx.execute_update(sql, args, query_name)

    async def execute_many(self, sql, args_array, query_name=None):
        async with self.start() as tx:
            return await tx.execute_many(sql, args_array, query_name=query_name)

    async def check_call_procedure(self, sql, args=None, query_name=None):
        rv = await self.execute_and_fetchone(sql, args, query_name)
        if rv['rc'] != 0:
            raise _call_error_class()(rv)
        return rv

    async def async_close(self):
        return None
