"""Implementation-side history runner for the BatchDB family (C01-C10, C39, C41).

stdin : JSON {"histories": [[op, ...], ...], "seed": n, "obs": "all"|"last"|"none" (default all), "config": {...} (optional)}
stdout: JSON {"results": [[{"result": ..., "obs": ...}, ...], ...], "stats": {...}, "substitutions": [...], "routines": {...}}
Ops, results and the observable projection are defined in harness/batchdb/INTERFACE.md.

Every op is executed by the REAL code of $VERIF_REPO loaded through hailload: the innermost bodies of the REST handlers of
batch/front_end/front_end.py, the driver functions of batch/driver/{job,instance,main}.py, the canceller/scheduler selection
generators cut out of canceller.py / pool.py / job_private.py by AST -- all on a FakeDatabase backed by minisql, which runs the
LIVE stored routines and triggers of batch/sql.  Where a direct SQL call replaces a Python function it is listed in SUBSTITUTIONS.
"""
import ast
import asyncio
import json
import logging
import os
import random
import sys
import time as _time

HERE = os.path.dirname(os.path.abspath(__file__))
HARNESS = os.path.dirname(HERE)
for p in (HARNESS, os.path.join(HARNESS, 'loader')):
    if p not in sys.path:
        sys.path.insert(0, p)

import hailload  # noqa: E402

hailload.install()

from aiohttp import web  # noqa: E402

import pymysql  # noqa: E402
from minisql import Engine, MySQLError, Unsupported  # noqa: E402
from batchdb.fakedb import FakeDatabase  # noqa: E402

# ----------------------------------------------------------------------------------------------------------------------
# What is NOT the real Python function (goes into the trusted base)
# ----------------------------------------------------------------------------------------------------------------------
SUBSTITUTIONS = [
    {'op': '*', 'real': 'aiohttp routing, auth decorators (auth.authenticated_users_only, billing_project_users_only, '
                        'activating/active_instances_only)',
     'substitute': 'the innermost handler body (functools __wrapped__ chain) is called with a FakeRequest; the wrappers (session auth, '
                   '_user_can_access, instance token / in-memory state checks) are NOT executed',
     'why': 'no auth service; the ops of INTERFACE.md carry no credentials; worker messages must be able to race with deactivation'},
    {'op': 'schedule_job', 'real': 'PoolScheduler.schedule_loop_body (pool instances) / JobPrivateInstanceManager.schedule_jobs_loop_body -> '
                                   'batch.driver.job.schedule_job',
     'substitute': "the REAL batch.driver.job.schedule_job, recompiled from the source of $VERIF_REPO in the module's namespace with (a) its leading "
                   "`assert instance.state == 'active'` removed, (b) job_config() = fake returning {}, (c) the worker POST dropped (no-op client "
                   'session) and instance.mark_healthy() a no-op for the duration of the call; for an instance of a POOL it is called the way '
                   "the pool scheduler calls it: the real statement `instance.adjust_free_cores_in_memory(-record['cores_mcpu'])` of "
                   'schedule_loop_body (cut out by AST; cores_mcpu read from the jobs row) and then the real nested '
                   '`schedule_with_error_handling(app, record, instance)` (cut out by AST); the answer {rc, delta_cores} (or the SQL error, which '
                   'schedule_with_error_handling swallows) is read off a recording proxy around app[db]',
     'why': 'the job config needs k8s secrets and the POST needs a worker; the assert would hide the procedure\'s own guards against late/stale '
            'scheduling; mark_healthy only writes instances.last_updated / failed_request_count (not part of any family property) and its UPDATE '
            'would shift the statement indices of the race schedules'},
    {'op': 'unschedule_job (reason != "cancelled")', 'real': 'batch.driver.job.unschedule_job',
     'substitute': "the REAL function recompiled from source with the one constant 'cancelled' in the argument tuple of its CALL replaced by the "
                   "op's reason (end_time = virtual clock = the op's time); with reason == 'cancelled' the unmodified function is called",
     'why': "the real function hard-codes the reason 'cancelled'"},
    {'op': 'mark_complete', 'real': 'batch.driver.main.job_complete_1 (worker report) / Canceller.cancel_* (driver)',
     'substitute': 'batch.driver.job.mark_job_complete (the REAL function both call) with the op fields as arguments; job_group_id '
                   'is read from the jobs table; status=None; resources=[]',
     'why': 'one op covers worker reports and canceller completions'},
    {'op': 'deactivate_instance / mark_instance_deleted', 'real': 'InstanceCollection.call_delete_instance / monitor loops / worker deactivate',
     'substitute': 'the REAL Instance.deactivate(reason, time) / Instance.mark_deleted("deleted", now) on the REAL Instance object',
     'why': 'cloud VM deletion is not available'},
    {'op': 'new_instance', 'real': 'Pool.create_instance / JobPrivateInstanceManager.create_instance',
     'substitute': 'the REAL Instance.create(app, fake_inst_coll, name, activation_token, cores, ...) (its INSERTs are the real SQL)',
     'why': 'no cloud'},
    {'op': 'scheduler_pick', 'real': 'PoolScheduler.schedule_loop_body / JobPrivateInstanceManager.create_instances_loop_body',
     'substitute': 'their nested async generator `user_runnable_jobs` is cut out by AST and executed unchanged (real SQL strings, real '
                   'control flow) with self = object(db, pool.name / name); fair-share, instance choice and the actual scheduling are not run; '
                   'result = distinct sorted [batch, job]',
     'why': 'selection predicate only (INTERFACE: no state change)'},
    {'op': 'canceller_pick', 'real': 'Canceller.cancel_cancelled_{ready,creating,running}_jobs_loop_body',
     'substitute': 'their nested generators user_cancelled_*_jobs(user, Box(300)) cut out by AST and executed unchanged; result = distinct '
                   'sorted [batch, job]',
     'why': 'selection predicate only'},
    {'op': 'create_jobs', 'real': 'InstanceCollectionConfigs.select_inst_coll',
     'substitute': "fake: returns (resources.pool_label, requested cpu in mcpu, 1 GiB, 0) when pool_label names a seeded inst_coll, else None",
     'why': 'INTERFACE: the op carries inst_coll and cores; pool prices/worker types are not part of the properties'},
    {'op': 'compact_billing table=job_group', 'real': '(none: the tree has no compactor for aggregated_job_group_resources_v3)',
     'substitute': 'returns {"err": "BadRequest"} without touching the database', 'why': 'nothing to run'},
    {'op': '*', 'real': 'hailtop.utils.time_msecs in front_end / driver modules',
     'substitute': 'virtual clock: the op\'s "time" field when present, else the running maximum of all times seen; UTC_DATE() = day of '
                   'that running maximum', 'why': 'determinism'},
    {'op': '*', 'real': 'file store, k8s cache, aiohttp client session, task manager, hail credentials, events/notices',
     'substitute': 'no-op fakes (spec files are not written; HTTP callbacks / worker requests are dropped)', 'why': 'no network'},
]

ROOT = 0
DEFAULT_CONFIG = {
    'n_tokens': 4,
    'billing_projects': {'bp1': ['u1'], 'bp2': ['u2'], 'bp12': ['u1', 'u2']},
    'closed_billing_projects': ['bpclosed'],
    'inst_colls': {'standard': True, 'highmem': True, 'job-private': False},      # name -> is_pool
    'resources': ['cpu', 'mem', 'disk'],
    'obs_aux': False,
}

logging.disable(logging.CRITICAL)


class Clock:
    now = 0
    wall = 0


def _time_msecs():
    return Clock.now


# ----------------------------------------------------------------------------------------------------------------------
# fakes
# ----------------------------------------------------------------------------------------------------------------------
class FakeRequest(dict):
    def __init__(self, app, match_info=None, body=None, headers=None):
        super().__init__()
        self.app = app
        self.match_info = dict(match_info or {})
        self._body = body
        self.headers = headers or {}
        self.query = {}
        self['batch_telemetry'] = {}

    async def read(self):
        return json.dumps(self._body).encode()

    async def json(self):
        return self._body

    @property
    def url(self):
        class U:
            path = '/fake'
        return U()


class _Noop:
    def __getattr__(self, name):
        async def f(*a, **k):
            return None
        return f


class FakeTaskManager:
    def ensure_future(self, coro):
        try:
            coro.close()
        except Exception:
            pass


class FakeCredentials:
    async def auth_headers(self):
        return {}


class FakeEvent:
    def set(self):
        pass

    def clear(self):
        pass

    def notify(self):
        pass


class FakeInstConfig:
    def to_dict(self):
        return {}


class FakeInstColl:
    def __init__(self, name, is_pool):
        self.name = name
        self.is_pool = is_pool
        self.scheduler_state_changed = FakeEvent()

    def adjust_for_remove_instance(self, instance):
        pass

    def adjust_for_add_instance(self, instance):
        pass

    async def call_delete_instance(self, instance, reason, timestamp=None, force=False):
        await instance.deactivate(reason, timestamp)


class FakeInstCollManager:
    def __init__(self):
        self.name_instance = {}

    def get_instance(self, name):
        return self.name_instance.get(name)


class FakeDriver:
    def __init__(self):
        self.inst_coll_manager = FakeInstCollManager()


class FakeInstCollConfigs:
    def __init__(self, inst_colls):
        self.inst_colls = inst_colls

    def select_inst_coll(self, cloud, machine_type, pool_label, preemptible, worker_type, req_cores_mcpu, req_memory_bytes,
                         req_storage_bytes):
        if pool_label in self.inst_colls and req_cores_mcpu is not None:
            return ((pool_label, req_cores_mcpu, 1 << 30, 0), None)
        return (None, None)


class Box:
    def __init__(self, value):
        self.value = value


async def _async_noop(*a, **k):
    return None


class RecordingDB:
    """app['db'] for one call of a real driver function: everything is delegated to the FakeDatabase; the answers of
    execute_and_fetchone (by query name) and the first exception are kept, so that the op can report what the CALL answered
    even where the real caller swallows it."""

    def __init__(self, db):
        self._db = db
        self.answers = {}
        self.error = None

    def __getattr__(self, name):
        return getattr(self._db, name)

    async def execute_and_fetchone(self, sql, args=None, query_name=None):
        try:
            rv = await self._db.execute_and_fetchone(sql, args, query_name)
        except Exception as e:  # noqa: BLE001
            if self.error is None:
                self.error = e
            raise
        self.answers[query_name] = rv
        return rv


# ----------------------------------------------------------------------------------------------------------------------
# loading the real code
# ----------------------------------------------------------------------------------------------------------------------
def _unwrap(f):
    while hasattr(f, '__wrapped__'):
        f = f.__wrapped__
    return f


class Impl:
    """The real functions, imported once."""

    def __init__(self):
        import batch.front_end.front_end as fe
        import batch.driver.job as dj
        import batch.driver.instance as di
        import batch.driver.main as dm
        import batch.driver.canceller as dc
        import batch.batch as bb
        from gear import CommonAiohttpAppKeys
        self.fe, self.dj, self.di, self.dm, self.dc, self.bb = fe, dj, di, dm, dc, bb
        self.CLIENT_SESSION = CommonAiohttpAppKeys.CLIENT_SESSION
        for m in (fe, dj, di, dm, dc, bb):
            if hasattr(m, 'time_msecs'):
                m.time_msecs = _time_msecs
        self.h_create_batch = _unwrap(fe.create_batch)
        self.h_create_update = _unwrap(fe.create_update)
        self.h_create_job_groups = _unwrap(fe.create_job_groups)
        self.h_create_jobs = _unwrap(fe.create_jobs_for_update)
        self.h_commit = _unwrap(fe.commit_update)
        self.h_cancel_group = _unwrap(fe.cancel_job_group)
        self.h_cancel_batch = _unwrap(fe.cancel_batch)
        self.h_delete = _unwrap(fe.delete_batch)
        self.Resource = dm.Resource
        self.picks = self._load_picks()
        self._load_job_functions()

    def _nested(self, relpath, qual, name, extra_globals):
        """Cut the nested (async generator) function `name` out of method `qual` and compile it with `self` as a global."""
        src, node = hailload.load_function_source(relpath, qual)
        for child in ast.walk(node):
            if isinstance(child, (ast.AsyncFunctionDef, ast.FunctionDef)) and child.name == name and child is not node:
                fn_src = ast.get_source_segment(open(os.path.join(hailload.REPO, relpath)).read(), child)
                break
        else:
            raise KeyError(f'{name} not found in {qual}')
        import textwrap
        code = compile(textwrap.dedent(fn_src), f'{relpath}:{qual}.{name}', 'exec')

        def make(self_obj):
            g = dict(extra_globals)
            g['self'] = self_obj
            exec(code, g)
            return g[name]
        return make

    def _load_job_functions(self):
        """The REAL batch.driver.job.schedule_job / unschedule_job and the pool scheduler's call of schedule_job, recompiled from the
        source of $VERIF_REPO (see SUBSTITUTIONS for the three cuts).  Fail closed: an unexpected shape raises."""
        import textwrap
        dj = self.dj
        relpath = 'batch/batch/driver/job.py'
        src, _node = hailload.load_function_source(relpath, 'schedule_job')
        tree = ast.parse(textwrap.dedent(src))
        fn = tree.body[0]
        if fn.body and isinstance(fn.body[0], ast.Assert) and ast.unparse(fn.body[0].test) == "instance.state == 'active'":
            del fn.body[0]
        if [a.arg for a in fn.args.args] != ['app', 'record', 'instance']:
            raise Unsupported(f'schedule_job has an unexpected signature: {ast.unparse(fn.args)}')
        g = dict(dj.__dict__)

        async def fake_job_config(app, record):
            return {}
        g['job_config'] = fake_job_config
        exec(compile(tree, f'{relpath}:schedule_job', 'exec'), g)
        self.schedule_job = g['schedule_job']

        # the pool scheduler's bookkeeping around schedule_job: pre-reservation statement + nested error handler
        prel = 'batch/batch/driver/instance_collection/pool.py'
        _src, body = hailload.load_function_source(prel, 'PoolScheduler.schedule_loop_body')
        want = "instance.adjust_free_cores_in_memory(-record['cores_mcpu'])"
        nested = {id(x) for f in ast.walk(body) if isinstance(f, (ast.FunctionDef, ast.AsyncFunctionDef)) and f is not body
                  for x in ast.walk(f)}
        pre = [n for n in ast.walk(body) if id(n) not in nested and isinstance(n, ast.Expr) and isinstance(n.value, ast.Call)
               and isinstance(n.value.func, ast.Attribute) and n.value.func.attr == 'adjust_free_cores_in_memory'
               and isinstance(n.value.func.value, ast.Name) and n.value.func.value.id == 'instance']
        pre_src = [ast.unparse(n) for n in pre]
        if len(pre) != 1:
            raise Unsupported(f'PoolScheduler.schedule_loop_body: expected exactly one in-memory pre-reservation statement, found {pre_src}')
        self.pool_prereserve_src = pre_src[0]
        self.pool_prereserve = compile(ast.Module(body=[pre[0]], type_ignores=[]), f'{prel}:schedule_loop_body:pre-reservation', 'exec')
        self.pool_schedule = self._nested(prel, 'PoolScheduler.schedule_loop_body', 'schedule_with_error_handling',
                                          {'schedule_job': self.schedule_job})(None)

        # unschedule_job with another end reason
        src, _node = hailload.load_function_source(relpath, 'unschedule_job')
        tree = ast.parse(textwrap.dedent(src))
        hits = []
        for call in ast.walk(tree):
            if isinstance(call, ast.Call) and isinstance(call.func, ast.Attribute) and call.func.attr == 'execute_and_fetchone':
                for a in call.args:
                    if isinstance(a, ast.Tuple):
                        for i, e in enumerate(a.elts):
                            if isinstance(e, ast.Constant) and e.value == 'cancelled':
                                hits.append((a, i))
        if len(hits) != 1:
            raise Unsupported(f"unschedule_job: expected exactly one constant 'cancelled' in the CALL arguments, found {len(hits)}")
        tup, i = hits[0]
        tup.elts[i] = ast.Name(id='_verif_reason', ctx=ast.Load())
        ast.fix_missing_locations(tree)
        g2 = dict(dj.__dict__)
        exec(compile(tree, f'{relpath}:unschedule_job', 'exec'), g2)
        self._unschedule_globals = g2
        self.unschedule_job_reason = g2['unschedule_job']

    def _load_picks(self):
        from typing import Any, AsyncIterator, Dict
        g = {'AsyncIterator': AsyncIterator, 'Dict': Dict, 'Any': Any}
        return {
            'pool': self._nested('batch/batch/driver/instance_collection/pool.py', 'PoolScheduler.schedule_loop_body', 'user_runnable_jobs', g),
            'job_private': self._nested('batch/batch/driver/instance_collection/job_private.py',
                                        'JobPrivateInstanceManager.create_instances_loop_body', 'user_runnable_jobs', g),
            'ready': self._nested('batch/batch/driver/canceller.py', 'Canceller.cancel_cancelled_ready_jobs_loop_body', 'user_cancelled_ready_jobs', g),
            'creating': self._nested('batch/batch/driver/canceller.py', 'Canceller.cancel_cancelled_creating_jobs_loop_body',
                                     'user_cancelled_creating_jobs', g),
            'running': self._nested('batch/batch/driver/canceller.py', 'Canceller.cancel_cancelled_running_jobs_loop_body',
                                    'user_cancelled_running_jobs', g),
        }


# ----------------------------------------------------------------------------------------------------------------------
# one world = one history
# ----------------------------------------------------------------------------------------------------------------------
class World:
    def __init__(self, impl, engine, config):
        self.impl = impl
        self.engine = engine
        self.cfg = config
        self.db = FakeDatabase(engine)
        self.driver = FakeDriver()
        self.inst_colls = {n: FakeInstColl(n, p) for n, p in config['inst_colls'].items()}
        self.resource_ids = {}
        self.app = None

    def userdata(self, user):
        return {'username': user, 'hail_credentials_secret_name': f'{user}-gsa-key', 'tokens_secret_name': f'{user}-tokens',
                'is_developer': 0}

    def seed(self):
        s = self.engine.connect()
        x = s.execute
        cfg = self.cfg
        x("INSERT INTO globals (instance_id, internal_token, n_tokens, frozen) VALUES ('verif', 'tok', %s, 0)", (cfg['n_tokens'],))
        x("INSERT INTO feature_flags (compact_billing_tables, oms_agent, dockerhub_proxy) VALUES (1, 0, 0)")
        for name, is_pool in cfg['inst_colls'].items():
            x("INSERT INTO inst_colls (name, is_pool, boot_disk_size_gb, max_instances, max_live_instances, cloud, "
              "max_new_instances_per_autoscaler_loop, autoscaler_loop_period_secs, worker_max_idle_time_secs) "
              "VALUES (%s, %s, 10, 100, 100, 'gcp', 10, 10, 10)", (name, is_pool))
        for bp, users in cfg['billing_projects'].items():
            x("INSERT INTO billing_projects (name, name_cs) VALUES (%s, %s)", (bp, bp))
            for u in users:
                x("INSERT INTO billing_project_users (billing_project, user, user_cs) VALUES (%s, %s, %s)", (bp, u, u))
        for bp in cfg.get('closed_billing_projects', []):
            x("INSERT INTO billing_projects (name, name_cs, status) VALUES (%s, %s, 'closed')", (bp, bp))
            for u in ('u1', 'u2'):
                x("INSERT INTO billing_project_users (billing_project, user, user_cs) VALUES (%s, %s, %s)", (bp, u, u))
        for i, r in enumerate(cfg['resources'], start=1):
            x("INSERT INTO resources (resource, rate, resource_id, deduped_resource_id) VALUES (%s, %s, %s, %s)", (r, 0.001 * i, i, i))
            self.resource_ids[i] = r
        s.commit()
        s.close()
        impl = self.impl
        self.app = {
            'db': self.db,
            'frozen': False,
            'n_tokens': cfg['n_tokens'],
            'file_store': _Noop(),
            'feature_flags': {'compact_billing_tables': True, 'oms_agent': False, 'dockerhub_proxy': False},
            'inst_coll_configs': FakeInstCollConfigs(cfg['inst_colls']),
            'regions': {},
            'task_manager': FakeTaskManager(),
            'hail_credentials': FakeCredentials(),
            'cancel_batch_state_changed': FakeEvent(),
            'delete_batch_state_changed': FakeEvent(),
            'scheduler_state_changed': FakeEvent(),
            'cancel_ready_state_changed': FakeEvent(),
            'cancel_creating_state_changed': FakeEvent(),
            'cancel_running_state_changed': FakeEvent(),
            'driver': self.driver,
            'k8s_cache': _Noop(),
            'resource_name_to_id': {r: impl.Resource(i, i) for i, r in self.resource_ids.items()},
            impl.CLIENT_SESSION: _Noop(),
        }

    # ---- helpers -----------------------------------------------------------------------------------------------------
    def q(self, sql, args=None):
        s = self.engine.connect()
        try:
            return s.execute(sql, args).rows
        finally:
            s.close()

    def instance(self, name):
        return self.driver.inst_coll_manager.get_instance(name)

    def instance_or_ghost(self, name):
        """Worker/driver messages naming an instance the driver does not know still reach the stored procedures (the attempt insert
        then fails on the attempts.instance_name foreign key, error 1452): a ghost object stands in for the Instance."""
        inst = self.instance(name)
        if inst is not None:
            return inst

        class Ghost:
            state = None
            ip_address = None

            def adjust_free_cores_in_memory(self, delta):
                pass

            async def mark_healthy(self):
                pass

            async def incr_failed_request_count(self):
                pass
        g = Ghost()
        g.name = name
        return g

    # ---- ops ---------------------------------------------------------------------------------------------------------
    async def op_create_batch(self, op):
        body = {'billing_project': op['bp'], 'token': op['token'], 'n_jobs': 0, 'n_job_groups': 0}
        for k in ('attributes', 'callback', 'cancel_after_n_failures'):
            if k in op:
                body[k] = op[k]
        resp = await self.impl.h_create_batch(FakeRequest(self.app, {}, body), self.userdata(op['user']))
        return {'batch': json.loads(resp.body)['id']}

    async def op_create_update(self, op):
        body = {'token': op['token'], 'n_jobs': op['n_jobs'], 'n_job_groups': op['n_groups']}
        resp = await self.impl.h_create_update(FakeRequest(self.app, {'batch_id': str(op['batch'])}, body), self.userdata(op['user']))
        d = json.loads(resp.body)
        return {'update': d['update_id'], 'start_group': d['start_job_group_id'], 'start_job': d['start_job_id']}

    async def op_create_groups(self, op):
        specs = []
        for g in op['groups']:
            s = {'job_group_id': g['id']}
            if 'parent_abs' in g:
                s['absolute_parent_id'] = g['parent_abs']
            if 'parent_rel' in g:
                s['in_update_parent_id'] = g['parent_rel']
            for k in ('attributes', 'callback', 'cancel_after_n_failures'):
                if k in g:
                    s[k] = g[k]
            specs.append(s)
        await self.impl.h_create_job_groups(
            FakeRequest(self.app, {'batch_id': str(op['batch']), 'update_id': str(op['update'])}, specs), self.userdata(op['user']))
        return {}

    def job_spec(self, j):
        s = {'job_id': j['id'], 'process': {'type': 'docker', 'command': ['true'], 'image': 'ubuntu'},
             'always_run': bool(j.get('always_run', False)),
             'resources': {'cpu': f"{j['cores']}m", 'memory': 'standard', 'storage': '0Gi', 'pool_label': j['inst_coll']}}
        if 'group_abs' in j:
            s['absolute_job_group_id'] = j['group_abs']
        if 'group_rel' in j:
            s['in_update_job_group_id'] = j['group_rel']
        if j.get('parents_abs'):
            s['absolute_parent_ids'] = list(j['parents_abs'])
        if j.get('parents_rel'):
            s['in_update_parent_ids'] = list(j['parents_rel'])
        if 'n_max_attempts' in j:
            s['n_max_attempts'] = j['n_max_attempts']
        if 'raw' in j:           # malformed stream: arbitrary extra/overriding spec fields
            s.update(j['raw'])
        return s

    async def op_create_jobs(self, op):
        specs = [self.job_spec(j) for j in op['jobs']]
        await self.impl.h_create_jobs(
            FakeRequest(self.app, {'batch_id': str(op['batch']), 'update_id': str(op['update'])}, specs), self.userdata(op['user']))
        return {}

    async def op_commit(self, op):
        from gear.database import CallError
        try:
            await self.impl.h_commit(FakeRequest(self.app, {'batch_id': str(op['batch']), 'update_id': str(op['update'])}),
                                     self.userdata(op['user']))
        except CallError as e:
            return {'rc': e.rv['rc']}
        return {'rc': 0}

    async def op_cancel_group(self, op):
        req = FakeRequest(self.app, {'batch_id': str(op['batch']), 'job_group_id': str(op['group'])})
        if op['group'] == ROOT:
            await self.impl.h_cancel_batch(req, None, op['batch'])
        else:
            await self.impl.h_cancel_group(req, None, op['batch'])
        return {}

    async def op_delete_batch(self, op):
        await self.impl.h_delete(FakeRequest(self.app, {'batch_id': str(op['batch'])}), None, op['batch'])
        return {}

    async def op_new_instance(self, op):
        ic = self.inst_colls.get(op['inst_coll'])
        if ic is None:
            raise web.HTTPBadRequest(reason='unknown inst_coll')
        mcpu = op['cores']
        if mcpu % 1000 != 0 or mcpu <= 0:
            raise web.HTTPBadRequest(reason='instance cores must be a positive multiple of 1000 mcpu')
        inst = await self.impl.di.Instance.create(self.app, ic, op['name'], 'act-' + op['name'], mcpu // 1000, 'zone-a', 'n1-standard-1',
                                                  True, FakeInstConfig())
        self.driver.inst_coll_manager.name_instance[op['name']] = inst
        return {}

    async def op_activate_instance(self, op):
        inst = self.instance(op['name'])
        if inst is None or inst.state != 'pending':      # activating_instances_only
            raise web.HTTPUnauthorized()
        await self.impl.dm.activate_instance_1(FakeRequest(self.app, {}, {'ip_address': '10.0.0.9'}), inst)
        return {}

    async def op_deactivate_instance(self, op):
        inst = self.instance(op['name'])
        if inst is None:
            raise web.HTTPNotFound()
        await inst.deactivate(op.get('reason', 'deactivated'), op.get('time'))
        return {}

    async def op_mark_instance_deleted(self, op):
        inst = self.instance(op['name'])
        if inst is None:
            raise web.HTTPNotFound()
        await inst.mark_deleted('deleted', Clock.now)
        return {}

    async def op_schedule_job(self, op):
        inst = self.instance_or_ghost(op['instance'])
        rows = self.q('SELECT cores_mcpu, job_group_id FROM jobs WHERE batch_id = %s AND job_id = %s', (op['batch'], op['job']))
        row = dict(rows[0]) if rows else {'cores_mcpu': None, 'job_group_id': ROOT}
        rows = self.q('SELECT user, format_version FROM batches WHERE id = %s', (op['batch'],))
        row.update(dict(rows[0]) if rows else {'user': None, 'format_version': 7})
        record = {'batch_id': op['batch'], 'job_id': op['job'], 'attempt_id': op['attempt'], 'job_group_id': row['job_group_id'],
                  'format_version': row['format_version'], 'user': row['user'], 'cores_mcpu': row['cores_mcpu'], 'time_ready': None}
        rec = RecordingDB(self.db)
        app = dict(self.app)
        app['db'] = rec
        real = self.instance(op['instance'])
        if real is not None:
            real.mark_healthy = _async_noop          # instance attribute shadows the method for this call only (SUBSTITUTIONS)
        try:
            if real is not None and real.inst_coll.is_pool and record['cores_mcpu'] is not None:
                # PoolScheduler.schedule_loop_body: reserve in memory, then schedule_with_error_handling (both real, cut out by AST)
                exec(self.impl.pool_prereserve, {'instance': real, 'record': record})
                await self.impl.pool_schedule(app, record, real)
            else:
                await self.impl.schedule_job(app, record, inst)
        finally:
            if real is not None:
                real.__dict__.pop('mark_healthy', None)
        if rec.error is not None:
            raise rec.error
        rv = rec.answers.get('schedule_job')
        if rv is None:
            raise AssertionError('schedule_job did not CALL schedule_job')
        return {'rc': rv['rc'], 'delta_cores': rv['delta_cores_mcpu']}

    async def op_unschedule_job(self, op):
        reason = op.get('reason', 'cancelled')
        record = {'batch_id': op['batch'], 'job_id': op['job'], 'attempt_id': op['attempt'], 'instance_name': op['instance']}
        if reason == 'cancelled':
            await self.impl.dj.unschedule_job(self.app, record)
            return {}
        self.impl._unschedule_globals['_verif_reason'] = reason
        await self.impl.unschedule_job_reason(self.app, record)
        return {}

    def worker_message(self, inst):
        """A worker message reaches its handler only through active_instances_only (in-memory state 'active').  The runner delivers it
        anyway (races with deactivation); the instance is then marked so that the in-memory clause of C10 does not judge it."""
        if getattr(inst, 'state', None) != 'active' and hasattr(inst, '__dict__'):
            inst.__dict__['_verif_unauthorised'] = True

    async def op_mark_creating(self, op):
        inst = self.instance_or_ghost(op['instance'])
        # the driver calls mark_job_creating only from JobPrivateInstanceManager.create_instance, right after Instance.create (in-memory
        # state 'pending'); the op is delivered to any instance, one in another in-memory state is not judged by the in-memory clause
        if getattr(inst, 'state', None) != 'pending' and hasattr(inst, '__dict__'):
            inst.__dict__['_verif_unauthorised'] = True
        await self.impl.dj.mark_job_creating(self.app, op['batch'], op['job'], op['attempt'], inst, op['time'], [])
        return {}

    async def op_mark_started(self, op):
        inst = self.instance_or_ghost(op['instance'])
        self.worker_message(inst)
        await self.impl.dj.mark_job_started(self.app, op['batch'], op['job'], op['attempt'], inst, op['time'], [])
        return {}

    async def op_mark_complete(self, op):
        rows = self.q('SELECT job_group_id FROM jobs WHERE batch_id = %s AND job_id = %s', (op['batch'], op['job']))
        job_group_id = rows[0]['job_group_id'] if rows else ROOT
        if op.get('instance') is not None and op.get('state') != 'Cancelled':      # a worker's report (job_complete_1), not the canceller's
            self.worker_message(self.instance(op['instance']))
        await self.impl.dj.mark_job_complete(self.app, op['batch'], op['job'], op.get('attempt'), job_group_id, op.get('instance'),
                                             op['state'], None, op.get('start'), op.get('end'), op.get('reason'), [])
        return {}

    async def op_add_attempt_resources(self, op):
        res = [{'name': r['name'], 'quantity': r['quantity']} for r in op['resources']]
        await self.impl.dj.add_attempt_resources(self.app, self.db, op['batch'], op['job'], op['attempt'], res)
        return {}

    async def op_billing_update(self, op):
        inst = self.instance_or_ghost(op['instance'])
        body = {'timestamp': op['time'], 'attempts': [{'batch_id': b, 'job_id': j, 'attempt_id': a} for b, j, a in op['attempts']]}
        await self.impl.dm.billing_update_1(FakeRequest(self.app, {}, body), inst)
        return {}

    async def op_cleanup_staging(self, op):
        await self.impl.dm.delete_committed_job_groups_inst_coll_staging_records(self.db)
        return {}

    async def op_cleanup_cancellable(self, op):
        await self.impl.dm.delete_prev_cancelled_job_group_cancellable_resources_records(self.db)
        return {}

    async def op_compact_billing(self, op):
        t = op['table']
        if t == 'bp_user':
            await self.impl.dm.compact_agg_billing_project_users_table(self.app, self.db)
        elif t == 'by_date':
            await self.impl.dm.compact_agg_billing_project_users_by_date_table(self.app, self.db)
        else:
            raise web.HTTPBadRequest(reason='no such compactor')
        return {}

    async def op_scheduler_pick(self, op):
        ic = op['inst_coll']
        if ic not in self.cfg['inst_colls']:
            raise web.HTTPBadRequest(reason='unknown inst_coll')

        class S:
            pass
        s = S()
        s.db = self.db
        out = set()
        if self.cfg['inst_colls'][ic]:
            s.pool = S()
            s.pool.name = ic
            gen = self.impl.picks['pool'](s)(op['user'])
        else:
            s.name = ic
            gen = self.impl.picks['job_private'](s)(op['user'], Box(300))
        async for rec in gen:
            out.add((rec['batch_id'], rec['job_id']))
        return {'jobs': [list(x) for x in sorted(out)]}

    async def op_canceller_pick(self, op):
        kind = op['kind']
        if kind not in ('ready', 'creating', 'running'):
            raise web.HTTPBadRequest(reason='unknown kind')

        class S:
            pass
        s = S()
        s.db = self.db
        out = set()
        async for rec in self.impl.picks[kind](s)(op['user'], Box(300)):
            out.add((rec['batch_id'], rec['job_id']))
        return {'jobs': [list(x) for x in sorted(out)]}

    # ---- the driver's in-memory copy of the instances (auxiliary observation, not part of the projection compared with the model) ----
    def mem_obs(self):
        """[[name, in-memory state, in-memory free_cores_mcpu, 1 if a worker message was delivered past active_instances_only], ...]"""
        return sorted([n, i.state, i.free_cores_mcpu, 1 if i.__dict__.get('_verif_unauthorised') else 0]
                      for n, i in self.driver.inst_coll_manager.name_instance.items())

    # ---- observable projection ---------------------------------------------------------------------------------------
    def obs(self):
        T = self.engine.tables

        def rows(name):
            return T[name].rows

        def idx(name, *cols):
            t = T[name]
            return [t.colidx[c] for c in cols]

        o = {}
        i = idx('jobs', 'batch_id', 'job_id', 'state', 'cancelled', 'n_pending_parents', 'attempt_id', 'always_run', 'cores_mcpu',
                'job_group_id', 'update_id', 'inst_coll')
        o['jobs'] = [[r[k] for k in i] for r in rows('jobs')]
        marks = {(r[0], r[1]) for r in rows('job_groups_cancelled')}
        tallies = {}
        ti = idx('job_groups_n_jobs_in_complete_states', 'id', 'job_group_id', 'n_completed', 'n_succeeded', 'n_failed', 'n_cancelled')
        for r in rows('job_groups_n_jobs_in_complete_states'):
            tallies[(r[ti[0]], r[ti[1]])] = [r[k] for k in ti[2:]]
        gi = idx('job_groups', 'batch_id', 'job_group_id', 'state', 'n_jobs', 'update_id')
        groups = []
        for r in rows('job_groups'):
            b, g = r[gi[0]], r[gi[1]]
            t = tallies.get((b, g), [None, None, None, None])
            groups.append([b, g, r[gi[2]], r[gi[3]]] + t + [1 if (b, g) in marks else 0, r[gi[4]]])
        o['groups'] = groups
        i = idx('job_group_self_and_ancestors', 'batch_id', 'job_group_id', 'ancestor_id', 'level')
        o['ancestors'] = [[r[k] for k in i] for r in rows('job_group_self_and_ancestors')]
        i = idx('batches', 'id', 'user', 'state', 'n_jobs', 'deleted')
        o['batches'] = [[r[k] for k in i] for r in rows('batches')]
        i = idx('batch_updates', 'batch_id', 'update_id', 'start_job_id', 'n_jobs', 'start_job_group_id', 'n_job_groups', 'committed')
        o['updates'] = [[r[k] for k in i] for r in rows('batch_updates')]

        def summed(name, keycols, valcols, keymap=None):
            ki = idx(name, *keycols)
            vi = idx(name, *valcols)
            acc = {}
            for r in rows(name):
                k = tuple(r[j] for j in ki)
                a = acc.get(k)
                if a is None:
                    acc[k] = [r[j] for j in vi]
                else:
                    for n, j in enumerate(vi):
                        a[n] += r[j]
            out = []
            for k, v in acc.items():
                if any(v):
                    k = list(k)
                    if keymap:
                        k = keymap(k)
                    out.append(k + v)
            return out

        o['user_res'] = summed('user_inst_coll_resources', ['user', 'inst_coll'],
                               ['n_ready_jobs', 'ready_cores_mcpu', 'n_running_jobs', 'running_cores_mcpu', 'n_creating_jobs',
                                'n_cancelled_ready_jobs', 'n_cancelled_running_jobs', 'n_cancelled_creating_jobs'])
        o['cancellable'] = summed('job_group_inst_coll_cancellable_resources', ['batch_id', 'update_id', 'job_group_id', 'inst_coll'],
                                  ['n_ready_cancellable_jobs', 'ready_cancellable_cores_mcpu', 'n_creating_cancellable_jobs',
                                   'n_running_cancellable_jobs', 'running_cancellable_cores_mcpu'])
        o['staging'] = summed('job_groups_inst_coll_staging', ['batch_id', 'update_id', 'job_group_id', 'inst_coll'],
                              ['n_jobs', 'n_ready_jobs', 'ready_cores_mcpu'])
        i = idx('attempts', 'batch_id', 'job_id', 'attempt_id', 'instance_name', 'start_time', 'rollup_time', 'end_time', 'reason')
        o['attempts'] = [[r[k] for k in i] for r in rows('attempts')]
        free = {r[0]: r[1] for r in rows('instances_free_cores_mcpu')}
        i = idx('instances', 'name', 'state', 'cores_mcpu')
        o['instances'] = [[r[i[0]], r[i[1]], r[i[2]], free.get(r[i[0]])] for r in rows('instances')]
        rn = self.resource_ids
        i = idx('attempt_resources', 'batch_id', 'job_id', 'attempt_id', 'resource_id', 'quantity')
        o['attempt_res'] = [[r[i[0]], r[i[1]], r[i[2]], rn.get(r[i[3]], r[i[3]]), r[i[4]]] for r in rows('attempt_resources')]

        def rmap(pos):
            def f(k):
                k[pos] = rn.get(k[pos], k[pos])
                return k
            return f
        o['agg_job'] = summed('aggregated_job_resources_v3', ['batch_id', 'job_id', 'resource_id'], ['usage'], rmap(2))
        o['agg_group'] = summed('aggregated_job_group_resources_v3', ['batch_id', 'job_group_id', 'resource_id'], ['usage'], rmap(2))
        o['agg_bp_user'] = summed('aggregated_billing_project_user_resources_v3', ['billing_project', 'user', 'resource_id'], ['usage'], rmap(2))

        def dmap(k):
            k[0] = (k[0] - EPOCH).days
            k[3] = rn.get(k[3], k[3])
            return k
        o['agg_by_date'] = summed('aggregated_billing_project_user_resources_by_date_v3',
                                  ['billing_date', 'billing_project', 'user', 'resource_id'], ['usage'], dmap)
        for k, v in o.items():
            v.sort(key=_sortkey)
        if self.cfg.get('obs_aux'):
            o['_aux'] = {'mem_free': sorted([n, i.state, i.free_cores_mcpu] for n, i in self.driver.inst_coll_manager.name_instance.items()),
                         'token_rows': {t: len(T[t].rows) for t in ('user_inst_coll_resources', 'job_group_inst_coll_cancellable_resources',
                                                                      'aggregated_billing_project_user_resources_v3',
                                                                      'aggregated_billing_project_user_resources_by_date_v3')}}
        return o


import datetime  # noqa: E402

EPOCH = datetime.date(1970, 1, 1)


def _sortkey(row):
    return [(0, 0) if x is None else ((1, x) if isinstance(x, (int, float)) else (2, str(x))) for x in row]


def canon_error(e):
    """Map an exception to the small enum of INTERFACE.md."""
    if isinstance(e, web.HTTPNotFound):
        return 'NotFound'
    if isinstance(e, web.HTTPBadRequest):
        return 'BadRequest'
    if isinstance(e, web.HTTPForbidden):
        return 'Forbidden'
    if isinstance(e, web.HTTPException):
        return f'Other:{type(e).__name__}'
    seen = set()
    cur = e
    while cur is not None and id(cur) not in seen:
        seen.add(id(cur))
        if isinstance(cur, pymysql.err.MySQLError) and cur.args and isinstance(cur.args[0], int):
            return f'SqlError:{cur.args[0]}'
        if isinstance(cur, MySQLError):
            return f'SqlError:{cur.code}'
        cur = cur.__cause__ or (cur.__context__ if not cur.__suppress_context__ else None)
    if isinstance(e, web.HTTPNotFound):
        return 'NotFound'
    if isinstance(e, web.HTTPBadRequest):
        return 'BadRequest'
    if isinstance(e, web.HTTPForbidden):
        return 'Forbidden'
    if isinstance(e, AssertionError):
        return 'Assertion'
    return f'Other:{type(e).__name__}'


class Live:
    """One history being executed step by step (used by run_history, and by oracles.py for draining / shrinking)."""

    def __init__(self, impl, engine, config, stats=None):
        self.impl = impl
        self.engine = engine
        self.config = config
        self.stats = stats if stats is not None else {}
        self.world = None

    def start(self, seed):
        self.engine.reset(seed)
        random.seed(seed)
        Clock.now = 0
        Clock.wall = 0
        self.world = World(self.impl, self.engine, self.config)
        self.world.seed()

    async def _answer(self, op):
        """One request through the real handler; exceptions mapped to the error enum (Unsupported propagates: fail closed)."""
        fn = getattr(self.world, 'op_' + str(op.get('op')), None)
        if fn is None:
            return {'err': 'BadRequest'}
        try:
            return {'ok': await fn(op)}
        except Unsupported:
            raise
        except Exception as e:  # noqa: BLE001
            res = {'err': canon_error(e)}
            if self.config.get('debug'):
                res['detail'] = f'{type(e).__name__}: {getattr(e, "reason", None) or getattr(e, "text", None) or e}'[:300]
            return res

    async def _race(self, op, ent):
        """{"op":"race","first":A,"second":B,"pause":k}: A and B overlap (batchdb/race.py).  Result
        {"ok":{"race":{"first":answer of A,"second":answer of B,"order":completion order,"mode":"overlap"|"serial", ...}}};
        ent['obs_mid'] = observable projection when the first of the two requests had finished."""
        from batchdb import race as R
        a, b, k = op.get('first'), op.get('second'), op.get('pause')
        ok = (isinstance(a, dict) and isinstance(b, dict) and a.get('op') in R.RACE_OPS and b.get('op') in R.RACE_OPS
              and isinstance(k, int) and not isinstance(k, bool) and 0 <= k <= R.MAX_PAUSE)
        if not ok:
            return {'err': 'BadRequest'}
        w = self.world
        # virtual clock: the wall clock is the maximum of all times seen; each of the two ops runs at its own "time" (or the wall clock)
        times = {}
        for name, x in (('first', a), ('second', b)):
            t = x.get('time')
            if isinstance(t, int) and not isinstance(t, bool):
                Clock.wall = max(Clock.wall, t)
                times[name] = t
        self.engine.now_msec = Clock.wall

        def set_clock(name):
            Clock.now = times.get(name, Clock.wall)
        saved = R.save_engine(self.engine)
        insts = w.driver.inst_coll_manager.name_instance
        saved_insts = (dict(insts), {n: dict(i.__dict__) for n, i in insts.items()})      # the driver's in-memory instance objects
        mid = {}

        def first_done():
            mid['obs'] = w.obs()
        ctl = R.RaceControl(self.engine, k, first_done, lambda p: set_clock(p.name))
        w.db.race = ctl
        try:
            done = await ctl.run(lambda: self._answer(a), lambda: self._answer(b))
        finally:
            w.db.race = None
        info = {'pause': k, 'events': ctl.events[:12]}
        if done:
            info.update(mode='overlap', first=ctl.first.result, second=ctl.second.result, order=list(ctl.order), paused=ctl.paused,
                        admissible=ctl.admissible, blocked_on=ctl.blocked_on, prefix=ctl.first.kinds[:k] if ctl.paused else None,
                        paused_in_procedure=ctl.paused_in_proc,
                        stale_reads=ctl.first.stale_reads + ctl.second.stale_reads, statements=[ctl.first.kinds, ctl.second.kinds])
            what = 'overlap:' + ('blocked' if ctl.blocked_on else ('paused' if ctl.paused else ('inadmissible' if not ctl.admissible else 'not-reached')))
        else:
            # outside the modelled part of InnoDB: back to the state before the race, then one after the other
            R.restore_engine(self.engine, saved)
            self.engine.sessions[:] = []
            insts.clear()
            insts.update(saved_insts[0])
            for n, d in saved_insts[1].items():
                insts[n].__dict__.clear()
                insts[n].__dict__.update(d)
            set_clock('first')
            ra = await self._answer(a)
            mid['obs'] = w.obs()
            set_clock('second')
            rb = await self._answer(b)
            info.update(mode='serial', reason=ctl.inconclusive, first=ra, second=rb, order=['first', 'second'], paused=False,
                        admissible=ctl.admissible, blocked_on=ctl.blocked_on, stale_reads=0)
            what = 'serial:' + str(ctl.inconclusive).split(':')[0][:40]
        self.stats['race/' + what] = self.stats.get('race/' + what, 0) + 1
        ent['obs_mid'] = mid.get('obs')
        return {'ok': {'race': info}}

    async def step(self, op, want_obs=True):
        w = self.world
        engine = self.engine
        name = op.get('op')
        t = op.get('time')
        if isinstance(t, int) and not isinstance(t, bool):
            Clock.wall = max(Clock.wall, t)
            Clock.now = t
        else:
            Clock.now = Clock.wall
        engine.now_msec = Clock.wall
        extra = {}
        if name == 'race':
            res = await self._race(op, extra)
        else:
            res = await self._answer(op)
        # no connection may keep uncommitted writes after an op
        for s in list(engine.sessions):
            if s.undo.entries:
                raise AssertionError(f'op {name} left an open transaction with writes')
        engine.sessions[:] = []
        key = name if 'ok' in res else f"{name}!{res['err']}"
        self.stats[key] = self.stats.get(key, 0) + 1
        ent = {'result': res}
        ent.update(extra)
        if want_obs:
            ent['obs'] = w.obs()
            ent['mem'] = w.mem_obs()
        return ent


async def run_history(impl, engine, ops, seed, config, obs_mode, stats):
    live = Live(impl, engine, config, stats)
    live.start(seed)
    out = []
    n = len(ops)
    for k, op in enumerate(ops):
        out.append(await live.step(op, obs_mode == 'all' or (obs_mode == 'last' and k == n - 1)))
    return out


_IMPL = None


def get_impl():
    global _IMPL
    if _IMPL is None:
        _IMPL = Impl()
    return _IMPL


def run_payload(payload):
    impl = get_impl()
    cfg = dict(DEFAULT_CONFIG)
    cfg.update(payload.get('config') or {})
    seed = int(payload.get('seed', 0))
    engine = Engine(repo=hailload.REPO, seed=seed)
    stats = {}
    results = []
    t0 = _time.time()
    nops = 0

    async def main():
        nonlocal nops
        for hi, ops in enumerate(payload['histories']):
            results.append(await run_history(impl, engine, ops, seed + hi, cfg, payload.get('obs', 'all'), stats))
            nops += len(ops)
    asyncio.run(main())
    dt = _time.time() - t0
    return {'results': results,
            'stats': {'histogram': stats, 'ops': nops, 'seconds': round(dt, 3), 'ops_per_second': round(nops / dt, 1) if dt > 0 else None,
                      'sql_statements': engine.n_statements},
            'substitutions': SUBSTITUTIONS,
            'routines': engine.schema.routine_sources,
            'ddl': {'floor': list(engine.schema.ddl_floor) if engine.schema.ddl_floor else None,
                    'applied': [a[0] for a in engine.schema.applied_alters]},
            'repo': hailload.REPO}


def main():
    payload = json.load(sys.stdin)
    out = run_payload(payload)
    json.dump(out, sys.stdout, default=str)


if __name__ == '__main__':
    main()
