"""Correspondence between the Coq model (coq/theories/BatchDB) and the real batch-service code on minisql.

history (INTERFACE.md JSON)  --runner.py-->  per-op (result, obs)      [implementation: real SQL routines + real handlers]
                             --to_coq-->     Gallina op list  --vm_compute obs_trace-->  per-op (res, obs)   [model]
Both sides are canonicalised to integer rows (strings interned per history, NULL = -1, rows sorted, all-zero
counter rows dropped, billing days summed) and compared after EVERY op.
"""
from __future__ import annotations

import json
import os
from typing import Any, Dict, List, Optional, Tuple

from harness import core
from harness.core import Corr, Disagreement

JSTATE = {'Pending': 0, 'Ready': 1, 'Creating': 2, 'Running': 3, 'Success': 4, 'Failed': 5, 'Error': 6, 'Cancelled': 7}
JSTATE_COQ = {'Success': 'Success', 'Failed': 'Failed', 'Error': 'Error', 'Cancelled': 'Cancelled',
              'Pending': 'Pending', 'Ready': 'Ready', 'Creating': 'Creating', 'Running': 'Running'}
ISTATE = {'pending': 0, 'active': 1, 'inactive': 2, 'deleted': 3}
REASONS = {'activation_timeout': 1, 'completed': 2, 'cancelled': 3, 'error': 4, 'deactivated': 5, 'preempted': 6}
MODEL_OPS = {'create_batch', 'create_update', 'create_groups', 'create_jobs', 'commit', 'cancel_group', 'delete_batch', 'new_instance',
             'activate_instance', 'deactivate_instance', 'mark_instance_deleted', 'schedule_job', 'unschedule_job', 'mark_creating',
             'mark_started', 'mark_complete', 'add_attempt_resources', 'billing_update', 'cleanup_staging', 'cleanup_cancellable'}
# ops that do not change the database and have no counterpart in the model
READ_ONLY_OPS = {'scheduler_pick', 'canceller_pick', 'compact_billing'}

DEFAULT_WORLD = {
    'billing_projects': {'bp1': ['u1'], 'bp2': ['u2'], 'bp12': ['u1', 'u2']},
    'closed_billing_projects': ['bpclosed'],
    'inst_colls': {'standard': True, 'highmem': True, 'job-private': False},
}

HEADER = ('From HailV Require Import Common.Prelude BatchDB.Model BatchDB.Obs.\nOpen Scope Z_scope.\n')


class Interner:
    def __init__(self):
        self.t: Dict[str, Dict[Any, int]] = {'reason': dict(REASONS)}

    def get(self, kind: str, v) -> int:
        if v is None:
            return -1
        tab = self.t.setdefault(kind, {})
        if v not in tab:
            tab[v] = (max(tab.values()) + 1) if tab else 1
        return tab[v]


def z(n: int) -> str:
    if not isinstance(n, int):
        raise TypeError(f'not an integer: {n!r}')      # the op is ill-typed: no model counterpart (must be rejected, see compare)
    n = int(n)      # JSON true / false are ints for the validator (isinstance(x, int)) and for every comparison the handlers make
    return f'({n})' if n < 0 else str(n)


def oz(v: Optional[int]) -> str:
    return 'None' if v is None else f'(Some {z(v)})'


def zl(xs) -> str:
    return '[' + '; '.join(z(x) for x in xs) + ']'


CLIENT_OPS = ('create_batch', 'create_update', 'create_groups', 'create_jobs', 'commit')


def valid_cores(c) -> bool:
    """batch/cloud/resource_utils.is_valid_cores_mcpu: a positive power of two of quarter cores."""
    if not isinstance(c, int) or c <= 0 or (c * 4) % 1000 != 0:
        return False
    q = c * 4 // 1000
    return q & (q - 1) == 0


def resource_invalid(op: dict, world: dict) -> bool:
    """A job bunch whose resource request the front end refuses before any database access that matters to the model: cpu not a
    power-of-two number of quarter cores, or a pool label that is not configured.  Such a bunch has no model counterpart (the
    model's job specs carry granted cores and an existing instance collection); the tie demands that the implementation rejects
    it and leaves every table unchanged (compare, `must_reject`)."""
    try:
        return op.get('op') == 'create_jobs' and any((not valid_cores(x['cores'])) or x['inst_coll'] not in world['inst_colls'] for x in op['jobs'])
    except (KeyError, TypeError):
        return False


def to_coq(op: dict, it: Interner, world: dict) -> Optional[str]:
    """Gallina term for one op; None for read-only ops outside the model's vocabulary."""
    k = op['op']
    if k in READ_ONLY_OPS or k not in MODEL_OPS:
        return None      # read-only ops, and unknown op names of the malformed stream (the runner answers BadRequest, no change)
    g = it.get
    if k == 'create_batch':
        members = world['billing_projects'].get(op['bp'])
        allowed = members is not None and op['user'] in members and op['bp'] not in world.get('closed_billing_projects', [])
        return f"CreateBatch {g('user', op['user'])} {g('bp', op['bp'])} {g('btoken', op['token'])} {'true' if allowed else 'false'}"
    if k == 'create_update':
        return f"CreateUpdate {z(op['batch'])} {g('user', op['user'])} {g('utoken', op['token'])} {z(op['n_jobs'])} {z(op['n_groups'])}"
    if k == 'create_groups':
        gs = []
        for x in op['groups']:
            gs.append(f"mkGspec {z(x['id'])} {oz(x.get('parent_abs'))} {z(x.get('parent_rel', 0) or 0)}")
        return f"CreateGroups {z(op['batch'])} {z(op['update'])} {g('user', op['user'])} [{'; '.join(gs)}]"
    if k == 'create_jobs':
        if resource_invalid(op, world):
            return None      # resource validity is C12's subject (select_inst_coll is faked here); see must_reject below
        js = []
        for x in op['jobs']:
            js.append(f"mkJspec {z(x['id'])} {oz(x.get('group_abs'))} {z(x.get('group_rel', 0) or 0)} {zl(x.get('parents_abs', []))} "
                      f"{zl(x.get('parents_rel', []))} {'true' if x.get('always_run') else 'false'} {z(x['cores'])} {g('ic', x['inst_coll'])}")
        return f"CreateJobs {z(op['batch'])} {z(op['update'])} {g('user', op['user'])} [{'; '.join(js)}]"
    if k == 'commit':
        return f"Commit {z(op['batch'])} {z(op['update'])} {g('user', op['user'])}"
    if k == 'cancel_group':
        return f"CancelGroup {z(op['batch'])} {z(op['group'])}"
    if k == 'delete_batch':
        return f"DeleteBatch {z(op['batch'])}"
    if k == 'new_instance':
        pool = world['inst_colls'].get(op['inst_coll'], True)
        ic = g('ic', op['inst_coll']) if op['inst_coll'] in world['inst_colls'] else -1
        return f"NewInstance {g('inst', op['name'])} {z(ic)} {z(op['cores'])} {'true' if pool else 'false'}"
    if k == 'activate_instance':
        return f"ActivateInstance {g('inst', op['name'])}"
    if k == 'deactivate_instance':
        return f"DeactivateInstance {g('inst', op['name'])} {g('reason', op.get('reason', 'deactivated'))} {z(op['time'])}"
    if k == 'mark_instance_deleted':
        return f"MarkInstanceDeleted {g('inst', op['name'])}"
    if k == 'schedule_job':
        return f"ScheduleJob {z(op['batch'])} {z(op['job'])} {g('att', op['attempt'])} {g('inst', op['instance'])}"
    if k == 'unschedule_job':
        return (f"UnscheduleJob {z(op['batch'])} {z(op['job'])} {g('att', op['attempt'])} {g('inst', op['instance'])} {z(op['time'])} "
                f"{g('reason', op.get('reason', 'cancelled'))}")
    if k == 'mark_creating':
        return f"MarkCreating {z(op['batch'])} {z(op['job'])} {g('att', op['attempt'])} {g('inst', op['instance'])} {z(op['time'])}"
    if k == 'mark_started':
        return f"MarkStarted {z(op['batch'])} {z(op['job'])} {g('att', op['attempt'])} {g('inst', op['instance'])} {z(op['time'])}"
    if k == 'mark_complete':
        return (f"MarkComplete {z(op['batch'])} {z(op['job'])} {z(g('att', op.get('attempt')))} {z(g('inst', op.get('instance')))} "
                f"{JSTATE_COQ[op['state']]} {oz(op.get('start'))} {oz(op.get('end'))} {g('reason', op.get('reason') or 'completed')}")
    if k == 'add_attempt_resources':
        known = world.get('resources', ['cpu', 'mem', 'disk'])
        rs = '; '.join(f"({z(g('res', r['name']) if r['name'] in known else -1)}, {z(r['quantity'])})" for r in op['resources'])
        return f"AddAttemptResources {z(op['batch'])} {z(op['job'])} {g('att', op['attempt'])} [{rs}]"
    if k == 'billing_update':
        at = '; '.join(f"({z(b)}, {z(j)}, {g('att', a)})" for b, j, a in op['attempts'])
        return f"BillingUpdate {z(op['time'])} [{at}]"
    if k == 'cleanup_staging':
        return 'CleanupStaging'
    if k == 'cleanup_cancellable':
        return 'CleanupCancellable'
    raise core.HarnessError(f'no model counterpart for op {k}')


# ------------------------------------------------------------------------------------------------ canonical forms

TABLES = ['jobs', 'groups', 'ancestors', 'batches', 'updates', 'user_res', 'cancellable', 'staging', 'attempts', 'instances',
          'attempt_res', 'agg_job', 'agg_group', 'agg_bp_user', 'agg_by_date']
N_COUNTERS = {'user_res': 8, 'cancellable': 5, 'staging': 3, 'attempt_res': 1, 'agg_job': 1, 'agg_group': 1, 'agg_bp_user': 1, 'agg_by_date': 1}


def n(v):
    return -1 if v is None else int(v)


def canon_impl_obs(obs: dict, it: Interner) -> Dict[str, List[Tuple[int, ...]]]:
    g = it.get
    out: Dict[str, List[Tuple[int, ...]]] = {}
    out['jobs'] = [(r[0], r[1], JSTATE[r[2]], n(r[3]), n(r[4]), g('att', r[5]), n(r[6]), n(r[7]), n(r[8]), n(r[9]), g('ic', r[10]))
                   for r in obs['jobs']]
    out['groups'] = [(r[0], r[1], 1 if r[2] == 'running' else 0, n(r[3]), n(r[4]), n(r[5]), n(r[6]), n(r[7]), n(r[8]), n(r[9]))
                     for r in obs['groups']]
    out['ancestors'] = [tuple(int(x) for x in r) for r in obs['ancestors']]
    out['batches'] = [(r[0], g('user', r[1]), 1 if r[2] == 'running' else 0, n(r[3]), n(r[4])) for r in obs['batches']]
    out['updates'] = [tuple(int(x) for x in r) for r in obs['updates']]
    out['user_res'] = [(g('user', r[0]), g('ic', r[1])) + tuple(int(x) for x in r[2:]) for r in obs['user_res']]
    out['cancellable'] = [(r[0], r[1], r[2], g('ic', r[3])) + tuple(int(x) for x in r[4:]) for r in obs['cancellable']]
    out['staging'] = [(r[0], r[1], r[2], g('ic', r[3])) + tuple(int(x) for x in r[4:]) for r in obs['staging']]
    out['attempts'] = [(r[0], r[1], g('att', r[2]), g('inst', r[3]), n(r[4]), n(r[5]), n(r[6]), g('reason', r[7])) for r in obs['attempts']]
    out['instances'] = [(g('inst', r[0]), ISTATE[r[1]], n(r[2]), n(r[3])) for r in obs['instances']]
    out['attempt_res'] = [(r[0], r[1], g('att', r[2]), g('res', r[3]), int(r[4])) for r in obs['attempt_res']]
    out['agg_job'] = [(r[0], r[1], g('res', r[2]), int(r[3])) for r in obs['agg_job']]
    out['agg_group'] = [(r[0], r[1], g('res', r[2]), int(r[3])) for r in obs['agg_group']]
    out['agg_bp_user'] = [(g('bp', r[0]), g('user', r[1]), g('res', r[2]), int(r[3])) for r in obs['agg_bp_user']]
    by = {}
    for r in obs['agg_by_date']:
        key = (g('bp', r[1]), g('user', r[2]), g('res', r[3]))
        by[key] = by.get(key, 0) + int(r[4])
    out['agg_by_date'] = [k + (v,) for k, v in by.items()]
    for t, k in N_COUNTERS.items():
        out[t] = [r for r in out[t] if any(x != 0 for x in r[-k:])]
    return {t: sorted(rows) for t, rows in out.items()}


def canon_model_obs(parsed) -> Dict[str, List[Tuple[int, ...]]]:
    return {t: sorted(tuple(int(x) for x in r) for r in rows) for t, rows in zip(TABLES, parsed)}


def canon_impl_result(op: dict, res: dict):
    k = op['op']
    if 'err' in res:
        e = res['err']
        if e == 'NotFound':
            return ('err', 1)
        if e == 'BadRequest':
            return ('err', 2)
        if e == 'Forbidden':
            return ('err', 3)
        if e.startswith('SqlError:'):
            return ('err', 4, int(e.split(':')[1]))
        if e == 'Assertion':
            return ('err', 5)
        if k in ('activate_instance', 'deactivate_instance', 'mark_instance_deleted'):
            return ('ok',)       # refused by an in-memory wrapper: no database change (states are compared anyway)
        return ('err', 6)
    v = res['ok']
    if k == 'create_batch':
        return ('ok', v['batch'])
    if k == 'create_update':
        return ('ok', v['update'], v['start_group'], v['start_job'])
    if k == 'commit':
        return ('ok', v.get('rc', 0))
    if k == 'schedule_job':
        return ('ok', v['rc'], v['delta_cores'])
    return ('ok',)


def canon_model_result(op: dict, res):
    k = op['op']
    cls, payload = res
    if cls != 0:
        if cls == 4:
            return ('err', 4, payload[0])
        return ('err', cls)
    if k == 'create_batch':
        return ('ok', payload[0])
    if k == 'create_update':
        return ('ok', payload[0], payload[1], payload[2])
    if k == 'commit':
        return ('ok', payload[0])
    if k == 'schedule_job':
        return ('ok', payload[0], payload[1])
    if k in ('activate_instance', 'deactivate_instance', 'mark_instance_deleted'):
        return ('ok',)       # rc 0 and rc 1 (wrong instance state, nothing changed) are both plain returns
    return ('ok',)


# ------------------------------------------------------------------------------------------------ running both sides

def run_impl(ctx, histories: List[List[dict]], obs_mode: str = 'all', world: Optional[dict] = None, timeout: int = 1500):
    payload = {'histories': histories, 'seed': ctx.seed, 'obs': obs_mode}
    if world:
        payload['config'] = world
    return ctx.run_impl(os.path.join(core.VERIF, 'harness', 'batchdb', 'runner.py'), payload, timeout=timeout)


def run_model(ctx, histories: List[List[dict]], world: Optional[dict] = None, shard: int = 25, fn: str = 'obs_trace'):
    """Returns per history: (list of per-model-op (res, obs) , indices of the ops that the model executed, interner).
    With fn='hash_trace' the obs component is the fingerprint Obs.hobs instead of the 15 tables."""
    world = world or DEFAULT_WORLD
    exprs, metas = [], []
    for h in histories:
        it = Interner()
        terms, idx = [], []
        for i, op in enumerate(h):
            try:
                t = to_coq(op, it, world)
            except (KeyError, TypeError, ValueError, AttributeError):
                t = None     # malformed op (missing / ill-typed field): the runner rejects it before touching the database
            if t is not None:
                terms.append('(' + t + ')')
                idx.append(i)
        exprs.append(fn + ' [' + '; '.join(terms) + ']')
        metas.append((idx, it))
    # the two serial readings of a race between a request and its verbatim retry are the same op list: evaluate it once
    all_exprs = exprs
    exprs = list(dict.fromkeys(all_exprs))
    if len(exprs) < len(all_exprs):
        pos = {e: i for i, e in enumerate(exprs)}
        uvals = _eval_sharded(ctx, exprs, shard, fn)
        return [(uvals[pos[e]], idx, it) for e, (idx, it) in zip(all_exprs, metas)]
    vals = _eval_sharded(ctx, exprs, shard, fn)
    return [(v, idx, it) for v, (idx, it) in zip(vals, metas)]


def _eval_sharded(ctx, exprs: List[str], shard: int, fn: str):
    if not exprs:
        return []
    shard = max(2, min(shard, -(-len(exprs) // 14)))     # one shard per core: a history costs about a second of vm_compute
    # balance the shards: deal the histories, longest first, round-robin over the K shards
    K = -(-len(exprs) // shard)
    order = sorted(range(len(exprs)), key=lambda i: -len(exprs[i]))
    buckets = [order[k::K] for k in range(K)]
    shard = max(len(b) for b in buckets) if buckets else shard
    perm = []
    for b in buckets:
        perm += b + [None] * (shard - len(b))
    pexprs = [exprs[i] if i is not None else 'hash_trace []' for i in perm]
    pvals = core.coq_eval(ctx, HEADER, pexprs, shard=shard, label='batchdb' + ('h' if fn == 'hash_trace' else ''))
    vals = [None] * len(exprs)
    for i, v in zip(perm, pvals):
        if i is not None:
            vals[i] = v
    return vals


FILTER_HEADER = ('From HailV Require Import Common.Prelude BatchDB.Model BatchDB.LegalFilter.\nOpen Scope Z_scope.\n')


def legal_filtered(ctx, histories: List[List[dict]], world: Optional[dict] = None) -> List[List[dict]]:
    """The sub-history of each history that the model's executable legality filter (BatchDB/LegalFilter.v: Legal.legalb,
    DepsDef.client_ok, C10's extra hypothesis) keeps: a good history by construction (LegalFilter.kept_legal).  Ops
    without a model counterpart are kept only when they are read-only."""
    world = world or DEFAULT_WORLD
    exprs, metas = [], []
    for h in histories:
        it = Interner()
        terms, idx = [], []
        for i, op in enumerate(h):
            try:
                t = to_coq(op, it, world)
            except (KeyError, TypeError, ValueError, AttributeError):
                t = None
            if t is not None:
                terms.append('(' + t + ')')
                idx.append(i)
        exprs.append('legal_filter init [' + '; '.join(terms) + ']')
        metas.append(idx)
    shard = max(2, -(-len(exprs) // 14))
    vals = core.coq_eval(ctx, FILTER_HEADER, exprs, shard=shard, label='batchdbf')
    out = []
    for h, idx, v in zip(histories, metas, vals):
        keep = {i for i, b in zip(idx, v) if b is True or b == 'true'}
        out.append([op for i, op in enumerate(h) if i in keep or (isinstance(op, dict) and op.get('op') in READ_ONLY_OPS)])
    return out


HM = 2305843009213693951


def fingerprint(canon: Dict[str, List[Tuple[int, ...]]]) -> int:
    """Python twin of Obs.hobs (order-independent within a table)."""
    total = 0
    for ti, t in enumerate(TABLES, start=1):
        ht = 0
        for r in canon[t]:
            acc = ti + 1
            for x in r:
                acc = (acc * 1000003 + (x + 7)) % HM
            ht = (ht + acc) % HM
        total = (total + ht) % HM
    return total


# ------------------------------------------------------------------------------------------------ overlapping requests (op "race")

def is_race(op) -> bool:
    return isinstance(op, dict) and op.get('op') == 'race'


def race_info(ent) -> Optional[dict]:
    """The runner's report of an executed race op ({'first': answer, 'second': answer, 'order': completion order, ...}); None when
    the op was refused as malformed (BadRequest, nothing changed: no model counterpart, like every unknown op)."""
    r = ent.get('result') if isinstance(ent, dict) else None
    if isinstance(r, dict) and isinstance(r.get('ok'), dict) and isinstance(r['ok'].get('race'), dict):
        return r['ok']['race']
    return None


def race_readings(h: List[dict], ents: List[dict], limit: int = 8):
    """A race op has no single model transition.  The tie demands SERIALISABILITY: the implementation's two answers and the
    observable state after the race must be those of the model run with `first; second` or with `second; first`.
    Returns the plain readings of the history -- every executed race replaced by its two requests in one of the two serial
    orders, each request carrying the answer the implementation gave to THAT request -- as (ops, entries, origin indices,
    orders).  The state between the two requests is compared only in the reading whose order is the order in which the two
    requests actually finished (only there the implementation has such a state: `obs_mid`).  The history corresponds iff
    one reading corresponds op by op to the end of the history."""
    readings = [([], [], [], [])]
    for i, (op, ent) in enumerate(zip(h, ents)):
        info = race_info(ent) if is_race(op) else None
        if info is None:
            for ops2, ents2, orig, orders in readings:
                ops2.append(op)
                ents2.append(ent)
                orig.append(i)
            continue
        new = []
        for ops2, ents2, orig, orders in readings:
            for x, y in (('first', 'second'), ('second', 'first')):
                mid = ent.get('obs_mid') if [x, y] == list(info.get('order') or []) else None
                new.append((ops2 + [op[x], op[y]],
                            ents2 + [{'result': info[x], 'obs': mid}, {'result': info[y], 'obs': ent.get('obs')}],
                            orig + [i, i], orders + [f'{x};{y}']))
        readings = new[:limit]
    return readings


def compare(ctx, histories: List[List[dict]], world: Optional[dict] = None, name: str = 'BatchDB.Model.step~real SQL+handlers on minisql', impl=None):
    """Full correspondence on the given histories (race ops: see race_readings). Returns (Corr, impl_results)."""
    if impl is None:
        impl = run_impl(ctx, histories, 'all', world)
    plain_h, plain_e, owner, meta = [], [], [], []
    for hi, (h, ents) in enumerate(zip(histories, impl['results'])):
        if any(is_race(op) for op in h):
            for ops2, ents2, orig, orders in race_readings(h, ents):
                plain_h.append(ops2)
                plain_e.append(ents2)
                owner.append(hi)
                meta.append((orig, orders))
        else:
            plain_h.append(h)
            plain_e.append(ents)
            owner.append(hi)
            meta.append(None)
    by_plain, n_ops = _compare_plain(ctx, plain_h, plain_e, world, name)
    dis: List[Disagreement] = []
    n_races = n_both = 0
    groups: Dict[int, List[int]] = {}
    for pi, hi in enumerate(owner):
        groups.setdefault(hi, []).append(pi)
    for hi, pis in groups.items():
        if meta[pis[0]] is None:
            dis += by_plain.get(pis[0], [])
            continue
        n_races += 1
        good = [pi for pi in pis if not by_plain.get(pi)]
        if good:
            n_both += len(good) > 1
            continue
        # no serial reading corresponds: report the reading that corresponds longest, on the ORIGINAL history (with the race op)
        def depth(pi):
            d = by_plain[pi][0]
            return (d.impl or {}).get('op_index', -1) if isinstance(d.impl, dict) else -1
        best = max(pis, key=depth)
        d = by_plain[best][0]
        orig, orders = meta[best]
        k = depth(best)
        oi = orig[k] if 0 <= k < len(orig) else len(histories[hi]) - 1
        detail = dict(d.impl) if isinstance(d.impl, dict) else {'note': d.impl}
        detail['race'] = {'no_serial_order_corresponds': True, 'orders_of_best_reading': orders,
                          'first_disagreement_of_each_reading': {'/'.join(meta[pi][1]): depth(pi) for pi in pis},
                          'runner_report': [race_info(e) for op, e in zip(histories[hi], impl['results'][hi]) if is_race(op)][:3]}
        detail['op_index'] = oi
        dis.append(Disagreement(name, {'history': histories[hi][:oi + 1]}, d.model, detail))
    corr = Corr(evaluations=len(histories), distinct_nontrivial=len({json.dumps(h, sort_keys=True) for h in histories if len(h) >= 5}),
                rule='histories of batch-service ops (INTERFACE.md); non-trivial = at least 5 ops; after every op the result class and the '
                     'whole observable projection (15 tables) of model and implementation are compared; an op "race" (two overlapping '
                     'requests) must agree with the model run in one of the two serial orders (answers per request, state after the race, and '
                     'the state in between for the order in which the requests finished)',
                samples=[], disagreements=dis,
                histograms={'ops_compared': n_ops, 'histories_with_races': n_races, 'race_histories_matching_both_orders': n_both,
                            'impl_op_histogram': impl.get('stats', {}).get('histogram', impl.get('stats', {}))},
                names=[name])
    return corr, impl


def _compare_plain(ctx, histories: List[List[dict]], results: List[List[dict]], world, name):
    """Model vs implementation on histories without race ops; an entry whose 'obs' is None is compared by its answer only.
    Returns ({history index: [Disagreement]}, number of ops compared)."""
    # pass 1: result class + fingerprint of the whole projection after every op; pass 2 (only for histories whose
    # fingerprints or results differ): the full 15 tables, for the diagnostic
    model_h = run_model(ctx, histories, world, shard=60, fn='hash_trace')
    out: Dict[int, List[Disagreement]] = {}
    n_ops = 0
    suspects = []
    for hi, (h, ires, (mres, idx, it)) in enumerate(zip(histories, results, model_h)):
        # ops without a model counterpart because of an invalid resource request, or because a client request is ill-typed (a
        # fractional / boolean / string id, a missing field, ...): the implementation must reject them and change nothing
        for i, op in enumerate(h):
            if isinstance(op, dict) and (resource_invalid(op, world or DEFAULT_WORLD) or (i not in set(idx) and op.get('op') in CLIENT_OPS)):
                before = ires[i - 1]['obs'] if i > 0 else None
                if 'err' not in ires[i]['result'] or (before is not None and ires[i]['obs'] is not None and ires[i]['obs'] != before):
                    out.setdefault(hi, []).append(Disagreement(
                        name, {'history': h[:i + 1]}, 'a job bunch with an invalid resource request must be rejected without any change',
                        {'op_index': i, 'op': op, 'result_impl': ires[i]['result']}))
        for mi, i in enumerate(idx):
            op = h[i]
            n_ops += 1
            r_i = canon_impl_result(op, ires[i]['result'])
            r_m = canon_model_result(op, (mres[mi][0], mres[mi][1]))
            if r_i != r_m or (ires[i]['obs'] is not None and fingerprint(canon_impl_obs(ires[i]['obs'], it)) != int(mres[mi][2])):
                suspects.append(hi)
                break
    model = run_model(ctx, [histories[hi] for hi in suspects], world) if suspects else []
    for hi, (mres, idx, it) in zip(suspects, model):
        h, ires = histories[hi], results[hi]
        found = False
        for mi, i in enumerate(idx):
            op = h[i]
            r_i = canon_impl_result(op, ires[i]['result'])
            # Coq prints ((cls, payload), obs) as a flat triple
            r_m = canon_model_result(op, (mres[mi][0], mres[mi][1]))
            o_m = canon_model_obs(mres[mi][2])
            o_i = canon_impl_obs(ires[i]['obs'], it) if ires[i]['obs'] is not None else o_m
            if r_i != r_m or o_i != o_m:
                diff = {'op_index': i, 'op': op, 'result_impl': r_i, 'result_model': r_m,
                        'tables': {t: {'impl_only': [list(r) for r in o_i[t] if r not in o_m[t]][:8],
                                       'model_only': [list(r) for r in o_m[t] if r not in o_i[t]][:8]}
                                   for t in TABLES if o_i[t] != o_m[t]}}
                out.setdefault(hi, []).append(Disagreement(name, {'history': h[:i + 1]}, diff.get('tables'), diff))
                found = True
                break
        if not found:   # fingerprints differ but tables agree: the two fingerprint implementations have diverged
            out.setdefault(hi, []).append(Disagreement(name, {'history': h}, None,
                                                       {'note': 'fingerprint mismatch without table mismatch (Obs.hobs vs corr.fingerprint)'}))
    return out, n_ops
