"""Seeded generator of structured histories for the BatchDB family + exhaustive small-scope enumerator + malformed stream.

  /venv/bin/python gen.py --seed 7 --n 200 [--malformed] [--exhaustive DEPTH] [--out FILE] [--stats]

`generate(seed, n, **params)` -> list of histories (lists of ops as in INTERFACE.md).  The generator keeps a *believed* model of the
world (ids are predictable: batch ids 1,2,...; update k of a batch reserves contiguous job/group ranges) only to steer towards
interesting, mostly-valid histories; nothing downstream relies on the belief being right (every sequence of ops is a legal history).

Shape knobs (all in `DEFAULTS`): 1-2 users, 1-3 batches, nested groups (depth <= 3), 1-3 updates per batch (multi-bunch, empty
job lists with groups only, updates that are never committed / committed late while their parents complete), DAG parents in-update
and cross-update, always_run mix, pool and job-private inst_colls, 1-3 instances, and for every worker/driver message a rate of
duplicates (`p_dup`), reordering/late delivery (`p_late`), stale attempt ids (`p_stale`), messages after deactivation, plus verbatim
client retries of every request (`p_retry`); cancellation of arbitrary groups in any order incl. sub-group before ancestor.
"""
import argparse
import copy
import itertools
import json
import random
import sys

DEFAULTS = dict(
    max_users=2, max_batches=3, max_updates=3, max_jobs_per_update=4, max_groups_per_update=2, max_depth=3,
    max_instances=3, max_ops=100, min_ops=30,
    p_retry=0.12, p_dup=0.12, p_late=0.10, p_stale=0.08, p_always_run=0.25, p_job_private=0.2, p_cancel=0.05,
    p_never_commit=0.25, p_late_commit=0.35, p_background=0.05, p_pick=0.04, p_delete=0.10, p_deactivate=0.03, p_frontend=0.25,
    p_day_jump=0.0, p_resources=0.5, p_touch_uncommitted=0.0, p_dangling_parent=0.0, p_out_of_order=0.0,
)
POOLS = ['standard', 'highmem']
JP = 'job-private'
CORES = [250, 500, 1000, 2000]
STATES = ['Success', 'Success', 'Success', 'Failed', 'Error']


class Job:
    def __init__(self, b, jid, upd, group, parents, always_run, cores, ic):
        self.b, self.id, self.upd, self.group, self.parents = b, jid, upd, group, parents
        self.always_run, self.cores, self.ic = always_run, cores, ic
        self.state = 'Pending'
        self.attempt = None
        self.instance = None
        self.inserted = False
        self.n_attempts = 0


class Update:
    def __init__(self, k, start_job, n_jobs, start_group, n_groups, token):
        self.k, self.start_job, self.n_jobs, self.start_group, self.n_groups, self.token = k, start_job, n_jobs, start_group, n_groups, token
        self.committed = False
        self.group_bunches = []
        self.job_bunches = []
        self.never_commit = False
        self.hold = 0


class Batch:
    def __init__(self, bid, user, bp, token):
        self.id, self.user, self.bp, self.token = bid, user, bp, token
        self.updates = []
        self.groups = {0: None}        # gid -> parent
        self.depth = {0: 0}
        self.jobs = {}
        self.cancelled = set()
        self.deleted = False
        self.created_groups = {0}
        self.group_update = {0: 0}


class Gen:
    def __init__(self, rng, params):
        self.r = rng
        self.p = params
        self.ops = []
        self.time = 1000
        self.batches = []
        self.instances = {}            # name -> dict(state, ic, cores)
        self.later = []                # [(due_index, op)]  delayed / duplicated messages
        self.n_att = 0
        self.tok = 0
        self.stale_live = []           # attempts reported by workers that are not (or no longer) any job's current attempt

    # ---- utilities ---------------------------------------------------------------------------------------------------
    def tick(self):
        self.time += self.r.randint(1, 40)
        if self.p['p_day_jump'] and self.r.random() < self.p['p_day_jump']:
            self.time += 86400000
        return self.time

    def token(self, pre):
        self.tok += 1
        return f'{pre}{self.tok}'

    def emit(self, op, request=False, message=False):
        self.ops.append(op)
        p = self.p
        if request and self.r.random() < p['p_retry']:
            if self.r.random() < 0.5:
                self.ops.append(copy.deepcopy(op))                      # immediate verbatim retry
            else:
                self.later.append((len(self.ops) + self.r.randint(1, 8), copy.deepcopy(op)))
        if message:
            if self.r.random() < p['p_dup']:
                self.later.append((len(self.ops) + self.r.randint(0, 3), copy.deepcopy(op)))
            if self.r.random() < p['p_late']:
                self.later.append((len(self.ops) + self.r.randint(4, 15), copy.deepcopy(op)))
            if self.r.random() < p['p_stale'] and 'attempt' in op and op['attempt']:
                st = copy.deepcopy(op)
                st['attempt'] = 'old' + str(self.r.randint(1, 3))
                if st['op'] in ('mark_started', 'mark_creating') and self.r.random() < 0.5:
                    # the report of an attempt the driver never recorded (its scheduling call timed out), possibly on another worker
                    others = [n for n, i in self.instances.items() if i['state'] == 'active' and i['ic'] != JP]
                    if others and st['op'] == 'mark_started':
                        st['instance'] = self.r.choice(others)
                    st['attempt'] = f'lost{len(self.stale_live) + 1}'
                    self.stale_live.append((st['batch'], st['job'], st['attempt'], st['instance']))
                self.later.append((len(self.ops) + self.r.randint(0, 6), st))

    def flush_due(self, force=False):
        keep = []
        for due, op in self.later:
            if force or due <= len(self.ops):
                self.ops.append(op)
            else:
                keep.append((due, op))
        self.later = keep

    def subtree(self, b, g):
        out = {g}
        changed = True
        while changed:
            changed = False
            for x, par in b.groups.items():
                if par in out and x not in out:
                    out.add(x)
                    changed = True
        return out

    def group_cancelled(self, b, g):
        while g is not None:
            if g in b.cancelled:
                return True
            g = b.groups.get(g)
        return False

    # ---- front end ---------------------------------------------------------------------------------------------------
    def act_create_batch(self):
        users = ['u1', 'u2'][:self.n_users]
        u = self.r.choice(users)
        bp = self.r.choice(['bp1', 'bp12'] if u == 'u1' else ['bp2', 'bp12'])
        b = Batch(len(self.batches) + 1, u, bp, self.token('bt'))
        self.batches.append(b)
        self.emit({'op': 'create_batch', 'user': u, 'bp': bp, 'token': b.token}, request=True)

    def act_create_update(self, b):
        r = self.r
        p = self.p
        k = len(b.updates) + 1
        prev = b.updates[-1] if b.updates else None
        sj = prev.start_job + prev.n_jobs if prev else 1
        sg = prev.start_group + prev.n_groups if prev else 1
        n_groups = r.choice([0, 0, 1, 1, 2, p['max_groups_per_update']])
        n_jobs = r.choice([0, 1, 2, 2, 3, p['max_jobs_per_update']]) if (n_groups or r.random() < 0.9) else 0
        if n_jobs == 0 and n_groups == 0:
            n_jobs = 1
        u = Update(k, sj, n_jobs, sg, n_groups, self.token('ut'))
        u.never_commit = r.random() < p['p_never_commit'] and k > 1
        u.hold = r.randint(3, 15) if r.random() < p['p_late_commit'] else 0
        b.updates.append(u)
        self.emit({'op': 'create_update', 'batch': b.id, 'user': b.user, 'token': u.token, 'n_jobs': n_jobs, 'n_groups': n_groups}, request=True)
        # plan group bunches
        specs = []
        for rel in range(1, n_groups + 1):
            gid = sg + rel - 1
            ooo = r.random() < p['p_out_of_order']
            cands = [g for g in b.groups if b.depth[g] < p['max_depth'] - 1 and
                     (ooo or g == 0 or g >= sg or b.updates[b.group_update[g] - 1].committed)]
            in_upd = [g for g in cands if g >= sg]
            if in_upd and r.random() < 0.5:
                par = r.choice(in_upd)
                specs.append({'id': rel, 'parent_rel': par - sg + 1})
            else:
                par = r.choice([g for g in cands if g < sg] or [0])
                specs.append({'id': rel, 'parent_abs': par})
            b.groups[gid] = par
            b.depth[gid] = b.depth[par] + 1
            b.group_update[gid] = k
        if specs:
            cut = r.randint(1, len(specs)) if len(specs) > 1 and r.random() < 0.5 else len(specs)
            u.group_bunches = [specs[:cut]] + ([specs[cut:]] if specs[cut:] else [])
        # plan job bunches
        jspecs = []
        for rel in range(1, n_jobs + 1):
            jid = sj + rel - 1
            ooo = r.random() < p['p_out_of_order']
            g = r.choice([x for x in b.groups if ooo or x == 0 or x >= sg or b.updates[b.group_update[x] - 1].committed])
            parents_rel, parents_abs = [], []
            earlier_in = list(range(1, rel))
            earlier_abs = [j for j in b.jobs if j < sj and ((b.jobs[j].inserted and b.updates[b.jobs[j].upd - 1].committed) or r.random() < p['p_dangling_parent'])]
            if earlier_in and r.random() < 0.5:
                parents_rel = sorted(r.sample(earlier_in, r.randint(1, min(2, len(earlier_in)))))
            if earlier_abs and r.random() < 0.5:
                parents_abs = sorted(r.sample(earlier_abs, r.randint(1, min(2, len(earlier_abs)))))
            ar = r.random() < p['p_always_run']
            ic = JP if r.random() < p['p_job_private'] else r.choice(POOLS[:1] * 3 + POOLS[1:])
            cores = r.choice(CORES)
            spec = {'id': rel, 'always_run': ar, 'cores': cores, 'inst_coll': ic, 'parents_abs': parents_abs, 'parents_rel': parents_rel}
            if g >= sg:
                spec['group_rel'] = g - sg + 1
            else:
                spec['group_abs'] = g
            jspecs.append(spec)
            b.jobs[jid] = Job(b.id, jid, k, g, parents_abs + [sj + q - 1 for q in parents_rel], ar, cores, ic)
        if jspecs:
            cuts = sorted(r.sample(range(1, len(jspecs)), min(len(jspecs) - 1, r.choice([0, 0, 1, 2])))) if len(jspecs) > 1 else []
            prev_c = 0
            for c in cuts + [len(jspecs)]:
                u.job_bunches.append(jspecs[prev_c:c])
                prev_c = c

    def act_progress_update(self, b, u):
        """Next request of an open update: group bunches first (in order), then job bunches, then commit."""
        if u.group_bunches:
            g = u.group_bunches.pop(0)
            self.emit({'op': 'create_groups', 'batch': b.id, 'update': u.k, 'user': b.user, 'groups': g}, request=True)
            for spec in g:
                b.created_groups.add(u.start_group + spec['id'] - 1)
            return
        if u.job_bunches:
            js = u.job_bunches.pop(0)
            self.emit({'op': 'create_jobs', 'batch': b.id, 'update': u.k, 'user': b.user, 'jobs': js}, request=True)
            for s in js:
                j = b.jobs[u.start_job + s['id'] - 1]
                j.inserted = True
                if u.k == 1 and not j.parents:
                    j.state = 'Staged'
            return
        if u.never_commit:
            return
        if u.hold > 0:
            u.hold -= 1
            return
        if u.k > 1 and not b.updates[0].committed and self.r.random() >= self.p['p_out_of_order']:
            return          # a sequential client commits update 1 first
        self.emit({'op': 'commit', 'batch': b.id, 'update': u.k, 'user': b.user}, request=True)
        u.committed = True
        for j in b.jobs.values():
            if j.upd == u.k and j.inserted and j.state in ('Pending', 'Staged'):
                j.state = 'Ready' if all(b.jobs[q].state == 'Done' for q in j.parents if q in b.jobs) else 'Pending'

    # ---- instances ---------------------------------------------------------------------------------------------------
    def act_new_instance(self, ic=None):
        name = f'i{len(self.instances) + 1}'
        ic = ic or self.r.choice(POOLS[:1] * 2 + POOLS[1:])
        cores = self.r.choice([1000, 2000, 4000]) if ic != JP else self.r.choice([1000, 2000])
        self.instances[name] = {'state': 'pending', 'ic': ic, 'cores': cores}
        self.emit({'op': 'new_instance', 'name': name, 'inst_coll': ic, 'cores': cores}, request=False)
        return name

    def act_activate(self, name):
        self.instances[name]['state'] = 'active'
        self.emit({'op': 'activate_instance', 'name': name, 'time': self.tick()}, message=True)

    def act_deactivate(self, name):
        inst = self.instances[name]
        reason = 'activation_timeout' if inst['state'] == 'pending' and self.r.random() < 0.5 else self.r.choice(['deactivated', 'preempted'])
        inst['state'] = 'inactive'
        self.emit({'op': 'deactivate_instance', 'name': name, 'reason': reason, 'time': self.tick()}, message=True)
        for b in self.batches:
            for j in b.jobs.values():
                if j.instance == name and j.state in ('Running', 'Creating'):
                    j.state = 'Ready'
                    j.attempt = None
                    j.instance = None

    # ---- job life cycle ----------------------------------------------------------------------------------------------
    def new_attempt(self):
        self.n_att += 1
        return f'a{self.n_att}'

    def act_job(self, b, j):
        r = self.r
        key = {'batch': b.id, 'job': j.id}
        if j.state == 'Ready' or (j.state in ('Pending', 'Staged') and r.random() < self.p['p_touch_uncommitted']):
            cancelled = (not j.always_run) and self.group_cancelled(b, j.group)
            if cancelled and r.random() < 0.7:
                self.emit({'op': 'mark_complete', **key, 'attempt': None, 'instance': None, 'state': 'Cancelled', 'start': None, 'end': None,
                           'reason': 'cancelled', 'time': self.tick()}, message=True)
                if j.state == 'Ready':
                    self.complete(b, j)
                return
            if j.ic == JP:
                name = self.act_new_instance(JP)
                a = self.new_attempt()
                self.emit({'op': 'mark_creating', **key, 'attempt': a, 'instance': name, 'time': self.tick()}, message=True)
                if j.state == 'Ready':
                    j.state, j.attempt, j.instance = 'Creating', a, name
                return
            act = [n for n, i in self.instances.items() if i['state'] == 'active' and i['ic'] == j.ic]
            if not act:
                pend = [n for n, i in self.instances.items() if i['state'] == 'pending' and i['ic'] == j.ic]
                if pend:
                    self.act_activate(r.choice(pend))
                elif len(self.instances) < self.p['max_instances'] + 2:
                    self.act_new_instance(j.ic)
                return
            name = r.choice(act)
            a = self.new_attempt()
            self.emit({'op': 'schedule_job', **key, 'attempt': a, 'instance': name}, message=True)
            if j.state == 'Ready':
                j.state, j.attempt, j.instance = 'Running', a, name
            return
        if j.state == 'Creating':
            inst = self.instances[j.instance]
            if inst['state'] == 'pending':
                if r.random() < 0.8:
                    self.act_activate(j.instance)
                else:
                    self.act_deactivate(j.instance)
                return
            if inst['state'] == 'active':
                self.emit({'op': 'schedule_job', **key, 'attempt': j.attempt, 'instance': j.instance}, message=True)
                j.state = 'Running'
                return
            j.state = 'Ready'
            return
        if j.state == 'Running':
            x = r.random()
            t = self.tick()
            if x < 0.25:
                self.emit({'op': 'mark_started', **key, 'attempt': j.attempt, 'instance': j.instance, 'time': t}, message=True)
                if r.random() < self.p['p_resources']:
                    self.emit({'op': 'add_attempt_resources', **key, 'attempt': j.attempt,
                               'resources': [{'name': r.choice(['cpu', 'mem', 'disk']), 'quantity': r.choice([1, 2, 1000])}
                                             for _ in range(r.randint(1, 2))]}, message=True)
            elif x < 0.40:
                self.emit({'op': 'billing_update', 'instance': j.instance, 'time': t, 'attempts': [[b.id, j.id, j.attempt]]}, message=True)
            elif x < 0.50:
                self.emit({'op': 'unschedule_job', **key, 'attempt': j.attempt, 'instance': j.instance, 'time': t,
                           'reason': r.choice(['cancelled', 'cancelled', 'preempted'])}, message=True)
                j.state, j.attempt, j.instance = 'Ready', None, None
            else:
                start = t - r.randint(0, 30)
                self.emit({'op': 'mark_complete', **key, 'attempt': j.attempt, 'instance': j.instance, 'state': r.choice(STATES),
                           'start': start, 'end': t, 'reason': 'completed', 'time': self.tick()}, message=True)
                if r.random() < self.p['p_resources']:
                    self.emit({'op': 'add_attempt_resources', **key, 'attempt': j.attempt,
                               'resources': [{'name': r.choice(['cpu', 'mem']), 'quantity': r.choice([1, 3])}]}, message=True)
                self.complete(b, j)

    def complete(self, b, j):
        j.state = 'Done'
        for c in b.jobs.values():
            if j.id in c.parents and c.state == 'Pending' and c.inserted:
                if all(b.jobs[q].state == 'Done' for q in c.parents if q in b.jobs) and b.updates[c.upd - 1].committed:
                    c.state = 'Ready'

    # ---- main loop ---------------------------------------------------------------------------------------------------
    def run(self):
        r = self.r
        p = self.p
        self.n_users = r.randint(1, p['max_users'])
        n_batches = r.randint(1, p['max_batches'])
        n_ops = r.randint(p['min_ops'], p['max_ops'])
        self.act_create_batch()
        delete_at = int(n_ops * r.uniform(0.6, 1.0)) if r.random() < p['p_delete'] else None
        guard = 0
        while len(self.ops) < n_ops and guard < 10 * n_ops:
            guard += 1
            self.flush_due()
            if self.stale_live and r.random() < 0.08:
                # a lost attempt ends: its worker reports completion, or the orphaned-attempt loop unschedules it
                bb, jj, a, name = self.stale_live.pop(r.randrange(len(self.stale_live)))
                t = self.tick()
                if r.random() < 0.6:
                    self.emit({'op': 'mark_complete', 'batch': bb, 'job': jj, 'attempt': a, 'instance': name, 'state': r.choice(STATES),
                               'start': t - r.randint(0, 30), 'end': t, 'reason': 'completed', 'time': self.tick()}, message=True)
                else:
                    self.emit({'op': 'unschedule_job', 'batch': bb, 'job': jj, 'attempt': a, 'instance': name, 'time': t, 'reason': 'cancelled'},
                              message=True)
                continue
            x = r.random()
            if len(self.batches) < n_batches and x < 0.06:
                self.act_create_batch()
                continue
            live_batches = [bb for bb in self.batches if not bb.deleted] or self.batches
            b = r.choice(live_batches)
            open_updates = [u for u in b.updates if not u.committed and (u.group_bunches or u.job_bunches or not u.never_commit)]
            fe = p['p_frontend']
            if x < fe:
                if 0 in b.cancelled and r.random() < 0.9:
                    continue
                can_new = len(b.updates) < p['max_updates']
                if open_updates and (not can_new or r.random() < 0.75):
                    # group bunches must reach the server in id order across updates (a real client does that)
                    with_groups = [u for u in b.updates if u.group_bunches]
                    u = r.choice(open_updates)
                    if u.group_bunches and with_groups and with_groups[0] is not u and r.random() < 0.95:
                        u = with_groups[0]
                    self.act_progress_update(b, u)
                elif can_new:
                    self.act_create_update(b)
                continue
            if x < fe + p['p_cancel']:
                committed = [g for g in b.created_groups if g == 0 or b.updates[b.group_update[g] - 1].committed]
                pool = committed if (committed and r.random() < 0.85) else list(b.groups)
                # prefer deep groups first so that "sub-group before ancestor" is common
                pool.sort(key=lambda g: -b.depth[g])
                g = pool[0] if (r.random() < 0.4 and pool[0] not in b.cancelled) else r.choice(pool)
                if g == 0 and len(self.ops) < 0.5 * n_ops and r.random() < 0.8:
                    continue
                b.cancelled.add(g)
                self.emit({'op': 'cancel_group', 'batch': b.id, 'group': g}, request=True)
                continue
            if x < fe + p['p_cancel'] + p['p_background']:
                self.emit(r.choice([{'op': 'cleanup_staging'}, {'op': 'cleanup_cancellable'}, {'op': 'compact_billing', 'table': 'bp_user'},
                                    {'op': 'compact_billing', 'table': 'by_date'}]))
                continue
            if x < fe + p['p_cancel'] + p['p_background'] + p['p_pick']:
                if r.random() < 0.5:
                    self.emit({'op': 'scheduler_pick', 'inst_coll': r.choice(POOLS + [JP]), 'user': b.user})
                else:
                    self.emit({'op': 'canceller_pick', 'kind': r.choice(['ready', 'creating', 'running']), 'user': b.user})
                continue
            if x < fe + p['p_cancel'] + p['p_background'] + p['p_pick'] + p['p_deactivate']:
                live = [n for n, i in self.instances.items() if i['state'] in ('pending', 'active')]
                dead = [n for n, i in self.instances.items() if i['state'] == 'inactive']
                if dead and r.random() < 0.3:
                    n = r.choice(dead)
                    self.instances[n]['state'] = 'deleted'
                    self.emit({'op': 'mark_instance_deleted', 'name': n}, message=True)
                elif live:
                    self.act_deactivate(r.choice(live))
                continue
            if delete_at is not None and len(self.ops) >= delete_at and not b.deleted:
                delete_at = None
                b.deleted = True
                self.emit({'op': 'delete_batch', 'batch': b.id}, request=True)
                continue
            # job life cycle (also touches jobs of uncommitted updates now and then: Staged/Pending with small probability)
            if open_updates and r.random() < 0.35 and not (0 in b.cancelled and r.random() < 0.9):
                with_groups = [u for u in b.updates if u.group_bunches]
                u = r.choice(open_updates)
                if u.group_bunches and with_groups and with_groups[0] is not u:
                    u = with_groups[0]
                self.act_progress_update(b, u)
                continue
            cands = [j for j in b.jobs.values() if j.inserted and j.state != 'Done']
            if cands:
                active = [j for j in cands if j.state in ('Ready', 'Creating', 'Running')]
                self.act_job(b, r.choice(active if active and r.random() < 0.9 else cands))
            elif len(b.updates) < p['max_updates']:
                self.act_create_update(b)
        self.flush_due(force=True)
        return self.ops


RACE_OPS = ('create_batch', 'create_update', 'create_groups', 'create_jobs', 'commit')
MESSAGE_RACE_OPS = ('schedule_job', 'unschedule_job', 'mark_creating', 'mark_started', 'mark_complete', 'deactivate_instance')
P_MESSAGE_FACTOR = 0.5  # messages are several times as frequent as client requests
P_RACE = 0.02          # per client request of a generated history
MAX_RACES = 2          # per history (the tie evaluates 2 serial readings per race between different requests)


def add_races(ops, rng, p_race=P_RACE, max_races=MAX_RACES):
    """Race mode (op "race", INTERFACE.md): with a small probability a client request X of a generated history is delivered twice,
    OVERLAPPING -- {"op":"race","first":X,"second":X,"pause":k} with k anywhere in (and a little beyond) the read-only prefix of the
    handlers -- and a commit overlaps a re-delivery of the last job bunch of its update; a driver / worker message (MESSAGE_RACE_OPS)
    overlaps its verbatim re-delivery or the next message about the same job.  A verbatim retry leaves the state of a
    single delivery (C09), so the rest of the history stays what the generator believed.  Uses its OWN random stream: the histories
    are exactly those generated without race mode, except for the replaced requests."""
    out = []
    n = 0
    last_bunch = {}
    skip = False
    for idx, op in enumerate(ops):
        if skip:
            skip = False
            continue
        name = op.get('op')
        if name == 'create_jobs':
            last_bunch[(op.get('batch'), op.get('update'))] = op
        # driver / worker messages (stored-procedure CALLs): a message overlaps its verbatim re-delivery, or the next message about
        # the same job (the first one suspended inside its procedure)
        if name in MESSAGE_RACE_OPS and n < max_races and rng.random() < p_race * P_MESSAGE_FACTOR:
            k = rng.choice([0, 1, 2, 2, 3, 3, 4, 5])
            nxt = ops[idx + 1] if idx + 1 < len(ops) else None
            if (nxt is not None and nxt.get('op') in MESSAGE_RACE_OPS and 'job' in op and nxt.get('job') == op.get('job')
                    and nxt.get('batch') == op.get('batch') and rng.random() < 0.7):
                pair = [copy.deepcopy(op), copy.deepcopy(nxt)]
                if rng.random() < 0.5:
                    pair.reverse()
                out.append({'op': 'race', 'first': pair[0], 'second': pair[1], 'pause': k})
                skip = True
            else:
                out.append({'op': 'race', 'first': copy.deepcopy(op), 'second': copy.deepcopy(op), 'pause': k})
            n += 1
            continue
        if name in RACE_OPS and 'time' not in op and n < max_races and rng.random() < p_race:
            k = rng.choice([0, 1, 1, 2, 2, 3, 4])
            other = copy.deepcopy(op)
            first = copy.deepcopy(op)
            if name == 'commit' and (op.get('batch'), op.get('update')) in last_bunch and rng.random() < 0.6:
                other = copy.deepcopy(last_bunch[(op.get('batch'), op.get('update'))])
                if rng.random() < 0.5:
                    first, other = other, first
            out.append({'op': 'race', 'first': first, 'second': other, 'pause': k})
            n += 1
        else:
            out.append(op)
    return out


def generate(seed, n, p_race=0.0, **params):
    """p_race > 0 (the family tie passes P_RACE): race mode, see add_races; 0 = the generator as it always was."""
    p = dict(DEFAULTS)
    p.update(params)
    out = []
    for i in range(n):
        rng = random.Random(f'{seed}/{i}')
        ops = Gen(rng, p).run()
        if p_race:
            ops = add_races(ops, random.Random(f'race/{seed}/{i}'), p_race)
        out.append(ops)
    return out


# ----------------------------------------------------------------------------------------------------------------------
# malformed stream: requests a buggy or adversarial client could send (all pass JSON well-formedness)
# ----------------------------------------------------------------------------------------------------------------------
def generate_malformed(seed, n):
    out = []
    for i in range(n):
        r = random.Random(f'mal/{seed}/{i}')
        h = [{'op': 'create_batch', 'user': 'u1', 'bp': 'bp1', 'token': 'bt1'},
             {'op': 'create_update', 'batch': 1, 'user': 'u1', 'token': 'ut1', 'n_jobs': 3, 'n_groups': 1},
             {'op': 'create_groups', 'batch': 1, 'update': 1, 'user': 'u1', 'groups': [{'id': 1, 'parent_abs': 0}]}]
        base = lambda rel, **kw: dict({'id': rel, 'group_abs': 0, 'always_run': False, 'cores': 1000, 'inst_coll': 'standard',  # noqa: E731
                                       'parents_abs': [], 'parents_rel': []}, **kw)
        variants = [
            ('self-parent', [base(1, parents_rel=[1]), base(2), base(3)]),
            ('later-parent', [base(1, parents_rel=[2]), base(2), base(3)]),
            ('missing-parent-abs', [base(1, parents_abs=[40]), base(2), base(3)]),
            ('missing-parent-rel', [base(1), base(2, parents_rel=[9]), base(3)]),
            ('id-out-of-range', [base(1), base(2), base(3), base(4)]),
            ('id-far-out-of-range', [base(7), base(8), base(9)]),
            ('noncontiguous', [base(1), base(3)]),
            ('id-zero', [base(0), base(1), base(2)]),
            ('negative-id', [base(-1), base(0), base(1)]),
            ('duplicate-parent', [base(1), base(2, parents_rel=[1, 1]), base(3)]),
            ('unknown-group', [base(1, group_abs=9), base(2), base(3)]),
            ('unknown-group-rel', [dict(base(1), group_rel=5), base(2), base(3)]),
            ('bad-cores', [base(1, cores=300), base(2), base(3)]),
            ('unknown-inst-coll', [base(1, inst_coll='nope'), base(2), base(3)]),
            ('wrong-user', None),
            ('too-few-jobs', [base(1), base(2)]),
            ('both-groups', [dict(base(1), group_rel=1), base(2), base(3)]),
            ('fractional-parent-just-below-own-id', [base(1), base(2), base(3, parents_rel=[2.6])]),
            ('fractional-absolute-parent', [base(1), base(2, parents_abs=[1.5]), base(3)]),
            ('fractional-job-id', [base(1), base(2.0), base(3)]),
            ('boolean-parent', [base(1), base(2, parents_rel=[True]), base(3)]),
            ('string-parent', [base(1), base(2, parents_rel=['1']), base(3)]),
        ]
        name, jobs = variants[i % len(variants)]
        if name == 'wrong-user':
            h.append({'op': 'create_jobs', 'batch': 1, 'update': 1, 'user': 'u2', 'jobs': [base(1), base(2), base(3)]})
        else:
            for j in jobs:
                if 'group_rel' in j and name != 'both-groups':
                    j.pop('group_abs', None)
            h.append({'op': 'create_jobs', 'batch': 1, 'update': 1, 'user': 'u1', 'jobs': jobs})
        h.append({'op': 'commit', 'batch': 1, 'update': 1, 'user': 'u1'})
        # a second update so that out-of-range ids can collide with it
        h.append({'op': 'create_update', 'batch': 1, 'user': 'u1', 'token': 'ut2', 'n_jobs': 2, 'n_groups': 0})
        h.append({'op': 'create_jobs', 'batch': 1, 'update': 2, 'user': 'u1', 'jobs': [base(1, parents_abs=[1]), base(2)]})
        h.append({'op': 'commit', 'batch': 1, 'update': 2, 'user': 'u1'})
        extra = [
            {'op': 'create_update', 'batch': 9, 'user': 'u1', 'token': 'x', 'n_jobs': 1, 'n_groups': 0},
            {'op': 'create_update', 'batch': 1, 'user': 'u2', 'token': 'x', 'n_jobs': 1, 'n_groups': 0},
            {'op': 'create_update', 'batch': 1, 'user': 'u1', 'token': 'x0', 'n_jobs': 0, 'n_groups': 0},
            {'op': 'create_update', 'batch': 1, 'user': 'u1', 'token': 'xneg', 'n_jobs': -1, 'n_groups': 0},
            {'op': 'create_groups', 'batch': 1, 'update': 1, 'user': 'u1', 'groups': [{'id': 3, 'parent_abs': 0}]},
            {'op': 'create_groups', 'batch': 1, 'update': 1, 'user': 'u1', 'groups': [{'id': 1, 'parent_abs': 5}]},
            {'op': 'create_groups', 'batch': 1, 'update': 1, 'user': 'u1', 'groups': []},
            {'op': 'create_batch', 'user': 'u1', 'bp': 'bp2', 'token': 'zz'},
            {'op': 'create_batch', 'user': 'u1', 'bp': 'bpclosed', 'token': 'zz'},
            {'op': 'create_batch', 'user': 'u1', 'bp': 'nosuch', 'token': 'zz'},
            {'op': 'commit', 'batch': 1, 'update': 7, 'user': 'u1'},
            {'op': 'cancel_group', 'batch': 1, 'group': 9},
            {'op': 'cancel_group', 'batch': 5, 'group': 0},
            {'op': 'delete_batch', 'batch': 5},
            {'op': 'schedule_job', 'batch': 1, 'job': 1, 'attempt': 'a1', 'instance': 'ghost'},
            {'op': 'schedule_job', 'batch': 1, 'job': 77, 'attempt': 'a1', 'instance': 'i1'},
            {'op': 'mark_complete', 'batch': 1, 'job': 77, 'attempt': 'a1', 'instance': None, 'state': 'Success', 'start': 1, 'end': 2,
             'reason': 'completed', 'time': 5},
            {'op': 'new_instance', 'name': 'i1', 'inst_coll': 'standard', 'cores': 1500},
            {'op': 'new_instance', 'name': 'i1', 'inst_coll': 'nope', 'cores': 1000},
            {'op': 'add_attempt_resources', 'batch': 1, 'job': 1, 'attempt': 'a1', 'resources': [{'name': 'nosuch', 'quantity': 1}]},
            {'op': 'nonsense'},
        ]
        pos = r.randint(1, len(h))
        for e in r.sample(extra, r.randint(1, 4)):
            h.insert(min(pos, len(h)), e)
        out.append(h)
    return out


# ----------------------------------------------------------------------------------------------------------------------
# exhaustive small scope: fixed prefix + every sequence of length <= depth over a 2-job / 1-group / 1-instance alphabet
# ----------------------------------------------------------------------------------------------------------------------
def small_scope_prefix(always_run_child=False, second_update=False):
    pre = [
        {'op': 'create_batch', 'user': 'u1', 'bp': 'bp1', 'token': 'bt'},
        {'op': 'create_update', 'batch': 1, 'user': 'u1', 'token': 'ut1', 'n_jobs': 2 if not second_update else 1, 'n_groups': 1},
        {'op': 'create_groups', 'batch': 1, 'update': 1, 'user': 'u1', 'groups': [{'id': 1, 'parent_abs': 0}]},
        {'op': 'new_instance', 'name': 'i1', 'inst_coll': 'standard', 'cores': 2000},
        {'op': 'activate_instance', 'name': 'i1', 'time': 10},
    ]
    j1 = {'id': 1, 'group_abs': 0, 'always_run': False, 'cores': 1000, 'inst_coll': 'standard', 'parents_abs': [], 'parents_rel': []}
    j2 = {'id': 2, 'group_rel': 1, 'always_run': always_run_child, 'cores': 1000, 'inst_coll': 'standard', 'parents_abs': [], 'parents_rel': [1]}
    if not second_update:
        pre.insert(3, {'op': 'create_jobs', 'batch': 1, 'update': 1, 'user': 'u1', 'jobs': [j1, j2]})
    else:
        pre.insert(3, {'op': 'create_jobs', 'batch': 1, 'update': 1, 'user': 'u1', 'jobs': [j1]})
        pre.insert(4, {'op': 'commit', 'batch': 1, 'update': 1, 'user': 'u1'})
        pre.append({'op': 'create_update', 'batch': 1, 'user': 'u1', 'token': 'ut2', 'n_jobs': 1, 'n_groups': 0})
        j2b = {'id': 1, 'group_abs': 1, 'always_run': always_run_child, 'cores': 1000, 'inst_coll': 'standard', 'parents_abs': [1], 'parents_rel': []}
        pre.append({'op': 'create_jobs', 'batch': 1, 'update': 2, 'user': 'u1', 'jobs': [j2b]})
    return pre


def small_scope_alphabet(second_update=False):
    k = 2 if second_update else 1
    return [
        {'op': 'commit', 'batch': 1, 'update': k, 'user': 'u1'},
        {'op': 'cancel_group', 'batch': 1, 'group': 1},
        {'op': 'cancel_group', 'batch': 1, 'group': 0},
        {'op': 'schedule_job', 'batch': 1, 'job': 1, 'attempt': 'a1', 'instance': 'i1'},
        {'op': 'schedule_job', 'batch': 1, 'job': 2, 'attempt': 'a2', 'instance': 'i1'},
        {'op': 'mark_started', 'batch': 1, 'job': 2, 'attempt': 'a2', 'instance': 'i1', 'time': 20},
        {'op': 'mark_complete', 'batch': 1, 'job': 1, 'attempt': 'a1', 'instance': 'i1', 'state': 'Success', 'start': 20, 'end': 30,
         'reason': 'completed', 'time': 31},
        {'op': 'mark_complete', 'batch': 1, 'job': 1, 'attempt': 'a1', 'instance': 'i1', 'state': 'Failed', 'start': 20, 'end': 30,
         'reason': 'completed', 'time': 31},
        {'op': 'mark_complete', 'batch': 1, 'job': 2, 'attempt': 'a2', 'instance': 'i1', 'state': 'Success', 'start': 40, 'end': 50,
         'reason': 'completed', 'time': 51},
        {'op': 'mark_complete', 'batch': 1, 'job': 2, 'attempt': None, 'instance': None, 'state': 'Cancelled', 'start': None, 'end': None,
         'reason': 'cancelled', 'time': 60},
        {'op': 'unschedule_job', 'batch': 1, 'job': 1, 'attempt': 'a1', 'instance': 'i1', 'time': 35, 'reason': 'cancelled'},
        {'op': 'deactivate_instance', 'name': 'i1', 'reason': 'preempted', 'time': 70},
    ]


def exhaustive(depth, always_run_child=False, second_update=False, limit=None):
    pre = small_scope_prefix(always_run_child, second_update)
    alpha = small_scope_alphabet(second_update)
    out = []
    for d in range(0, depth + 1):
        for seq in itertools.product(range(len(alpha)), repeat=d):
            out.append(copy.deepcopy(pre) + [copy.deepcopy(alpha[i]) for i in seq])
            if limit and len(out) >= limit:
                return out
    return out


def histogram(histories):
    h = {}
    for hist in histories:
        for op in hist:
            h[op.get('op')] = h.get(op.get('op'), 0) + 1
    return dict(sorted(h.items(), key=lambda kv: -kv[1]))


def main():
    ap = argparse.ArgumentParser()
    ap.add_argument('--seed', type=int, default=0)
    ap.add_argument('--n', type=int, default=100)
    ap.add_argument('--malformed', action='store_true')
    ap.add_argument('--exhaustive', type=int, default=None, metavar='DEPTH')
    ap.add_argument('--second-update', action='store_true')
    ap.add_argument('--always-run-child', action='store_true')
    ap.add_argument('--out', default=None)
    ap.add_argument('--stats', action='store_true')
    a = ap.parse_args()
    if a.exhaustive is not None:
        hs = exhaustive(a.exhaustive, a.always_run_child, a.second_update)
    elif a.malformed:
        hs = generate_malformed(a.seed, a.n)
    else:
        hs = generate(a.seed, a.n)
    if a.stats:
        print(json.dumps({'histories': len(hs), 'ops': sum(len(h) for h in hs), 'histogram': histogram(hs)}, indent=1), file=sys.stderr)
    payload = {'seed': a.seed, 'histories': hs}
    if a.out:
        json.dump(payload, open(a.out, 'w'))
    else:
        json.dump(payload, sys.stdout)


if __name__ == '__main__':
    main()
