"""Two OVERLAPPING requests / messages on the fake database: a sound, deliberately coarse model of InnoDB REPEATABLE READ.

A history op  {"op": "race", "first": OP_A, "second": OP_B, "pause": k}  (runner.Live.step) runs the real handler of OP_A as an
asyncio task until it is about to issue its (k+1)-th SQL statement, i.e. after k statements, PROVIDED those k statements were all
reads (SELECTs, locking or not, SET x = (SELECT ..), cursor OPEN; no INSERT / UPDATE / DELETE): then the handler of OP_B runs -- to
completion unless it needs a lock A holds --, then A continues.

What counts as a statement: every statement the handler sends through its cursor, EXCEPT transaction control and CALL; and,
for a `CALL proc(..)`, every statement of the procedure body as the routine interpreter reaches it (SELECT [INTO], SET, INSERT,
UPDATE, DELETE, OPEN cursor; nested CALLs are entered, their statements counted the same way; the bodies of triggers and stored
functions belong to the statement that fires / calls them).  So A can be suspended INSIDE a stored procedure (minisql's
FullCompiler.statement gates the statements of procedure bodies through `engine.stmt_hook`), and the k statements may span
several transactions of the handler.  The only interleavings executed are therefore

        A: read-only prefix of k statements | B: whole request | A: rest          (B not blocked by a lock of A)
        A: read-only prefix | B: statements before the blocked one | A: rest | B: blocked statement and rest   (B blocked)

No schedule in which BOTH transactions have pending (uncommitted) writes is explored; the engine has no isolation model for that.

Mechanics: while a race runs, every statement of a racing connection is executed in a worker thread (so that the synchronous
engine can be parked in the middle of a routine); the two threads never run at the same time -- a party hands over only by
parking on its own threading.Event inside `_yield` (or by finishing), and the controller coroutine starts / resumes the other one.

What makes the executed schedule a schedule that MySQL 8 / InnoDB at REPEATABLE READ can produce with the same reads:

 * Lock table, table-granular (coarser than InnoDB's record / gap / next-key locks, so it can only serialise MORE: a statement
   that waits here until the other transaction ends is, for InnoDB, the same statement arriving later):
     - `SELECT .. FOR UPDATE` takes X, `SELECT .. LOCK IN SHARE MODE / FOR SHARE` takes S on EVERY base table the statement mentions
       (also those in subqueries / derived tables); locks are held until the transaction ends (COMMIT / ROLLBACK, also the
       procedure's own);
     - a statement of the running party is checked against the locks of the other party BEFORE it executes, with its static
       may-touch footprint (tables written: INSERT/UPDATE/DELETE targets, also inside fired triggers and called stored
       functions, transitively; tables read: everything mentioned + foreign-key parents and children of the written tables):
       a locking read in S mode conflicts with X; a locking read in X mode and every written table conflict with S and X; the tables
       read by a DML statement are treated as S reads (InnoDB: INSERT..SELECT sources, FK checks; X when a derived table or routine in
       it says FOR UPDATE);
     - a plain (non-locking) SELECT never blocks.
   A blocked party that already has uncommitted writes, or a deadlock (the resumed party needs a lock of the blocked one), cannot
   be modelled (with table granularity it need not be a deadlock for InnoDB): the race is INCONCLUSIVE, the database (and the
   driver's in-memory instance objects) are restored to their state before the race and the two ops are run serially (mode 'serial').
 * Consistent reads: a transaction's read view is created by its first plain SELECT and all later plain SELECTs of that
   transaction see that snapshot (plus the transaction's own writes); locking reads, the scans of UPDATE/DELETE, INSERT..SELECT
   sources and constraint checks read the latest committed rows.  Here: at its first plain SELECT a racing transaction copies all
   tables; a later plain SELECT (top level or in a procedure body) that mentions a table the OTHER party committed to after that
   copy reads the copy of that table (swapped in for the duration of the statement) -- unless the reader itself wrote that table
   after the copy (merged view not modelled: INCONCLUSIVE).  Reads inside a trigger / stored function fired by a DML statement of a
   transaction whose snapshot is stale with respect to a table they mention: INCONCLUSIVE as well.  Values a procedure keeps in
   local variables are of course kept (that is the point: a decision taken on a value read without a lock).
 * A subquery-bearing condition of IF / WHILE / DECLARE .. DEFAULT in a procedure body cannot be gated: INCONCLUSIVE (none in batch/sql).
 * Auto-increment values are not transactional (as in InnoDB); `random` / RAND() streams are shared (only token shards,
   which the observable projection sums, depend on them).

Nothing here is used unless a history contains a race op: FakeCursor goes through `execute` only when the connection has a party,
and `engine.stmt_hook` is None otherwise.
"""
import asyncio
import concurrent.futures
import contextvars
import re
import threading

from minisql import ast as A
from minisql.parser import parse_statements

PARTY = contextvars.ContextVar('batchdb_race_party', default=None)

CLIENT_OPS = ('create_batch', 'create_update', 'create_groups', 'create_jobs', 'commit')
MESSAGE_OPS = ('schedule_job', 'unschedule_job', 'mark_creating', 'mark_started', 'mark_complete', 'deactivate_instance')
RACE_OPS = CLIENT_OPS + MESSAGE_OPS
MAX_PAUSE = 60
WAIT_SECONDS = 60

_RE_X = re.compile(r'\bFOR\s+UPDATE\b', re.I)
_RE_S = re.compile(r'\bLOCK\s+IN\s+SHARE\s+MODE\b|\bFOR\s+SHARE\b', re.I)


class RaceInconclusive(BaseException):
    """The schedule left the part of InnoDB's behaviour this layer models.  BaseException: no handler of the service swallows it."""

    def __init__(self, reason):
        super().__init__(reason)
        self.reason = reason


class RaceAbort(BaseException):
    """Raised in a parked party when the race is abandoned."""


# ----------------------------------------------------------------------------------------------------------------------
# static may-touch footprint of a statement
# ----------------------------------------------------------------------------------------------------------------------
class Footprint:
    __slots__ = ('kind', 'reads', 'writes', 'routine_reads', 'x_reads', 'xtables', 'lock')

    def __init__(self, kind):
        self.kind = kind              # 'tx' | 'call' | 'control' | 'read' | 'readS' | 'readX' | 'write'
        self.reads = set()            # every table mentioned or checked (includes writes)
        self.writes = set()
        self.routine_reads = set()    # tables read inside trigger / function bodies (possibly consistent reads)
        self.x_reads = False          # ALL reads must be treated as X (statement outside the analysed subset)
        self.xtables = set()          # tables read by a SELECT .. FOR UPDATE nested in the statement (derived table, trigger, function)
        self.lock = None              # strongest locking clause of the statement's own SELECTs: None | 'share' | 'update'


def _walk(engine, node, fp, in_routine, seen, mode=None):
    if node is None or isinstance(node, (str, int, float, bool)):
        return
    if isinstance(node, (list, tuple)):
        for x in node:
            _walk(engine, x, fp, in_routine, seen, mode)
        return
    if not isinstance(node, A.Node):
        return
    if isinstance(node, A.TableRef):
        t = node.name.lower()
        fp.reads.add(t)
        if in_routine:
            fp.routine_reads.add(t)
        if mode == 'update':
            fp.xtables.add(t)
        return
    if isinstance(node, A.Select):
        lk = getattr(node, 'lock', None)
        if lk:
            if lk == 'update' or mode is None:
                mode = lk                                   # a nested SELECT inherits the stronger clause (conservative)
            if not in_routine and (lk == 'update' or fp.lock is None):
                fp.lock = lk
        for f in node.__slots__:
            _walk(engine, getattr(node, f, None), fp, in_routine, seen, mode)
        return
    if isinstance(node, A.Insert):
        fp.writes.add(node.table.lower())
    elif isinstance(node, A.Delete):
        fp.writes.add(node.table.lower())
    elif isinstance(node, A.Update):
        def targets(f):
            if isinstance(f, A.TableRef):
                fp.writes.add(f.name.lower())
            elif isinstance(f, A.Join):
                targets(f.left)
                targets(f.right)
        targets(node.from_)
    elif isinstance(node, A.Call):
        _routine(engine, 'PROCEDURE', node.name.lower(), fp, seen)
    elif isinstance(node, A.Func):
        name = (node.name or '').lower()
        if ('FUNCTION', name) in engine.schema.routines:
            _routine(engine, 'FUNCTION', name, fp, seen)
    for f in node.__slots__:
        _walk(engine, getattr(node, f, None), fp, in_routine, seen, mode)


def _routine(engine, kind, lname, fp, seen):
    if (kind, lname) in seen:
        return
    seen.add((kind, lname))
    rdef = engine.schema.routines.get((kind, lname))
    if rdef is None:
        return
    _walk(engine, rdef.ast.body, fp, True, seen, None)


def _close(engine, fp, seen):
    """Foreign keys and triggers of the written tables, to a fixpoint."""
    done = set()
    while True:
        todo = fp.writes - done
        if not todo:
            return
        for w in todo:
            done.add(w)
            t = engine.tables.get(w)
            if t is None:
                continue
            fp.reads.add(w)
            for _cidx, parent, _pidx, _od in t.fks:
                fp.reads.add(parent.name.lower())
            for child, _cidx, _pidx, _od in t.children:
                fp.reads.add(child.name.lower())
            for (k, n), r in list(engine.schema.routines.items()):
                if k == 'TRIGGER' and r.ast.table.lower() == w:
                    _routine(engine, 'TRIGGER', n, fp, seen)


def node_footprint(engine, node, sql=None):
    """Footprint of one statement given as AST (top-level statement or statement of a procedure body)."""
    if isinstance(node, (A.StartTx, A.Commit, A.Rollback)):
        return Footprint('tx')
    if isinstance(node, A.Call):
        return Footprint('call')             # entered: its statements are gated one by one
    seen = set()
    if isinstance(node, (A.If, A.While, A.Declare)):
        fp = Footprint('control')
        if isinstance(node, A.If):
            conds = [b[0] for b in node.branches]
        elif isinstance(node, A.While):
            conds = [node.cond]
        else:
            conds = [node.default]
        _walk(engine, conds, fp, False, seen)
        return fp
    if isinstance(node, (A.Select, A.SetStmt, A.Return)):
        fp = Footprint('read')
        _walk(engine, node, fp, False, seen)
        if fp.lock == 'update' or (sql is not None and _RE_X.search(sql)):
            fp.kind = 'readX'
        elif fp.lock == 'share' or (sql is not None and _RE_S.search(sql)):
            fp.kind = 'readS'
        if fp.writes:                  # a stored function with side effects: treat the statement as a write
            fp.kind = 'write'
            fp.x_reads = True
            _close(engine, fp, seen)
        return fp
    fp = Footprint('write')
    if node is None or not isinstance(node, (A.Insert, A.Update, A.Delete)):
        fp.x_reads = True
        fp.reads = set(engine.tables)
        fp.writes = set(engine.tables)
        return fp
    _walk(engine, node, fp, False, seen)
    _close(engine, fp, seen)
    return fp


def footprint(engine, sql, with_params):
    cache = engine.__dict__.setdefault('_race_footprints', {})
    key = (sql, with_params)
    fp = cache.get(key)
    if fp is None:
        asts, _n = parse_statements(sql, with_params=with_params)
        fp = node_footprint(engine, asts[0] if len(asts) == 1 else None, sql)
        cache[key] = fp
    return fp


def inner_footprint(engine, node):
    cache = engine.__dict__.setdefault('_race_node_footprints', {})
    ent = cache.get(id(node))
    if ent is None or ent[0] is not node:
        ent = (node, node_footprint(engine, node))
        cache[id(node)] = ent
    return ent[1]


# ----------------------------------------------------------------------------------------------------------------------
# the controller
# ----------------------------------------------------------------------------------------------------------------------
class Party:
    def __init__(self, name):
        self.name = name
        self.state = 'new'            # new | running | paused | blocked | done
        self.n = 0                    # SQL statements issued so far (tx control / CALL not counted)
        self.kinds = []               # their kinds (for the report: which pause points are admissible)
        self.wrote = False
        self.locks = {}               # table -> 'S' | 'X'   (current transaction)
        self.gate = threading.Event()
        self.cancelled = False
        self.snap = None              # table -> [row copies] taken at the first plain SELECT of the current transaction
        self.snap_commit = 0
        self.written_after_snap = set()
        self.tx_written = set()
        self.task = None
        self.result = None
        self.error = None
        self.stale_reads = 0
        self.in_proc = 0              # statements gated inside procedure bodies


class RaceControl:
    def __init__(self, engine, k, on_first_done=None, on_run=None):
        self.engine = engine
        self.k = k
        self.first = Party('first')
        self.second = Party('second')
        self.yielded = asyncio.Event()
        self.loop = None
        self.pool = concurrent.futures.ThreadPoolExecutor(max_workers=4, thread_name_prefix='race')
        self.commits = []             # [(party, frozenset(tables))] in commit order
        self.order = []               # completion order of the two requests
        self.events = []
        self.paused = False
        self.paused_in_proc = False
        self.admissible = True
        self.blocked_on = None
        self.inconclusive = None
        self.on_first_done = on_first_done
        self.on_run = on_run          # called with the party that starts / resumes running (virtual clock of its op)

    def other(self, p):
        return self.second if p is self.first else self.first

    # ---- called from fakedb (event-loop thread) ------------------------------------------------------------------------
    async def execute(self, conn, sql, args, run):
        """One statement of a racing connection: gate + execution in a worker thread (it may park in there)."""
        return await asyncio.get_running_loop().run_in_executor(self.pool, self._exec_sync, conn, sql, args, run)

    def end_tx(self, conn):
        if conn.party is not None:
            self._end_tx(conn.party)

    # ---- worker thread -------------------------------------------------------------------------------------------------
    def _exec_sync(self, conn, sql, args, run):
        p = conn.party
        fp = footprint(self.engine, sql, args is not None)
        if fp.kind == 'tx':
            if re.match(r'\s*START\b', sql, re.I):
                self._begin_tx(p)
            return run(sql, args)
        if fp.kind == 'call':
            return run(sql, args)              # the statements of the body pass `inner`
        token = self._gate(p, conn._sess, fp, False)
        try:
            return run(sql, args)
        finally:
            self._after(token)

    def _sub(self, node, env, fn, p, kind):
        """A statement inside a TRIGGER / FUNCTION body (part of the statement that fired / called it: no pause point, no lock check --
        the enclosing statement was checked with the routine's whole footprint).  Whether a plain SELECT there is a consistent read
        (read view of the transaction; binlog_format=ROW) or reads the latest committed rows (statement-based logging takes locks) depends
        on the server configuration: under a stale snapshot the statement is evaluated under BOTH views and must give the same result."""
        if p.snap is None or isinstance(node, (A.Insert, A.Update, A.Delete, A.StartTx, A.Commit, A.Rollback)):
            return fn(env)
        fp = inner_footprint(self.engine, node)
        stale = self._stale(p) & fp.reads
        if not stale:
            return fn(env)
        if fp.kind == 'control':
            raise RaceInconclusive(f'{p.name}: condition of {type(node).__name__} in a {kind} reads {sorted(stale)} under a stale snapshot')
        if fp.kind in ('readS', 'readX'):
            return fn(env)                     # a locking read reads the latest committed rows
        fr, sess = env.frame, env.sess
        views = {name: self._view(p, sess, name) for name in sorted(stale)}

        def capture():
            return (list(fr.vars), list(fr.new) if fr.new is not None else None, dict(sess.uvars), sess.row_count)
        saved = capture()
        swapped = []
        for name in sorted(stale):
            t = self.engine.tables[name]
            swapped.append((t, t.rows, t._hidx))
            t.rows = views[name]
            t._hidx = {}
        try:
            r1 = fn(env)
        finally:
            for t, rows, hidx in swapped:
                t.rows = rows
                t._hidx = hidx
        s1 = capture()
        fr.vars[:] = saved[0]
        if fr.new is not None:
            fr.new[:] = saved[1]
        sess.uvars.clear()
        sess.uvars.update(saved[2])
        sess.row_count = saved[3]
        r2 = fn(env)
        if r1 != r2 or s1 != capture():
            raise RaceInconclusive(f'{p.name}: read of {sorted(stale)} inside a {kind} differs between the snapshot and the latest committed rows')
        p.stale_reads += 1
        return r2

    def inner(self, node, env, fn, kind='PROCEDURE'):
        """engine.stmt_hook: a statement of a routine body is about to run (any thread; parties run in worker threads)."""
        sess = env.sess
        p = getattr(sess, 'race_party', None)
        if p is None:
            return fn(env)
        if kind != 'PROCEDURE':
            return self._sub(node, env, fn, p, kind)
        fp = inner_footprint(self.engine, node)
        if fp.kind == 'tx':
            if isinstance(node, A.StartTx):
                self._begin_tx(p)
                return fn(env)
            r = fn(env)
            self._end_tx(p)
            return r
        if fp.kind == 'call':
            return fn(env)
        if fp.kind == 'control':
            if fp.reads:
                raise RaceInconclusive(f'{p.name}: condition of {type(node).__name__} reads {sorted(fp.reads)} (not gated)')
            return fn(env)
        token = self._gate(p, sess, fp, True)
        try:
            return fn(env)
        finally:
            self._after(token)

    def _gate(self, p, sess, fp, in_proc):
        if p is self.first and not self.paused and self.admissible and p.n == self.k:
            if p.wrote:
                self.admissible = False
                self.events.append(f'first: pause point {self.k} is after a write ({p.kinds}): not paused')
            else:
                self.paused = True
                self.paused_in_proc = in_proc
                self.events.append(f'first: paused after {p.n} statements {p.kinds}' + (' (inside a procedure)' if in_proc else ''))
                self._yield(p, 'paused')
        o = self.other(p)
        while True:
            t = self._conflict(fp, o)
            if t is None:
                break
            if sess.undo.entries:
                raise RaceInconclusive(f'{p.name} blocked on {t} with uncommitted writes')
            if o.state == 'blocked':
                raise RaceInconclusive(f'lock cycle: {p.name} needs {t} held by blocked {o.name} (need not be a deadlock for InnoDB)')
            if o.state == 'done':
                raise AssertionError('a finished party still holds locks')
            self.blocked_on = t
            self.events.append(f'{p.name}: statement {p.n + 1} ({fp.kind}) blocked on {t} held {o.locks[t]} by {o.name}')
            self._yield(p, 'blocked')
        # locks
        if fp.kind == 'readS':
            for t in fp.reads:
                p.locks.setdefault(t, 'S')
        elif fp.kind == 'readX':
            for t in fp.reads:
                p.locks[t] = 'X'
        elif fp.kind == 'write':
            for t in fp.reads:
                if fp.x_reads or t in fp.xtables:
                    p.locks[t] = 'X'
                else:
                    p.locks.setdefault(t, 'S')
            for t in fp.writes:
                p.locks[t] = 'X'
        # consistent reads
        token = {'fp': fp, 'swapped': [], 'versions': None, 'party': p}
        if fp.kind == 'read':
            if p.snap is None:
                p.snap = {name: [list(r) for r in t.rows] for name, t in self.engine.tables.items()}
                p.snap_commit = len(self.commits)
                p.written_after_snap = set()
            stale = self._stale(p) & fp.reads
            views = {name: self._view(p, sess, name) for name in sorted(stale)}
            for name in sorted(stale):
                t = self.engine.tables[name]
                token['swapped'].append((t, t.rows, t._hidx))
                t.rows = views[name]
                t._hidx = {}
                p.stale_reads += 1
            if stale:
                self.events.append(f'{p.name}: statement {p.n + 1} reads its snapshot of {sorted(stale)}')
        elif fp.kind == 'write':
            # (reads inside the triggers / functions this statement fires: checked one by one in `_sub`)
            token['versions'] = {name: t.version for name, t in self.engine.tables.items()}
        p.n += 1
        p.in_proc += in_proc
        p.kinds.append(fp.kind)
        if fp.kind == 'write':
            p.wrote = True
        return token

    def _view(self, p, sess, name):
        """The rows of table `name` a consistent read of party p sees: its snapshot, except that the rows p itself wrote in this
        transaction (its undo log) are seen in their current version (own inserts / updates visible, own deletes gone)."""
        snap = p.snap[name]
        if name not in p.written_after_snap and name not in p.tx_written:
            return snap
        t = self.engine.tables[name]
        if t.pk_idxs is None:
            raise RaceInconclusive(f'{p.name}: consistent read of {name} (no primary key), written by both transactions')
        live, gone = {}, set()
        for kind, tab, row, old in sess.undo.entries:
            if tab is not t:
                continue
            if kind == 'i' or kind == 'u':
                if kind == 'u' and t.key_of(old, t.pk_idxs) != t.key_of(row, t.pk_idxs):
                    raise RaceInconclusive(f'{p.name}: consistent read of {name} after a primary-key update of its own')
                live[id(row)] = row
            elif kind == 'd':
                gone.add(t.key_of(row, t.pk_idxs))
                live.pop(id(row), None)
        current = {id(r) for r in t.rows}
        mine = {t.key_of(r, t.pk_idxs): r for r in live.values() if id(r) in current}
        out = [r for r in snap if t.key_of(r, t.pk_idxs) not in mine and t.key_of(r, t.pk_idxs) not in gone]
        out += list(mine.values())
        out.sort(key=lambda r: t.key_of(r, t.pk_idxs))
        return out

    def _after(self, token):
        for t, rows, hidx in token['swapped']:
            t.rows = rows
            t._hidx = hidx
        v = token['versions']
        if v is not None:
            p = token['party']
            for name, t in self.engine.tables.items():
                if t.version != v[name]:
                    p.tx_written.add(name)
                    if p.snap is not None:
                        p.written_after_snap.add(name)

    def _yield(self, p, state):
        """Park this worker thread until the controller resumes the party."""
        p.state = state
        p.gate.clear()
        self.loop.call_soon_threadsafe(self.yielded.set)
        if not p.gate.wait(4 * WAIT_SECONDS):
            raise RaceAbort('parked party was never resumed')
        if p.cancelled:
            raise RaceAbort('race abandoned')
        p.state = 'running'
        if self.on_run is not None:
            self.on_run(p)

    # ---- internals ---------------------------------------------------------------------------------------------------
    def _begin_tx(self, p):
        p.locks = {}
        p.snap = None
        p.written_after_snap = set()
        p.tx_written = set()

    def _end_tx(self, p):
        if p.tx_written:
            self.commits.append((p, frozenset(p.tx_written)))
        self._begin_tx(p)

    def _stale(self, p):
        out = set()
        for q, tabs in self.commits[p.snap_commit:]:
            if q is not p:
                out |= tabs
        return out

    @staticmethod
    def _conflict(fp, o):
        if not o.locks or fp.kind == 'read':
            return None
        if fp.kind == 'readS':
            for t in sorted(fp.reads):
                if o.locks.get(t) == 'X':
                    return t
            return None
        if fp.kind == 'readX':
            for t in sorted(fp.reads):
                if t in o.locks:
                    return t
            return None
        for t in sorted(fp.writes):
            if t in o.locks:
                return t
        for t in sorted(fp.reads):
            if t in o.locks and (fp.x_reads or t in fp.xtables or o.locks[t] == 'X'):
                return t
        return None

    async def _wait(self):
        await asyncio.wait_for(self.yielded.wait(), WAIT_SECONDS)
        self.yielded.clear()

    def _resume(self, p):
        p.gate.set()

    async def _party(self, p, make_coro):
        PARTY.set(p)
        p.state = 'running'
        if self.on_run is not None:
            self.on_run(p)
        try:
            p.result = await make_coro()
        except RaceInconclusive as e:
            self.inconclusive = self.inconclusive or e.reason
        except (asyncio.CancelledError, RaceAbort):
            pass
        except BaseException as e:  # noqa: BLE001   (Unsupported, harness errors): re-raised by run()
            p.error = e
        finally:
            p.state = 'done'
            p.locks = {}
            self.order.append(p.name)
            if len(self.order) == 1 and self.on_first_done is not None and self.inconclusive is None and p.error is None:
                self.on_first_done()
            self.yielded.set()

    async def _abort(self):
        for p in (self.first, self.second):
            p.cancelled = True
            p.gate.set()
        for p in (self.first, self.second):
            if p.task is not None:
                try:
                    await asyncio.wait_for(asyncio.shield(p.task), WAIT_SECONDS)
                except asyncio.TimeoutError:
                    p.task.cancel()
                except (asyncio.CancelledError, Exception):  # noqa: BLE001
                    pass

    def _check(self):
        for p in (self.first, self.second):
            if p.error is not None:
                return p.error
        return None

    async def run(self, make_first, make_second):
        """Returns True when the overlapping schedule was executed; False when it was inconclusive (caller restores and runs serially)."""
        a, b = self.first, self.second
        self.loop = asyncio.get_running_loop()
        saved_hook = self.engine.stmt_hook
        self.engine.stmt_hook = self.inner
        try:
            a.task = self.loop.create_task(self._party(a, make_first))
            try:
                await self._wait()                                   # first paused, or done
                if self._check() or self.inconclusive:
                    raise _Stop()
                b.task = self.loop.create_task(self._party(b, make_second))
                await self._wait()                                   # second blocked, or done
                if self._check() or self.inconclusive:
                    raise _Stop()
                if b.state == 'blocked':
                    if a.state != 'paused':
                        raise AssertionError(f'second blocked while first is {a.state}')
                    self._resume(a)
                    await self._wait()                               # first done (a lock cycle makes it inconclusive)
                    if self._check() or self.inconclusive:
                        raise _Stop()
                    if a.state != 'done':
                        raise AssertionError(f'first is {a.state} after resuming')
                    self._resume(b)
                    await self._wait()
                    if self._check() or self.inconclusive:
                        raise _Stop()
                    if b.state != 'done':
                        raise AssertionError(f'second is {b.state} after the first finished')
                else:
                    if a.state == 'paused':
                        self._resume(a)
                        await self._wait()
                        if self._check() or self.inconclusive:
                            raise _Stop()
                    if a.state != 'done' or b.state != 'done':
                        raise AssertionError(f'race ended with first {a.state}, second {b.state}')
            except _Stop:
                await self._abort()
                err = self._check()
                if err is not None:
                    raise err
                return False
            except BaseException:
                await self._abort()
                raise
            return True
        finally:
            self.engine.stmt_hook = saved_hook
            self.pool.shutdown(wait=False)


class _Stop(Exception):
    pass


# ----------------------------------------------------------------------------------------------------------------------
# saving / restoring the whole database (inconclusive race -> serial execution from the state before the race)
# ----------------------------------------------------------------------------------------------------------------------
def save_engine(engine):
    import random
    return {'tables': {name: ([list(r) for r in t.rows], t.auto_next) for name, t in engine.tables.items()},
            'rng': engine.rng.getstate(), 'random': random.getstate()}


def restore_engine(engine, saved):
    import random
    for s in list(engine.sessions):
        s.undo.clear()
    for name, (rows, auto_next) in saved['tables'].items():
        t = engine.tables[name]
        t.clear()
        for r in rows:
            t.raw_insert(list(r))
        t.auto_next = auto_next
    engine.rng.setstate(saved['rng'])
    random.setstate(saved['random'])
