"""Two OVERLAPPING client requests on the fake database: a sound, deliberately coarse model of InnoDB REPEATABLE READ.

A history op  {"op": "race", "first": OP_A, "second": OP_B, "pause": k}  (runner.Live.step) runs the real handler of OP_A as an
asyncio task until it is about to issue its (k+1)-th SQL statement, i.e. after k statements ("START TRANSACTION" / COMMIT /
ROLLBACK are not counted; the k statements may span several transactions of the handler), PROVIDED those k statements were all
reads (top-level SELECTs, locking or not; no INSERT / UPDATE / DELETE / CALL): then the handler of OP_B runs -- to completion
unless it needs a lock A holds --, then A continues.  The only interleavings executed are therefore

        A: read-only prefix of k statements | B: whole request | A: rest          (B not blocked by a lock of A)
        A: read-only prefix | B: statements before the blocked one | A: rest | B: blocked statement and rest   (B blocked)

No schedule in which BOTH transactions have pending (uncommitted) writes is explored; the engine has no isolation model for that.

What makes the executed schedule a schedule that MySQL 8 / InnoDB at REPEATABLE READ can produce with the same reads:

 * Lock table, table-granular (coarser than InnoDB's record / gap / next-key locks, so it can only serialise MORE: a statement
   that waits here until the other transaction ends is, for InnoDB, the same statement arriving later):
     - `SELECT .. FOR UPDATE` takes X, `SELECT .. LOCK IN SHARE MODE / FOR SHARE` takes S on EVERY base table the statement mentions
       (also those in subqueries / derived tables); locks are held until the transaction ends;
     - a statement of the running party is checked against the locks of the other party BEFORE it executes, with its static
       may-touch footprint (tables written: INSERT/UPDATE/DELETE targets, also inside the called procedure, fired triggers and stored
       functions, transitively; tables read: everything mentioned + foreign-key parents and children of the written tables):
       a locking read in S mode conflicts with X; a locking read in X mode and every written table conflict with S and X; the tables
       read by a DML statement are treated as S reads (InnoDB: INSERT..SELECT sources, FK checks), by a CALL as X reads;
     - a plain (non-locking) SELECT never blocks.
   A blocked party that already has uncommitted writes, or a deadlock (the resumed party needs a lock of the blocked one), cannot
   be modelled (with table granularity it need not be a deadlock for InnoDB): the race is INCONCLUSIVE, the database is restored to
   its state before the race and the two requests are run serially (reported as mode 'serial').
 * Consistent reads: a transaction's read view is created by its first plain SELECT and all later plain SELECTs of that
   transaction see that snapshot (plus the transaction's own writes); locking reads, the scans of UPDATE/DELETE, INSERT..SELECT
   sources and constraint checks read the latest committed rows.  Here: at its first plain SELECT a racing transaction copies all
   tables; a later plain top-level SELECT that mentions a table the OTHER party committed to after that copy reads the copy of
   that table (swapped in for the duration of the statement) -- unless the reader itself wrote that table after the copy
   (merged view not modelled: INCONCLUSIVE).  Plain SELECTs INSIDE a procedure / trigger / function of a transaction whose
   snapshot is stale with respect to a table they mention: INCONCLUSIVE as well.
 * Auto-increment values are not transactional (as in InnoDB); `random` / RAND() streams are shared (only token shards,
   which the observable projection sums, depend on them).

Nothing here is used unless a history contains a race op: FakeCursor calls `before`/`after` only when the connection has a party.
"""
import asyncio
import contextvars
import re

from minisql import ast as A
from minisql.parser import parse_statements

PARTY = contextvars.ContextVar('batchdb_race_party', default=None)

RACE_OPS = ('create_batch', 'create_update', 'create_groups', 'create_jobs', 'commit')
MAX_PAUSE = 40
WAIT_SECONDS = 60

_RE_X = re.compile(r'\bFOR\s+UPDATE\b', re.I)
_RE_S = re.compile(r'\bLOCK\s+IN\s+SHARE\s+MODE\b|\bFOR\s+SHARE\b', re.I)


class RaceInconclusive(BaseException):
    """The schedule left the part of InnoDB's behaviour this layer models.  BaseException: no handler of the service swallows it."""

    def __init__(self, reason):
        super().__init__(reason)
        self.reason = reason


# ----------------------------------------------------------------------------------------------------------------------
# static may-touch footprint of a statement
# ----------------------------------------------------------------------------------------------------------------------
class Footprint:
    __slots__ = ('kind', 'reads', 'writes', 'routine_reads', 'x_reads')

    def __init__(self, kind):
        self.kind = kind              # 'tx' | 'read' | 'readS' | 'readX' | 'write'
        self.reads = set()            # every table mentioned or checked (includes writes)
        self.writes = set()
        self.routine_reads = set()    # tables read inside procedure / trigger / function bodies (possibly consistent reads)
        self.x_reads = False          # reads must be treated as X (CALL, or a routine body with FOR UPDATE)


def _walk(engine, node, fp, in_routine, seen):
    if node is None or isinstance(node, (str, int, float, bool)):
        return
    if isinstance(node, (list, tuple)):
        for x in node:
            _walk(engine, x, fp, in_routine, seen)
        return
    if not isinstance(node, A.Node):
        return
    if isinstance(node, A.TableRef):
        t = node.name.lower()
        fp.reads.add(t)
        if in_routine:
            fp.routine_reads.add(t)
        return
    if isinstance(node, A.Insert):
        fp.writes.add(node.table.lower())
    elif isinstance(node, A.Delete):
        fp.writes.add(node.table.lower())
    elif isinstance(node, A.Update):
        def targets(f):
            if isinstance(f, A.TableRef):
                fp.writes.add(f.name.lower())
            elif isinstance(f, A.Join):
                targets(f.left)
                targets(f.right)
        targets(node.from_)
    elif isinstance(node, A.Call):
        _routine(engine, 'PROCEDURE', node.name.lower(), fp, seen)
    elif isinstance(node, A.Func):
        name = (node.name or '').lower()
        if ('FUNCTION', name) in engine.schema.routines:
            _routine(engine, 'FUNCTION', name, fp, seen)
    for f in node.__slots__:
        _walk(engine, getattr(node, f, None), fp, in_routine, seen)


def _routine(engine, kind, lname, fp, seen):
    if (kind, lname) in seen:
        return
    seen.add((kind, lname))
    rdef = engine.schema.routines.get((kind, lname))
    if rdef is None:
        return
    text = getattr(rdef.ast, 'text', None) or ''
    if _RE_X.search(text) or _RE_S.search(text):
        fp.x_reads = True
    _walk(engine, rdef.ast.body, fp, True, seen)


def _close(engine, fp, seen):
    """Foreign keys and triggers of the written tables, to a fixpoint."""
    done = set()
    while True:
        todo = fp.writes - done
        if not todo:
            return
        for w in todo:
            done.add(w)
            t = engine.tables.get(w)
            if t is None:
                continue
            fp.reads.add(w)
            for _cidx, parent, _pidx, _od in t.fks:
                fp.reads.add(parent.name.lower())
            for child, _cidx, _pidx, _od in t.children:
                fp.reads.add(child.name.lower())
            for (k, n), r in list(engine.schema.routines.items()):
                if k == 'TRIGGER' and r.ast.table.lower() == w:
                    _routine(engine, 'TRIGGER', n, fp, seen)


def footprint(engine, sql, with_params):
    cache = engine.__dict__.setdefault('_race_footprints', {})
    key = (sql, with_params)
    fp = cache.get(key)
    if fp is not None:
        return fp
    asts, _n = parse_statements(sql, with_params=with_params)
    node = asts[0] if len(asts) == 1 else None
    if isinstance(node, (A.StartTx, A.Commit, A.Rollback)):
        fp = Footprint('tx')
    elif isinstance(node, A.Select) or isinstance(node, A.SetStmt):
        if _RE_X.search(sql):
            fp = Footprint('readX')
        elif _RE_S.search(sql):
            fp = Footprint('readS')
        else:
            fp = Footprint('read')
        seen = set()
        _walk(engine, node, fp, False, seen)
        if fp.writes:                  # a stored function with side effects: treat the statement as a write
            fp.kind = 'write'
            fp.x_reads = True
            _close(engine, fp, seen)
    else:
        fp = Footprint('write')
        seen = set()
        if node is None:
            fp.x_reads = True
            fp.reads = set(engine.tables)
            fp.writes = set(engine.tables)
        else:
            _walk(engine, node, fp, False, seen)
            if isinstance(node, A.Call):
                fp.x_reads = True
            _close(engine, fp, seen)
    cache[key] = fp
    return fp


# ----------------------------------------------------------------------------------------------------------------------
# the controller
# ----------------------------------------------------------------------------------------------------------------------
class Party:
    def __init__(self, name):
        self.name = name
        self.state = 'new'            # new | running | paused | blocked | done
        self.n = 0                    # SQL statements issued so far (tx control not counted)
        self.kinds = []               # their kinds (for the report: which pause points are admissible)
        self.wrote = False
        self.locks = {}               # table -> 'S' | 'X'   (current transaction)
        self.gate = asyncio.Event()
        self.snap = None              # table -> [row copies] taken at the first plain SELECT of the current transaction
        self.snap_commit = 0
        self.written_after_snap = set()
        self.tx_written = set()
        self.task = None
        self.result = None
        self.error = None
        self.stale_reads = 0


class RaceControl:
    def __init__(self, engine, k, on_first_done=None):
        self.engine = engine
        self.k = k
        self.first = Party('first')
        self.second = Party('second')
        self.yielded = asyncio.Event()
        self.commits = []             # [(party, frozenset(tables))] in commit order
        self.order = []               # completion order of the two requests
        self.events = []
        self.paused = False
        self.admissible = True
        self.blocked_on = None
        self.inconclusive = None
        self.on_first_done = on_first_done

    def other(self, p):
        return self.second if p is self.first else self.first

    # ---- called from fakedb ------------------------------------------------------------------------------------------
    async def before(self, conn, sql, args):
        p = conn.party
        fp = footprint(self.engine, sql, args is not None)
        if fp.kind == 'tx':
            if re.match(r'\s*START\b', sql, re.I):
                self._begin_tx(p)
            return None
        if p is self.first and not self.paused and self.admissible and p.n == self.k:
            if p.wrote:
                self.admissible = False
                self.events.append(f'first: pause point {self.k} is after a write ({p.kinds}): not paused')
            else:
                self.paused = True
                self.events.append(f'first: paused after {p.n} statements {p.kinds}')
                await self._yield(p, 'paused')
        o = self.other(p)
        while True:
            t = self._conflict(fp, o)
            if t is None:
                break
            if conn._sess.undo.entries:
                raise RaceInconclusive(f'{p.name} blocked on {t} with uncommitted writes')
            if o.state == 'blocked':
                raise RaceInconclusive(f'lock cycle: {p.name} needs {t} held by blocked {o.name} (need not be a deadlock for InnoDB)')
            if o.state == 'done':
                raise AssertionError('a finished party still holds locks')
            self.blocked_on = t
            self.events.append(f'{p.name}: statement {p.n + 1} ({fp.kind}) blocked on {t} held {o.locks[t]} by {o.name}')
            await self._yield(p, 'blocked')
        # locks
        if fp.kind == 'readS':
            for t in fp.reads:
                p.locks.setdefault(t, 'S')
        elif fp.kind == 'readX':
            for t in fp.reads:
                p.locks[t] = 'X'
        elif fp.kind == 'write':
            for t in fp.reads:
                if fp.x_reads:
                    p.locks[t] = 'X'
                else:
                    p.locks.setdefault(t, 'S')
            for t in fp.writes:
                p.locks[t] = 'X'
        # consistent reads
        token = {'fp': fp, 'swapped': [], 'versions': None, 'party': p}
        if fp.kind == 'read':
            if p.snap is None:
                p.snap = {name: [list(r) for r in t.rows] for name, t in self.engine.tables.items()}
                p.snap_commit = len(self.commits)
                p.written_after_snap = set()
            stale = self._stale(p) & fp.reads
            for name in sorted(stale):
                if name in p.written_after_snap:
                    raise RaceInconclusive(f'{p.name}: consistent read of {name}, written by both transactions (merged view not modelled)')
                t = self.engine.tables[name]
                token['swapped'].append((t, t.rows, t._hidx))
                t.rows = p.snap[name]
                t._hidx = {}
                p.stale_reads += 1
            if stale:
                self.events.append(f'{p.name}: statement {p.n + 1} reads its snapshot of {sorted(stale)}')
        elif fp.kind == 'write':
            if p.snap is not None:
                bad = self._stale(p) & fp.routine_reads
                if bad:
                    raise RaceInconclusive(f'{p.name}: routine-internal read of {sorted(bad)} under a stale snapshot')
            token['versions'] = {name: t.version for name, t in self.engine.tables.items()}
        p.n += 1
        p.kinds.append(fp.kind)
        if fp.kind == 'write':
            p.wrote = True
        return token

    def after(self, conn, token):
        if token is None:
            return
        for t, rows, hidx in token['swapped']:
            t.rows = rows
            t._hidx = hidx
        v = token['versions']
        if v is not None:
            p = token['party']
            for name, t in self.engine.tables.items():
                if t.version != v[name]:
                    p.tx_written.add(name)
                    if p.snap is not None:
                        p.written_after_snap.add(name)

    def end_tx(self, conn):
        p = conn.party
        if p is None:
            return
        if p.tx_written:
            self.commits.append((p, frozenset(p.tx_written)))
        self._begin_tx(p)

    # ---- internals ---------------------------------------------------------------------------------------------------
    def _begin_tx(self, p):
        p.locks = {}
        p.snap = None
        p.written_after_snap = set()
        p.tx_written = set()

    def _stale(self, p):
        out = set()
        for q, tabs in self.commits[p.snap_commit:]:
            if q is not p:
                out |= tabs
        return out

    @staticmethod
    def _conflict(fp, o):
        if not o.locks or fp.kind == 'read':
            return None
        if fp.kind == 'readS':
            for t in sorted(fp.reads):
                if o.locks.get(t) == 'X':
                    return t
            return None
        if fp.kind == 'readX':
            for t in sorted(fp.reads):
                if t in o.locks:
                    return t
            return None
        for t in sorted(fp.writes):
            if t in o.locks:
                return t
        for t in sorted(fp.reads):
            if t in o.locks and (fp.x_reads or o.locks[t] == 'X'):
                return t
        return None

    async def _yield(self, p, state):
        p.state = state
        p.gate.clear()
        self.yielded.set()
        await p.gate.wait()
        p.state = 'running'

    async def _wait(self):
        await asyncio.wait_for(self.yielded.wait(), WAIT_SECONDS)
        self.yielded.clear()

    def _resume(self, p):
        p.gate.set()

    async def _party(self, p, make_coro):
        PARTY.set(p)
        p.state = 'running'
        try:
            p.result = await make_coro()
        except RaceInconclusive as e:
            self.inconclusive = self.inconclusive or e.reason
        except asyncio.CancelledError:
            pass
        except BaseException as e:  # noqa: BLE001   (Unsupported, harness errors): re-raised by run()
            p.error = e
        finally:
            p.state = 'done'
            p.locks = {}
            self.order.append(p.name)
            if len(self.order) == 1 and self.on_first_done is not None and self.inconclusive is None and p.error is None:
                self.on_first_done()
            self.yielded.set()

    async def _abort(self):
        for p in (self.first, self.second):
            if p.task is not None and not p.task.done():
                p.task.cancel()
        for p in (self.first, self.second):
            if p.task is not None:
                try:
                    await asyncio.wait_for(p.task, WAIT_SECONDS)
                except (asyncio.CancelledError, Exception):  # noqa: BLE001
                    pass

    def _check(self):
        for p in (self.first, self.second):
            if p.error is not None:
                return p.error
        return None

    async def run(self, make_first, make_second):
        """Returns True when the overlapping schedule was executed; False when it was inconclusive (caller restores and runs serially)."""
        a, b = self.first, self.second
        a.task = asyncio.get_event_loop().create_task(self._party(a, make_first))
        try:
            await self._wait()                                   # first paused, or done
            if self._check() or self.inconclusive:
                raise _Stop()
            b.task = asyncio.get_event_loop().create_task(self._party(b, make_second))
            await self._wait()                                   # second blocked, or done
            if self._check() or self.inconclusive:
                raise _Stop()
            if b.state == 'blocked':
                if a.state != 'paused':
                    raise AssertionError(f'second blocked while first is {a.state}')
                self._resume(a)
                await self._wait()                               # first done (a lock cycle makes it inconclusive)
                if self._check() or self.inconclusive:
                    raise _Stop()
                if a.state != 'done':
                    raise AssertionError(f'first is {a.state} after resuming')
                self._resume(b)
                await self._wait()
                if self._check() or self.inconclusive:
                    raise _Stop()
                if b.state != 'done':
                    raise AssertionError(f'second is {b.state} after the first finished')
            else:
                if a.state == 'paused':
                    self._resume(a)
                    await self._wait()
                    if self._check() or self.inconclusive:
                        raise _Stop()
                if a.state != 'done' or b.state != 'done':
                    raise AssertionError(f'race ended with first {a.state}, second {b.state}')
        except _Stop:
            await self._abort()
            err = self._check()
            if err is not None:
                raise err
            return False
        except BaseException:
            await self._abort()
            raise
        return True


class _Stop(Exception):
    pass


# ----------------------------------------------------------------------------------------------------------------------
# saving / restoring the whole database (inconclusive race -> serial execution from the state before the race)
# ----------------------------------------------------------------------------------------------------------------------
def save_engine(engine):
    import random
    return {'tables': {name: ([list(r) for r in t.rows], t.auto_next) for name, t in engine.tables.items()},
            'rng': engine.rng.getstate(), 'random': random.getstate()}


def restore_engine(engine, saved):
    import random
    for s in list(engine.sessions):
        s.undo.clear()
    for name, (rows, auto_next) in saved['tables'].items():
        t = engine.tables[name]
        t.clear()
        for r in rows:
            t.raw_insert(list(r))
        t.auto_next = auto_next
    engine.rng.setstate(saved['rng'])
    random.setstate(saved['random'])
