"""C24 — the rate limiter never exceeds its rate and admits as soon as possible
(hail/python/hailtop/utils/rate_limiter.py::RateLimiter.__aenter__ and __aexit__).

Model coq/theories/RateLimiter/Model.v (integer ticks; Enter / Wake i / Advance dt / Leave i kind / Abandon i: an admitted
entrant stays inside its `async with` body until the schedule makes the body return, raise, be cancelled or time out;
a sleeper may be cancelled inside __aenter__); theorems for ALL action lists in
Props_C24.v.  Tie X: the real class runs on the deterministic loop with a fully controlled virtual clock (time.time and
loop.time patched; dyadic float times, tick = 1/4 s, so its float arithmetic is exact); the harness fires each sleep
timer itself (never early, possibly late, in any order).  After every action now, the deque, every sleeper's timer and
the admission log and the set of entrants inside a body are compared with the model (vm_compute).  Oracle: from the admission log alone — no window
[a, a+window) with more than `count` admissions; an entrant is sent to sleep only when `count` admissions share a window
with now, and its timer is set to the first instant a slot frees; with asyncio's own timers everybody gets in.
"""
import glob
import json
import os

from harness.core import Corr, Disagreement, Failure, coq_eval, zlit, listlit

ID = 'C24'
SRC = 'hail/python/hailtop/utils/rate_limiter.py'
COQ_PROPS = 'theories/RateLimiter/Props_C24.v'
READY = True
META = dict(
    design_ref='§5.C C24',
    technique='Coq proof (invariant induction over arbitrary action lists) about a hand-written executable model of RateLimiter.__aenter__/__aexit__; '
              'correspondence with the real class under a controlled virtual clock',
    level_text='Machine-checked theorems (Coq 8.16, closed under the global context) over ALL lists of Enter / Wake(i) / Advance(dt) / '
               'Leave(i, Normal|Raise|Cancel|Timeout) / Abandon(i) actions (any number of entrants, arrivals at any instants, sleep timers firing '
               'late and in any order, every admitted entrant leaving its `async with` body at any moment by returning, raising, being cancelled '
               'or timing out, sleeping entrants being cancelled inside __aenter__), every window length, every '
               'count >= 1: no half-open window [t, t+w) ever holds more than count admissions; the quantity __aenter__ compares with count '
               'equals the number of admissions in (now-w, now], so an attempt is admitted iff that keeps the bound, and a refusal is forced '
               '(admitting would put count+1 admissions into one window); every sleeper whose timer T is in the future is inadmissible now and '
               'T is exactly the instant the admission made at T-w leaves the window; body exits are irrelevant (C24_body_exits_irrelevant: clock, '
               'deque, sleepers, timers and admission log after any schedule equal those of the schedule with all body exits erased - the model of '
               '__aexit__ is the identity on every kind of exit, and the tie checks that against the real __aexit__ with real task.cancel() and a '
               'really expiring asyncio.timeout). The model (integer ticks) is tied to the source by running '
               'the real class under a controlled clock with dyadic float times and comparing now, deque, every timer and the admission log '
               'and who is inside a body after every action (exhaustive small scope on a grid of window/4, without and with body exits of all four '
               'kinds and sleeper cancellation, + seeded random schedules containing all action kinds).',
    level_note='The theorems are about the hand model in integer time; the tie to the source is the (sampled) correspondence run on dyadic times '
               'where float arithmetic is exact - rounding of arbitrary float times is not covered. The clock is assumed monotone (the code reads '
               'time.time(), which is not guaranteed monotone). Promptness is stated for the limiter (decision exact, timer at the first feasible '
               'instant); which of several sleepers woken at the same instant wins is asyncio timer order and not claimed to be FIFO.',
    partial=False,
)
TRUSTED = ['harness/aio/detloop.py + harness/aio/tickloop.py (virtual clock, ready-queue stepping; CPython private attributes)',
           'harness/impl/c24_ratelimit.py (fires asyncio.sleep timers by hand via loop._scheduled; maps float times to ticks and fails if a time is off the grid; '
           'bodies hang on an Event and are ended by set / raise / task.cancel() / asyncio.timeout(None).reschedule(now))',
           'CPython 3.12 asyncio.sleep / call_later and IEEE double arithmetic on dyadic values']
ASSUMPTIONS = ['the clock (time.time) is monotone; timers never fire early (they may fire late and in any order)',
               'one loop iteration of __aenter__ up to its return/await is atomic under asyncio',
               'time is modelled in integer ticks; the real float arithmetic is exercised only on dyadic values where it is exact']

HEADER = 'From HailV Require Import Common.Prelude RateLimiter.Model.\nOpen Scope Z_scope.'


class _Ref:   # schedule enumeration only
    def __init__(self, c, w):
        self.c, self.w, self.now, self.items, self.waiters, self.n, self.inside = c, w, 0, [], {}, 0, []

    def copy(self):
        r = _Ref(self.c, self.w)
        r.now, r.items, r.waiters, r.n, r.inside = self.now, list(self.items), dict(self.waiters), self.n, list(self.inside)
        return r

    def _attempt(self, i):
        while self.items and self.items[0] <= self.now - self.w:
            self.items.pop(0)
        if len(self.items) < self.c:
            self.items.append(self.now)
            self.inside.append(i)
        else:
            self.waiters[i] = (self.items[0] if self.items else 0) + self.w

    def do(self, a):
        if a[0] == 'enter':
            self._attempt(self.n)
            self.n += 1
        elif a[0] == 'wake':
            i = a[1]
            if i in self.waiters and self.waiters[i] <= self.now:
                del self.waiters[i]
                self._attempt(i)
        elif a[0] == 'leave':
            if a[1] in self.inside:
                self.inside.remove(a[1])
        elif a[0] == 'abandon':
            self.waiters.pop(a[1], None)
        else:
            self.now += max(0, a[1])

    def due(self):
        return [i for i, t in sorted(self.waiters.items()) if t <= self.now]


KINDS = ['normal', 'raise', 'cancel', 'timeout']


def enum_schedules(c, w, max_entrants, depth, steps, exits=()):
    """exits = the kinds of body exit to enumerate (for every entrant inside a body); with exits, a sleeper may also be
    abandoned."""
    out = []

    def rec(ref, acts, left):
        if left == 0:
            out.append(acts)
            return
        opts = [['enter']] if ref.n < max_entrants else []
        opts += [['wake', i] for i in ref.due()]
        opts += [['leave', i, k] for i in ref.inside for k in exits]
        if exits:
            opts += [['abandon', i] for i in sorted(ref.waiters)]
        if acts and acts[-1][0] == 'adv':
            pass                     # two advances in a row are one advance
        else:
            opts += [['adv', d] for d in steps]
        if not opts:
            out.append(acts)
            return
        for a in opts:
            r2 = ref.copy()
            r2.do(a)
            rec(r2, acts + [a], left - 1)
    rec(_Ref(c, w), [], depth)
    return out


def random_schedule(rng, c, w, n):
    ref = _Ref(c, w)
    acts = []
    for _ in range(n):
        x = rng.random()
        due = ref.due()
        y = rng.random()
        if y < 0.14 and ref.inside:
            a = ['leave', rng.choice(ref.inside), rng.choice(KINDS)]      # a body ends: returns / raises / is cancelled / times out
        elif y < 0.17 and ref.waiters:
            a = ['abandon', rng.choice(sorted(ref.waiters))]               # a sleeper is cancelled inside __aenter__
        elif y < 0.19:
            a = rng.choice([['leave', rng.randint(0, ref.n + 1), rng.choice(KINDS)], ['abandon', rng.randint(0, ref.n + 1)]])   # maybe not inside / not sleeping: ignored on both sides
        elif x < 0.35:
            a = ['enter']
        elif x < 0.65 and due:
            a = ['wake', rng.choice(due)]
        elif x < 0.70:
            a = ['wake', rng.randint(0, ref.n + 1)]          # maybe not due / not waiting: ignored on both sides
        elif x < 0.73:
            a = ['adv', -rng.randint(0, 3)]                   # the clock never goes back: ignored on both sides
        else:
            nxt = min(ref.waiters.values()) - ref.now if ref.waiters else 0
            a = ['adv', rng.choice([1, 1, 2, w // 4 or 1, w // 2 or 1, w, w + 1, max(1, nxt), max(1, nxt - 1), max(1, nxt + 1)])]
        ref.do(a)
        acts.append(a)
    return {'count': c, 'window': w, 'acts': acts}


def corpus_schedules():
    out = []
    for f in sorted(glob.glob(os.path.join(os.path.dirname(__file__), '..', '..', 'corpus', ID, '*.json'))):
        for d in json.load(open(f)):
            out.append({'count': d['count'], 'window': d['window'], 'acts': d['acts']})
    return out


def all_schedules(ctx):
    out = [('corpus', s) for s in corpus_schedules()]
    d = ctx.scale(8, 10)
    for c in (1, 2, 3):
        out += [(f'exhaustive count{c} window4 steps1,3,4', {'count': c, 'window': 4, 'acts': a})
                for a in enum_schedules(c, 4, c + 3, d if c < 3 else d - 1, [1, 3, 4])]
    # body exits: every admitted entrant may leave its body at any point, in each of the four manners; sleepers may be cancelled
    for c in (1, 2):
        out += [(f'exhaustive-with-exits count{c} window4 steps1,4', {'count': c, 'window': 4, 'acts': a})
                for a in enum_schedules(c, 4, c + 2, ctx.scale(7 - c, 8 - c), [1, 4], exits=KINDS)]
    for k in range(ctx.scale(300, 4000)):
        c = ctx.rng.choice([1, 1, 2, 3, 5, 10])
        w = ctx.rng.choice([1, 4, 4, 8, 12, 240])
        out.append(('random', random_schedule(ctx.rng, c, w, ctx.rng.choice([15, 40, 80, ctx.scale(100, 200) if k % 10 == 0 else 50]))))
    return out


def coq_actions(acts):
    items = []
    for a in acts:
        if a[0] == 'enter':
            items.append('Enter')
        elif a[0] == 'wake':
            items.append(f'Wake {a[1]}%nat')
        elif a[0] == 'leave':
            items.append(f'Leave {a[1]}%nat {a[2].capitalize()}')
        elif a[0] == 'abandon':
            items.append(f'Abandon {a[1]}%nat')
        else:
            items.append(f'Advance {zlit(a[1])}')
    return listlit(items)


_P = 2305843009213693951


def fingerprint(trace):
    h = 7
    for o in trace:
        xs = [o['now'], len(o['items'])] + list(o['items']) + [len(o['waiters'])]
        for i, t in sorted(o['waiters']):
            xs += [i, t if t is not None else -1]
        last = o['adm'][-1:]
        xs += [len(o['adm']), len(last)]
        for i, t in last:
            xs += [i, t]
        xs += [len(o['inside'])] + list(o['inside'])
        for x in xs:
            h = (h * 131 + x + 7) & _P
    return h


def encode(acts):
    z = 0
    for k, a in enumerate(acts):
        if a[0] == 'enter':
            d = 1
        elif a[0] == 'wake':
            d = 2 + 4 * a[1]
        elif a[0] == 'leave':
            d = 4 * (8 * a[1] + KINDS.index(a[2]))
        elif a[0] == 'abandon':
            d = 4 * (8 * a[1] + 4)
        else:
            assert -512 <= a[1] < 2 ** 17
            d = 3 + 4 * (a[1] + 512)
        assert 0 <= d < 2 ** 20 and (a[0] == 'enter' or a[1] >= 0 or a[0] == 'adv')
        z |= d << (20 * k)
    return z


def model_fingerprints(ctx, schedules):
    # interleave long and short schedules so that the shards cost about the same
    exprs = [f'fingerprint {zlit(s["window"])} {zlit(s["count"])} (decode {len(s["acts"])} {encode(s["acts"])})' for s in schedules]
    order = sorted(range(len(exprs)), key=lambda k: -len(schedules[k]['acts']))
    n_sh = 8
    perm = [k for r in range(n_sh) for k in order[r::n_sh]]            # round-robin by decreasing length
    vals = coq_eval(ctx, HEADER, [exprs[k] for k in perm], shard=(len(exprs) + n_sh - 1) // n_sh, label='fp')
    out = [None] * len(exprs)
    for k, v in zip(perm, vals):
        out[k] = v
    return out


def model_traces(ctx, schedules):
    exprs = [f'trace {zlit(s["window"])} {zlit(s["count"])} (init 0) {coq_actions(s["acts"])}' for s in schedules]
    vals = coq_eval(ctx, HEADER, exprs, shard=100)
    return [[{'now': o['now'], 'items': list(o['items']), 'waiters': sorted([list(x) for x in o['waiters']]),
              'adm': [list(x) for x in o['adm']], 'inside': list(o['inside'])} for o in tr] for tr in vals]


def impl_results(ctx, schedules):
    return ctx.run_impl('c24_ratelimit.py', {'schedules': schedules}, timeout=900)['results']


def correspond(ctx):
    tagged = all_schedules(ctx)
    schedules = [s for _, s in tagged]
    impl = impl_results(ctx, schedules)
    ctx._c24_cache = (tagged, impl)
    fps = model_fingerprints(ctx, schedules)
    differing = [k for k, (fp, r) in enumerate(zip(fps, impl)) if fp != fingerprint(r['trace'])]
    differing.sort(key=lambda k: len(schedules[k]['acts']))
    full = dict(zip(differing[:30], model_traces(ctx, [schedules[k] for k in differing[:30]])))
    dis, hist, n_obs, nontrivial = [], {}, 0, set()
    for k, ((tag, s), r) in enumerate(zip(tagged, impl)):
        hist[tag] = hist.get(tag, 0) + 1
        n_obs += len(r['trace'])
        if any(o['waiters'] for o in r['trace']):
            nontrivial.add(str(s))
    for k in differing:
        s, r = schedules[k], impl[k]
        if k in full:
            m = full[k]
            j = next((j for j, (x, y) in enumerate(zip(m, r['trace'])) if x != y), min(len(m), len(r['trace'])))
            dis.append(Disagreement('RateLimiter.trace~RateLimiter.__aenter__', {'schedule': s, 'first_diff_after_action': j},
                                    m[j] if j < len(m) else None, r['trace'][j] if j < len(r['trace']) else None))
        else:
            dis.append(Disagreement('RateLimiter.trace~RateLimiter.__aenter__', {'schedule': s}, 'fingerprint differs', r['trace'][-1] if r['trace'] else None))
    return Corr(evaluations=len(schedules), distinct_nontrivial=len(nontrivial),
                rule='one evaluation = one schedule run on the real RateLimiter (virtual clock, hand-fired timers) and on the Coq model (vm_compute; '
                     'fingerprint of the whole trace, differing schedules re-evaluated in full); now, deque, every sleeper\'s timer, the admission '
                     f'log and the entrants inside a body compared after EVERY action ({n_obs} observations); non-trivial = distinct schedule in which somebody had to sleep',
                samples=[{'schedule': s, 'final': r['trace'][-1] if r['trace'] else None} for (_, s), r in list(zip(tagged, impl))[:1] + list(zip(tagged, impl))[-2:]],
                disagreements=dis, histograms={'schedule_class': hist}, exhaustive=True,
                names=['RateLimiter.trace~RateLimiter.__aenter__'])


WHAT = {
    'window': 'more than `count` admissions fall into one half-open window of the configured length',
    'not-prompt': 'an entrant was kept waiting although admitting it would have kept the bound (sent to sleep while admissible, timer later than the first instant a slot frees, or never admitted)',
    'livelock': 'the limiter spins: a retry loop never suspends at a fixed clock value',
    'raised': '__aenter__/__aexit__ raised, swallowed the exception of the body, or a body exit did not end the entrant',
}


def _failures(tagged, impl):
    fails = []
    for (tag, s), r in zip(tagged, impl):
        for v in r['viol']:
            fails.append(Failure(v['kind'], WHAT.get(v['kind'], v['kind']), s, None, v))
    fails.sort(key=lambda f: (f.key, len(f.case['acts'])))
    return fails


def oracle(ctx, budget):
    cache = getattr(ctx, '_c24_cache', None)
    if cache is None or budget > 1:
        tagged = all_schedules(ctx)
        if budget > 1:
            for k in range(ctx.scale(500, 3000) * budget):
                tagged.append(('random', random_schedule(ctx.rng, ctx.rng.choice([1, 2, 3]), ctx.rng.choice([2, 4, 8]), ctx.rng.choice([8, 15, 30]))))
        impl = impl_results(ctx, [s for _, s in tagged])
    else:
        tagged, impl = cache
    fails = _failures(tagged, impl)
    return fails, {'evaluations': len(tagged), 'distinct_nontrivial': len({str(s) for _, s in tagged}),
                   'rule': 'oracle (admission log only): every window [a, a+window) starting at an admission holds <= count admissions; an entrant sent to '
                           'sleep was inadmissible and its timer is the (count-th most recent admission) + window; end game with asyncio\'s own timers: '
                           'everybody admitted, each exactly when a slot freed; admissions are counted when __aenter__ returns and stay counted however '
                           'the body ends (return / exception / task.cancel() / asyncio.timeout expiry are schedule actions); the body\'s own exception must come out unchanged',
                   'samples': [{'schedule': tagged[0][1], 'violations': impl[0]['viol']}] if tagged else []}


def replay(ctx, doc):
    c = doc.get('case')
    s = c['schedule'] if isinstance(c, dict) and 'schedule' in c else c
    r = impl_results(ctx, [s])[0]
    m = model_traces(ctx, [s])[0]
    return {'schedule': s, 'impl_final': r['trace'][-1] if r['trace'] else None, 'impl_property_violations': r['viol'],
            'model_final': m[-1] if m else None, 'traces_equal': m == r['trace']}
