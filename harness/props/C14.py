"""C14 — batch API access control (batch/batch/front_end/front_end.py routes + gear/gear/auth.py decorators).

Tie: T + X.
  T  harness/translate/c14_routes.py walks front_end.py and regenerates the route table (verb, path, decorator guards,
     dominating owner filter of the handler body) as coq/generated/C14/Gen.v; Routes/Lemmas.v closes the finite table by
     vm_compute and lifts it to the quantified theorems.
  X  the REAL handlers (full decorator stacks, as registered by the real run()) and the REAL gear.auth decorators are
     driven with fake requests, a fake auth service and a fake database for all 16 caller kinds x 4 (owner, member)
     contexts: (a) registered route set = translated route set, (b) every decorator expression = its Coq guard,
     (c) per route: the code's access decision = Coq `allows`.
Oracle: the property itself on the implementation — every (route, caller, ctx) the path-derived policy refuses must end in
an HTTP error attributable to an access check with no database write, for every database-answer sequence explored.

List endpoints (jobs / job groups / batches listings; harness/translate/c14_lists.py, c14_lists_plug.py, harness/impl/c14_lists.py,
coq/theories/Routes/ListModel.v + ListLemmas.v): their scope is ONE conjunct of a WHERE clause assembled as text from the search terms.
  T  the builders (query_v1.py, query_v2.py, the two inline builders of front_end.py) are translated, fail-closed, into
     coq/generated/C14/Lists.v: scope conjuncts, per-branch term conditions, negation / bracket wrappers, as item lists (brackets
     resolved, AND/OR/NOT kept, atoms opaque); ListLemmas.v proves for ALL term lists that the clause read with SQL precedence implies
     the scope conjuncts.
  X  every statement the REAL builders emit for the enumerated query language has exactly the structure of the generated model
     (v1_where / v2_where evaluated by vm_compute), and ListModel.run agrees with the minisql expression parser (MySQL precedence).
  Oracle  the real listing handlers, full decorator stacks, on a 7-batch / 4-billing-project minisql database: every fetched row and
     every listed entry must belong to the URL's batch / job group and to a billing project of the caller.
Billing read paths (GET /billing, /billing_limits, /billing_projects, /api/v1alpha/billing_projects[/{billing_project}]): same machinery.
  T  _query_billing (front_end.py) and query_billing_projects_with/without_cost (utils.py), incl. if / elif / else chains of optional
     appends, -> C14.Lists.billing_init / bp_with_cost_init / bp_without_cost_init (flags = presence of end / user / billing project);
     theorems: whenever a user is passed, the clause implies the user conjunct WHATEVER the other optional filters are.
  X  the statement each real handler (full stack) issues for every caller kind (member, non-member, developer, auth service) x start x
     end / x billing project = the generated builder for the flags that caller kind and request determine (non-developer => user
     passed), and the scope atoms are bound to the caller / the project of the URL.
  Oracle  the same runs on the minisql world: an unprivileged caller is shown spend rows of his own user and projects he is in only.
"""
import json
import os

from harness.core import Corr, Disagreement, Failure, TieBroken, coq_eval, VERIF
from harness.translate.c14_routes import Translator, coq_guard, segs
from harness.translate import c14_lists_plug as lists

ID = 'C14'
SRC = 'batch/batch/front_end/front_end.py'
COQ_PROPS = 'theories/Routes/Props_C14.v'
READY = True
META = dict(
    design_ref='§5.E C14',
    technique='Coq proof over a finite route table regenerated from the source by a fail-closed AST translator (vm_compute + '
              'forallb_forall), decorator/route semantics validated against the real handlers run with fake requests',
    level_text='Machine-checked (Coq 8.16, no axioms): for every route of the table regenerated from front_end.py (68 routes incl. the '
               'static directory and /metrics) except GET /metrics, and every one of 16 caller kinds x 4 (owner, member) contexts, '
               'if the decorator stack and the dominating owner filter let the request through then the path-derived policy of the '
               'property does (public whitelist; authenticated+active otherwise; member for read/cancel/delete; owner for '
               'add/commit/close; developer-or-auth for billing administration), and a refused request leaves the state unchanged. '
               'The literal property is proved FALSE for GET /metrics (known finding). The tie runs the real handlers and the real '
               'gear.auth decorators for all 64 combinations per route. '
               'LIST ENDPOINTS (jobs, job groups, batches, completed batches, jobs-for-billing listings; query languages v1 and v2): for the '
               'WHERE-clause builders regenerated from query_v1.py / query_v2.py / front_end.py, for EVERY list of search terms (every branch of '
               'the term chain, any number of states of a state keyword, negated or not; for v2 ANY conditions returned by the Query classes), '
               'every paging / recursion flag, and every text with the same top-level operands and keywords (atoms and bracket contents '
               'arbitrary), the clause read with SQL precedence (OR < AND < NOT) is true only if the scope conjuncts are: jobs.batch_id = URL '
               'batch AND committed AND job group (or descendant) of the URL; billing_project_users.user = caller (v1: AND its project = the '
               'batch\'s); job_groups.batch_id = URL batch AND child of the URL group. An unbracketed OR-join is proved to leak '
               '(C14_unbracketed_or_leaks). BILLING READ PATHS (GET /billing, /billing_limits, /billing_projects, /api/v1alpha/billing_projects'
               '[/{billing_project}]): for the builders regenerated from _query_billing and query_billing_projects_with/without_cost, '
               'whenever the handler passes a user, for EVERY combination of the other optional filters (end date given or not; billing '
               'project given or not) the clause is true only for rows with `user` = that user / projects whose member list contains him '
               '(and = the project of the URL when one is given); a user conjunct appended only in an elif is proved to leak '
               '(C14_user_filter_in_elif_leaks).',
    level_note='Partial: the owner / membership filters are recognised syntactically (SQL text `user = %s` / `user_cs = %s` bound to the '
               'caller, result tested before any other database access); the database and the auth service are fakes; HAIL_TERRA '
               'single-tenant mode is excluded. List endpoints: proved = the boolean structure of the emitted WHERE text implies the scope '
               'conjuncts; only checked by the run (real handlers on a minisql database, every search term of both query languages alone / '
               'negated / in sampled combinations, 3 callers x 7 batches): that the `%s` of the scope atoms are bound to the URL batch / '
               'the caller, the JOIN conditions (v2 batch listing: membership row joined on the batch\'s billing project), what the Query '
               'classes of query.py put inside their brackets, the response conversion, and that ListModel.run is MySQL\'s precedence '
               '(compared with the minisql expression parser on every emitted clause). Billing read paths: that every caller who is '
               'neither a developer nor (REST) the auth service makes the handler pass his own user name is NOT proved; it is checked on '
               'the real handlers for 6 caller kinds x 4 start x 6 end values and x 7 billing projects (statement = generated builder for '
               'the expected flags, scope atom bound to the caller), and by the row-level oracle.',
    partial=True,
)
TRUSTED = ['translator harness/translate/c14_routes.py (Python ast -> route table; syntactic SQL filter recognition)',
           'harness/impl/c14_routes.py: fake aiohttp requests (aiohttp.test_utils.make_mocked_request), fake auth service, fake '
           'database that answers user-filtered SELECTs from a one-batch world and scripts the others',
           'loader stubs for aiohttp_session (get_session replaced by a dict), jinja2/sass (UI rendering is not exercised)',
           'translator harness/translate/c14_lists.py (Python ast of the query builders -> item lists; SQL text -> bracket tree with '
           'opaque atoms: a maximal keyword-free chunk that is not a single bracket group)',
           'harness/minisql + harness/batchdb/fakedb.py as the database of the list oracle; harness/impl/c14_lists.py rewrite_sql (CTE '
           'inlined as derived table, SELECT STRAIGHT_JOIN hint dropped, `(a, b) IN (SELECT c1, c2 FROM t WHERE w)` -> EXISTS, JOIN USING '
           '-> ON, JSON_EXTRACT(doc, \'$[0]\') / JSON_QUOTE / JSON_CONTAINS(array, scalar) / aggregate JSON_ARRAYAGG supplied in Python, a '
           'midnight datetime.datetime parameter passed as datetime.date, hailtop parse_timestamp_msecs replaced by datetime.fromisoformat); '
           'render_template replaced by a capture of the page context']
ASSUMPTIONS = ['AuthServiceAuthenticator mode (HAIL_TERRA unset); a caller is (authenticated, active, developer, username == auth)',
               'ownership = batches.user, membership = billing_project_users row of the batch\'s billing project, as seen by the SQL filters',
               'the aiohttp middlewares (CSRF, frozen, metrics) and the gateway are outside the model']

PUBLIC = {('GET', '/healthcheck'), ('GET', '/api/v1alpha/version'), ('GET', '/api/v1alpha/cloud'), ('GET', '/swagger'),
          ('GET', '/openapi.yaml'), ('GET', '/tos'), ('GET', '/privacy'), ('GET', '/batch/static/js/{filename}'),
          ('STATIC', '/common_static')}


def norm(path):
    return '/' + '/'.join(segs(path))


def policy(method, path, caller, cx):
    """The property's statement, from verb and path only (Python twin of Routes.Model.policy, used by the oracle)."""
    path = norm(path)
    if (method, path) in PUBLIC:
        return True, None
    authenticated, active, developer, is_auth = caller
    owner, member = cx
    if not authenticated:
        return False, 'unauthenticated'
    if not active:
        return False, 'inactive'
    s = segs(path)
    if '{batch_id}' in s:
        if method in ('GET', 'HEAD', 'DELETE') or s[-1] in ('cancel', 'delete'):
            return (True, None) if member else (False, 'non-member')
        return (True, None) if owner else (False, 'non-owner')
    if ('billing_projects' in s or 'billing_limits' in s) and method not in ('GET', 'HEAD'):
        return (True, None) if (developer or is_auth) else (False, 'non-developer')
    return True, None


RANK = {'unauthenticated': 0, 'inactive': 1, 'non-member': 2, 'non-owner': 2, 'non-developer': 2}


def _translate(ctx):
    if getattr(ctx, '_c14_tr', None) is None:
        tr = Translator(ctx.read_repo(SRC), ctx.read_repo)
        text, routes = tr.emit(SRC)
        ctx._c14_tr = (tr, text, routes)
    return ctx._c14_tr


def generate(ctx):
    # both translators run even when one fails closed, so that neither generated file is stale
    try:
        tr, text, routes = _translate(ctx)
        ctx.write_generated('Gen.v', text)
        for n in tr.notes:
            ctx.notes.append(n)
    finally:
        lists.generate(ctx)          # coq/generated/C14/Lists.v: the WHERE-clause builders of the listing endpoints


def _impl_run(ctx, depth=3):
    cache = getattr(ctx, '_c14_run', {})
    if depth not in cache:
        # depth 3: the all-routes run of the tie and the oracle; depth 5 (failing-input search and thorough tier): deeper database
        # scripts, plus ordinary accounts whose names a sloppy comparison could confuse with the auth service account
        cache[depth] = ctx.run_impl('c14_routes.py', {'mode': 'run', 'explore': True, 'depth': depth, 'lookalikes': depth >= 5},
                                    timeout=900)['result']
        ctx._c14_run = cache
    return cache[depth]


HEADER = ('From Coq Require Import List Bool String. From HailV Require Import Routes.Model. From HailG Require Import C14.Gen. '
          'Import ListNotations.')
CX = [((a, b, c, d), (o, m)) for a in (False, True) for b in (False, True) for c in (False, True) for d in (False, True)
      for o in (False, True) for m in (False, True)]


def correspond(ctx):
    tr, text, routes = _translate(ctx)
    dis = []
    # (a) route set
    t_set = {(r['verb'], norm(r['path'])) for r in routes}
    impl = _impl_run(ctx)
    i_set = {(r['method'], norm(r['path'])) for r in impl}
    if t_set != i_set:
        dis.append(Disagreement('route-set: translated table ~ routes registered by the real run()',
                                {'only_in_source_table': sorted(t_set - i_set), 'only_registered': sorted(i_set - t_set)},
                                sorted(t_set - i_set), sorted(i_set - t_set)))
    # (b) decorator semantics
    exprs, guards = [], []
    for r in routes:
        for text_d, g in zip(r['decorators'], r['guards']):
            if text_d not in exprs:
                exprs.append(text_d)
                guards.append(g)
    dec_impl = ctx.run_impl('c14_routes.py', {'mode': 'decorators', 'exprs': exprs}, timeout=300)['result']
    dec_model = coq_eval(ctx, HEADER, [f'map (fun cx => eval_guard {coq_guard(g)} (fst cx) (snd cx)) all_cx' for g in guards], label='dec')
    n_dec = 0
    for e, g, m in zip(exprs, guards, dec_model):
        rows = dec_impl[e]
        for k, (row, mv) in enumerate(zip(rows, m)):
            n_dec += 1
            assert (tuple(row['caller']), tuple(row['ctx'])) == CX[k]
            if row['ran'] != mv or row['ran'] != row['ran_any']:
                dis.append(Disagreement('decorator-semantics: real decorator ~ Coq guard', {'decorator': e, 'caller': row['caller'], 'ctx': row['ctx']},
                                        mv, {'handler_ran': row['ran'], 'outcome': row['out']}))
    # (c) per-route access decision
    model = coq_eval(ctx, HEADER, ['map (fun r => map (fun cx => allows r (fst cx) (snd cx)) all_cx) routes'], label='routes')[0]
    by_key = {}
    for r in impl:
        by_key.setdefault((r['method'], norm(r['path'])), r)
    n_route = 0
    hist = {}
    stricter = []
    for r, mrow in zip(routes, model):
        ir = by_key.get((r['verb'], norm(r['path'])))
        if ir is None:
            continue
        for k, mv in enumerate(mrow):
            caller, cx = CX[k]
            if ir['static']:
                iv, outs = True, ['static']
            else:
                cs = [c for c in ir['cases'] if tuple(c['caller']) == caller and tuple(c['ctx']) == cx]
                iv = any(not c['denied'] for c in cs)
                outs = sorted({c['outcome'] for c in cs})
                for c in cs:
                    o = c['outcome'].split(':')[0] + (':' + c['outcome'].split(':')[1] if c['outcome'].startswith('http') else '')
                    hist[o] = hist.get(o, 0) + 1
            n_route += 1
            if mv and not iv:
                # the model over-approximates: the handler refuses more than the table says (e.g. the billing-project
                # membership test of create / create-fast on the project named in the request body). Not needed for
                # `code lets through -> policy`, recorded for information.
                stricter.append([r['verb'], r['path'], list(caller), list(cx), outs])
            if iv and not mv:
                dis.append(Disagreement('route-decision: real handler stack ~ Coq allows',
                                        {'method': r['verb'], 'path': r['path'], 'handler': r['name'], 'caller': list(caller), 'ctx': list(cx)},
                                        mv, {'let_through': iv, 'outcomes': outs}))
    n_cases = sum(len(r['cases']) for r in impl)
    nontriv = sum(1 for r in routes if (r['verb'], norm(r['path'])) not in PUBLIC) * len(CX)
    lc = lists.correspond(ctx)
    return Corr(evaluations=n_dec + n_cases, distinct_nontrivial=nontriv,
                rule=f'exhaustive: {len(routes)} routes x 16 callers x 4 contexts (non-trivial = route not in the public whitelist), each run '
                     f'for every request body variant and every explored database-answer sequence (depth 3): {n_cases} real handler runs; '
                     f'{len(exprs)} distinct decorator expressions x 64 combinations x 2 path styles on the real decorators',
                samples=[{'route': [r['verb'], r['path']], 'decorators': r['decorators'], 'body_guard': coq_guard(r['body'])}
                         for r in routes if r['body'] != ('GTrue',)][:3],
                disagreements=dis, histograms={'outcome': dict(sorted(hist.items())), 'n_routes': len(routes),
                                               'code_refuses_more_than_model': {'count': len(stricter), 'routes': sorted({f'{a} {b}' for a, b, *_ in stricter})}},
                exhaustive=True, names=['route-set', 'decorator-semantics', 'route-decision (code lets through -> model allows)']).merge(lc)


def _failures(impl):
    """One Failure per route: the least privileged caller class the policy refuses but the code lets through."""
    worst = {}
    n = 0
    for r in impl:
        for c in r['cases']:
            n += 1
            ok, cls = policy(r['method'], r['path'], c['caller'], c['ctx'])
            if ok or c['denied']:
                continue
            k = (r['method'], norm(r['path']))
            if k not in worst or RANK[cls] < RANK[worst[k][0]]:
                worst[k] = (cls, r, c)
    fails = []
    for (m, p), (cls, r, c) in sorted(worst.items()):
        fails.append(Failure(f'{m} {p}|{cls}',
                             f'{m} {p} ({r["name"]}): a {cls} caller is not refused (outcome {c["outcome"]})',
                             {'method': m, 'path': r['path'], 'caller': c['caller'], 'ctx': c['ctx'], 'body': c['body'], 'answers': c['answers'],
                              **({'username': c['username']} if 'username' in c else {}),
                              'caller_fields': ['authenticated', 'active', 'developer', 'username==auth'], 'ctx_fields': ['owner', 'member']},
                             'HTTP 401/403/404 or login redirect raised by an access check, no database write',
                             {'outcome': c['outcome'], 'handler_body_reached': c['body_reached'], 'user_filter_came_back_empty': c['filter_denied'],
                              'wrote': c['wrote'], 'db_log': c['log']}))
    return fails, n


def oracle(ctx, budget):
    impl = _impl_run(ctx, 3 if budget <= 1 and not ctx.thorough else 5)
    fails, n = _failures(impl)
    refused = sum(1 for r in impl for c in r['cases'] if not policy(r['method'], r['path'], c['caller'], c['ctx'])[0])
    lfails, lstats = lists.oracle(ctx, budget)
    fails = fails + lfails
    return fails, {'evaluations': n + lstats['evaluations'], 'distinct_nontrivial': refused + lstats['distinct_nontrivial'],
                   'rule': 'oracle: real handler runs whose (route, caller, ctx) the policy refuses (non-trivial) must end in an access-check '
                           'error without a database write | ' + lstats['rule'],
                   'list_status_histogram': lstats['status_histogram'],
                   'samples': [{'case': f.case, 'observed': f.observed} for f in fails[:2]]}


def replay(ctx, doc):
    case = doc.get('case') or doc
    if case.get('list'):
        return lists.replay(ctx, doc)
    res = ctx.run_impl('c14_routes.py', {'mode': 'run', 'explore': True, 'depth': 5, 'routes': [[case['method'], case['path']]],
                                         'callers': [[case['caller'], case['ctx']]], 'lookalikes': 'username' in case}, timeout=300)['result']
    out = []
    for r in res:
        for c in r['cases']:
            ok, cls = policy(r['method'], r['path'], c['caller'], c['ctx'])
            if case.get('username') != c.get('username'):
                continue
            out.append({'route': [r['method'], r['path']], 'handler': r['name'], 'caller': c['caller'], 'username': c.get('username'), 'ctx': c['ctx'], 'body': c['body'],
                        'answers': c['answers'], 'policy_allows': ok, 'refusal_class': cls, 'outcome': c['outcome'], 'denied': c['denied'],
                        'violates': (not ok) and (not c['denied']), 'db_log': c['log']})
    return {'case': case, 'runs': out, 'violations': [o for o in out if o['violates']]}
