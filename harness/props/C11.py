"""C11 — fair-share allocation is max-min fair (batch/batch/driver/instance_collection/pool.py::PoolScheduler._compute_fair_share).

Tie: X.  coq/theories/FairShare/Model.v is a hand model of the water-filling loop (one `step` per iteration of the
`while`, the two SortedSets as sorted lists with insort_right, the same `mark`, exact integer models of the two
`int(... + 0.5)` roundings); the theorems of Props_C11.v are proved about it for ALL user lists and ALL free amounts.
Every run executes the REAL method (imported through the loader, the database replaced by an async generator of
rows, real sortedcontainers) and the model (vm_compute) on the same inputs and compares every user's allocation.
The oracle evaluates the property's clauses directly on the real method's output.

The caller PoolScheduler.compute_fair_share (which supplies 'the free cores') is covered too: FairShare/Caller.v models
the healthy set (Pool.adjust_for_add_instance's guard) and the un-clamped sum over it; Props_C11.v lifts the theorems to
`compute_fair_share` on ANY list of instances (C11_caller_*).  Tie: generate() checks that the two code fragments still
have the transcribed shape (fail closed), and correspond() runs the real Pool.add_instance + compute_fair_share on real
Pool/Instance/PoolScheduler objects (harness/impl/c11_caller.py) against the model: free amount handed to
_compute_fair_share, membership of the healthy set, every allocation.  The oracle reads the schedulable free cores from the
instances' own fields (active, < 2 failed requests; and current version for the stricter clause) and evaluates the
property's clauses with that amount.  Open finding: healthy workers of an OLDER version are counted
(key caller-counts-old-version-workers; C11_caller_total_le_placeable_refuted / _partial).
"""
import glob
import itertools
import json
import os

from harness.core import Corr, Disagreement, Failure, TieBroken, coq_eval, zlit, listlit

ID = 'C11'
SRC = 'batch/batch/driver/instance_collection/pool.py'
COQ_PROPS = 'theories/FairShare/Props_C11.v'
READY = True
META = dict(
    design_ref='§5.B C11',
    technique='Coq proof (loop invariant + termination measure) about a hand model of the water-filling loop; model tied to the '
              'real method by differential execution (exhaustive small multisets + seeded random up to 200 users / 1e9 mcpu, '
              'ties and rounding boundaries oversampled); the caller compute_fair_share: Coq model of the healthy set + un-clamped sum, '
              'lifted theorems, AST-shape check (fail closed) + differential execution of the real Pool.add_instance/compute_fair_share on '
              'real Pool/Instance objects with healthy / unhealthy / oversubscribed / non-active / old-version workers',
    level_text='Machine-checked theorems (Coq 8.16, closed under the global context), for every list of users with non-negative '
               'running/ready cores (all multisets, every arrival order) and every integer amount of free cores incl. zero/negative: '
               'the loop terminates; allocation <= ready demand; allocation >= 0; 2*sum <= 2*max(0,free) + #users with a positive '
               'allocation (slack of half a millicore per served user, shown attained); free <= 0 gives all zeros; if demand >= free > 0 '
               'then 2*sum > 2*free - #users; if demand <= free everybody gets its demand; there is one water level L with '
               'alloc(u) = max(0, min(ready u, L - running u)); pairwise max-min fairness with no slack. The model is a hand '
               'transcription; its equality with the real method is checked by execution on every run, not proved. '
               'CALLER (PoolScheduler.compute_fair_share), proved for every list of instances (any state, failed-request count, version, '
               'free cores incl. negative) and every such user list: the free amount of the model equals the sum of free_cores_mcpu '
               '(negative included, not clamped) over the instances that are active with <= 1 failed requests; 2*sum of allocations <= '
               '2*max(0, that amount) + #served users; nothing is allocated when that amount is <= 0; work conservation w.r.t. that amount; '
               'instances outside the healthy set and the order of the instances have no influence. The version-aware bound (only workers '
               'of the current INSTANCE_VERSION can receive jobs) is proved under the hypothesis that all healthy workers run the current '
               'version (_partial) and REFUTED without it (_refuted, open finding caller-counts-old-version-workers). Only run-checked, not '
               'proved: that the model of the caller (healthy-set guard, sum) equals the real code (AST shape of compute_fair_share and of '
               'Pool.adjust_for_add_instance compared with the transcribed statements on every run + execution on generated pools); the '
               'incremental maintenance of the healthy set over the life of a pool (adjust_for_remove_instance around Instance.mark_healthy / '
               'incr_failed_request_count / adjust_free_cores_in_memory / activate / deactivate) is NOT covered: pools are built by add_instance only.',
    level_note='Trusted: Coq kernel; the correspondence run (loader, fake db row generator, CPython float semantics); the two float '
               'roundings int(k+0.5) and int(a/n+0.5) are modelled by exact integer formulas, validated on every run at generated '
               'boundary points (a = q*n + n/2 +- 1 up to 2^50) but not proved for binary64.',
    partial=False,
)
TRUSTED = ['hand model coq/theories/FairShare/Model.v of _compute_fair_share, tied by differential execution only',
           'loader (stubbed third-party packages) + fake db.execute_and_fetchall (async generator of dict rows) + real sortedcontainers',
           'CPython 3.12 float arithmetic as the semantics of int(x + 0.5)',
           'hand model coq/theories/FairShare/Caller.v of compute_fair_share + the healthy-set guard, tied by an AST-shape comparison and '
           'differential execution (harness/impl/c11_caller.py: real Pool / Instance / PoolScheduler objects created without __init__, '
           'real add_instance path, recording subclass for the argument of _compute_fair_share)']
ASSUMPTIONS = ['running_cores_mcpu and ready_cores_mcpu are non-negative integers and user names are distinct (GROUP BY user)',
               'float exactness: for 0 <= k < 2^52, int(k + 0.5) = k and for 0 < a < 2^50, 0 < n <= a: int(a/n + 0.5) = floor((2a+n)/(2n)); '
               'validated at boundary points on every run, not proved',
               'free_cores_mcpu is an integer (sum of integer worker.free_cores_mcpu)',
               'caller: the healthy set holds exactly the instances that passed the guard of Pool.adjust_for_add_instance when added '
               '(state and failed_request_count do not change afterwards without the set being updated) - the maintenance of the set is '
               'outside this property']

HEADER = ('From HailV Require Import Common.Prelude FairShare.Model. Open Scope Z_scope.\n'
          'Definition fs (us : list (Z*Z*Z)) (f : Z) := option_map (map (fun p : (Z*Z*Z)*Z => (fst (fst (fst p)), snd p))) '
          '(fair_share (fun u => snd (fst u)) (fun u => snd u) us f).')

BIG = 10 ** 9


# ------------------------------------------------------------------------------------------------ case generation

def _corpus_docs():
    for p in sorted(glob.glob(os.path.join(os.path.dirname(__file__), '..', '..', 'corpus', ID, '*.json'))):
        doc = json.load(open(p))
        for c in doc.get('cases', [doc.get('case')] if doc.get('case') else []):
            yield c


def _corpus():
    """[users, free] cases for _compute_fair_share (caller cases are dicts, see _caller_corpus)"""
    out = []
    for c in _corpus_docs():
        if isinstance(c, dict):
            continue
        out.append([[list(u) for u in c[0]], int(c[1])])
    return out


def _small_scope(max_users, vals, frees):
    """all multisets of <= max_users users over vals x vals, times all frees"""
    kinds = [(a, b) for a in vals for b in vals]
    out = []
    for k in range(0, max_users + 1):
        for ms in itertools.combinations_with_replacement(kinds, k):
            for f in frees:
                out.append([[list(u) for u in ms], f])
    return out


def _level_cost(users, level):
    return sum(max(0, min(rd, level - rn)) for rn, rd in users)


def _random_case(rng):
    style = rng.choice(['ties', 'ties', 'boundary', 'boundary', 'wide', 'big', 'float'])
    if style == 'float':
        # few users with the same running cores and a large demand: the break computes int(free/n + 0.5) with free near q*n + n/2
        n = rng.choice([2, 3, 5, 6, 7, 10, 12, 48, 96, 100, 199, 200])
        q = rng.choice([rng.randint(0, 10), rng.randint(10 ** 6, 10 ** 9), rng.randint(2 ** 40, 2 ** 49) // n])
        a = q * n + n // 2 + rng.choice([-2, -1, 0, 1, 2])
        a = max(a, 1)
        base = rng.choice([0, 0, 250, 10 ** 6])
        users = [[base, 2 ** 50] for _ in range(n)]
        return [users, a + 0]
    n = rng.choice([1, 2, 3, 4, 5, 8, 13, 40, 200]) if style != 'wide' else rng.randint(1, 200)
    if style in ('ties', 'boundary'):
        unit = rng.choice([1, 1, 250, 1000])
        pool_r = [rng.randint(0, 6) * unit for _ in range(rng.randint(1, 3))]
        pool_d = [rng.randint(0, 8) * unit for _ in range(rng.randint(1, 3))]
        users = [[rng.choice(pool_r), rng.choice(pool_d)] for _ in range(n)]
    elif style == 'big':
        users = [[rng.choice([0, rng.randint(0, BIG)]), rng.choice([0, rng.randint(0, BIG)])] for _ in range(n)]
    else:
        hi = rng.choice([10, 1000, 16000, BIG])
        users = [[rng.randint(0, hi), rng.randint(0, hi)] for _ in range(n)]
    demand = sum(rd for _, rd in users)
    if style == 'boundary' and users:
        # free = cost of some exact level + about half a core per user at that level: lands on the rounding boundary
        lvl = rng.choice([rn for rn, _ in users] + [rn + rd for rn, rd in users]) + rng.randint(0, 3)
        at = sum(1 for rn, rd in users if rn <= lvl < rn + rd)
        free = _level_cost(users, lvl) + at // 2 + rng.choice([-1, 0, 0, 1])
    else:
        free = rng.choice([0, -1, -rng.randint(1, BIG), demand, demand - 1, demand + 1, rng.randint(0, max(1, demand)),
                           rng.randint(0, max(1, demand)), rng.randint(0, max(1, 2 * demand)), 1, 2, len(users) // 2, len(users) // 2 + 1])
    rng.shuffle(users)
    return [users, free]


def _cases(ctx, n_random, exhaustive=True):
    out = _corpus()
    if exhaustive:
        if ctx.thorough:
            out += _small_scope(3, (0, 1, 2, 3), range(-1, 11))
            out += _small_scope(4, (0, 1, 2), range(-1, 9))
            out += _small_scope(4, (0, 250, 1000), (0, 1, 125, 250, 375, 500, 750, 1000, 1250, 2000, 3001, 5000))
        else:
            out += _small_scope(3, (0, 1, 2), range(-1, 8))
            out += _small_scope(3, (0, 250, 1000), (0, 1, 125, 250, 500, 751, 1000, 2000, 3001))
            out += _small_scope(2, (0, 1, 2, 3), range(-1, 9))
    for _ in range(n_random):
        out.append(_random_case(ctx.rng))
    return out


# ------------------------------------------------------------------------------------------------ running both sides

def _run_impl(ctx, cases):
    res = []
    how = None
    for i in range(0, len(cases), 4000):
        r = ctx.run_impl('c11_fairshare.py', {'cases': cases[i:i + 4000]}, timeout=900)
        res += r['results']
        how = r['loaded_from']
    return res, how


def _run_model(ctx, cases):
    exprs = []
    for users, free in cases:
        exprs.append('fs ' + listlit([f'({i}, {zlit(a)}, {zlit(b)})' for i, (a, b) in enumerate(users)]) + ' ' + zlit(free))
    vals = coq_eval(ctx, HEADER, exprs, shard=max(50, min(400, len(exprs) // 16 + 1)))
    out = []
    for (users, _), v in zip(cases, vals):
        if v is None:
            out.append('OutOfFuel')
            continue
        d = {a: b for a, b in v[1]}
        out.append([d.get(k) for k in range(len(users))])
    return out


def _key(case):
    return (tuple(sorted(map(tuple, case[0]))), case[1])


def correspond(ctx):
    cases = _cases(ctx, ctx.scale(1200, 12000))
    impl, how = _run_impl(ctx, cases)
    model = _run_model(ctx, cases)
    dis = []
    hist = {}
    distinct = set()
    for c, m, i in zip(cases, model, impl):
        k = _key(c)
        if len(c[0]) >= 2 and c[1] > 0:
            distinct.add(k)
        b = 'n=0' if not c[0] else 'n=1' if len(c[0]) == 1 else 'n=2..4' if len(c[0]) <= 4 else 'n=5..50' if len(c[0]) <= 50 else 'n>50'
        hist[b] = hist.get(b, 0) + 1
        if m != i:
            dis.append(Disagreement('FairShare.fair_share~PoolScheduler._compute_fair_share', c, m, i))
    dis.sort(key=lambda d: (len(d.case[0]), abs(d.case[1])))
    # the caller: model (caller_free, healthy flags, compute_fair_share) vs the real Pool.add_instance + compute_fair_share
    ccases = _caller_cases(ctx, ctx.scale(400, 3000))
    cimpl, cinfo = _run_caller_impl(ctx, ccases)
    cmodel = _run_caller_model(ctx, ccases)
    cdis = []
    cdistinct = set()
    chist = {}
    for c, m, i in zip(ccases, cmodel, cimpl):
        if _caller_nontrivial(c):
            cdistinct.add(_caller_key(c))
        kinds = set()
        for st, fl, vo, fr in c['instances']:
            kinds.add('not-active' if st != 1 else 'unhealthy' if fl >= 2 else 'oversubscribed' if fr < 0 else 'old-version' if vo else 'healthy')
        for kd in kinds or {'no-instances'}:
            chist[kd] = chist.get(kd, 0) + 1
        got = {'free_passed': i['free_passed'], 'healthy': i['healthy'], 'alloc': i['alloc']}
        if m != got:
            cdis.append(Disagreement('FairShare.compute_fair_share~PoolScheduler.compute_fair_share', c, m, got))
    cdis.sort(key=lambda d: (len(d.case['instances']), len(d.case['users'])))
    csamples = [{'case': c, 'impl': i} for c, i in zip(ccases, cimpl) if _caller_nontrivial(c) and len(c['instances']) <= 4][:2]
    return Corr(evaluations=len(cases) + len(ccases), distinct_nontrivial=len(distinct) + len(cdistinct),
                rule='CALLER: (multiset of instances (state, failed requests, version offset, free cores), user list): all multisets of <= 2 '
                     'instances over a grid + seeded random (<= 40 instances incl. pending/inactive/deleted, >= 2 failed requests, negative '
                     'free cores, older versions); non-trivial = some instance is not a plain healthy current worker, there is a user and the '
                     f'schedulable free cores are positive; real Pool.add_instance + PoolScheduler.compute_fair_share ({cinfo.get("loaded_from")}) '
                     'vs the Gallina model: free amount passed to _compute_fair_share, membership of the healthy set and every allocation compared. '
                     '|| INNER: '
                     + _INNER_RULE.format(how=how),
                samples=csamples + ([{'case': c, 'alloc': i} for c, i in list(zip(cases, impl))[-3:] if len(c[0]) <= 8][:3]
                                    or [{'case': cases[0], 'alloc': impl[0]}]),
                disagreements=cdis + dis, histograms={'users_per_case': hist, 'caller_instance_kinds': chist}, exhaustive=False,
                names=['FairShare.fair_share~PoolScheduler._compute_fair_share',
                       'FairShare.compute_fair_share~PoolScheduler.compute_fair_share'])


_INNER_RULE = ('(multiset of (running, ready), free): all multisets of a small grid x free grid + seeded random (<=200 users, <=1e9 mcpu; '
               'ties, rounding-boundary and float-boundary styles); non-trivial = at least 2 users and free > 0; the real method '
               '({how}) vs the Gallina model under vm_compute, every user\'s allocation compared')


# ------------------------------------------------------------------------------------------------ the caller: compute_fair_share
#
# A caller case is {"instances": [[state, failed_request_count, version_offset, free_cores_mcpu], ...], "users": [[running, ready], ...]}
# state: 0 pending, 1 active, 2 inactive, 3 deleted; version = INSTANCE_VERSION + version_offset (0 = current worker version).

HEADER_CALLER = ('From HailV Require Import Common.Prelude FairShare.Model FairShare.Caller. Open Scope Z_scope.\n'
                 'Definition cfs (us : list (Z*Z*Z)) (insts : list inst) := (caller_free insts, (map healthy insts, '
                 'option_map (map (fun p : (Z*Z*Z)*Z => (fst (fst (fst p)), snd p))) '
                 '(compute_fair_share (fun u => snd (fst u)) (fun u => snd u) us insts))).')

# The two code fragments FairShare/Caller.v transcribes, as ast.unparse of their statements (docstrings dropped).  Any other
# shape is outside what the model covers: the tie fails closed and the oracle searches for a concrete input.
CALLER_SHAPE = {
    'PoolScheduler.compute_fair_share': (True, ['self'], [
        'free_cores_mcpu = sum((worker.free_cores_mcpu for worker in self.pool.healthy_instances_by_free_cores))',
        'return await self._compute_fair_share(free_cores_mcpu)']),
    'Pool.adjust_for_add_instance': (False, ['self', 'instance'], [
        'super().adjust_for_add_instance(instance)',
        "if instance.state == 'active' and instance.failed_request_count <= 1:\n    self.healthy_instances_by_free_cores.add(instance)"]),
}


def _function_shape(repo, qualname):
    import ast
    src = open(os.path.join(repo, SRC)).read()
    node = ast.parse(src)
    for part in qualname.split('.'):
        for child in ast.iter_child_nodes(node):
            if isinstance(child, (ast.FunctionDef, ast.AsyncFunctionDef, ast.ClassDef)) and child.name == part:
                node = child
                break
        else:
            return None
    body = [s for s in node.body if not (isinstance(s, ast.Expr) and isinstance(getattr(s, 'value', None), ast.Constant))]
    return (isinstance(node, ast.AsyncFunctionDef), [a.arg for a in node.args.args], [ast.unparse(s) for s in body])


def generate(ctx):
    """T (shape only, fail closed): compute_fair_share and the guard that fills the healthy set still are the statements
    that FairShare/Caller.v transcribes.  The values are compared by execution in correspond()."""
    for q, want in CALLER_SHAPE.items():
        got = _function_shape(ctx.repo, q)
        if got is None:
            raise TieBroken('caller-shape:' + q, f'{q} not found in {SRC}')
        if got != want:
            raise TieBroken('caller-shape:' + q, f'{q} is no longer the modelled code: expected {want!r}, found {got!r}')


def _caller_corpus():
    out = []
    for c in _corpus_docs():
        if isinstance(c, dict) and 'instances' in c:
            out.append({'instances': [[int(x) for x in i] for i in c['instances']], 'users': [[int(a), int(b)] for a, b in c['users']]})
    return out


def _caller_small_scope(thorough):
    """all multisets of <= 2 instances over a grid of (state, failed, version offset, free) x a few user lists"""
    kinds = [[s, f, v, fr] for s in (0, 1, 2, 3) for f in ((0, 1, 2) if s == 1 else (0, 2)) for v in (0, -1)
             for fr in ((-3, 0, 5) if s == 1 else (5,))]
    userlists = [[[0, 4], [1, 4]], [[0, 2], [0, 9], [3, 9]]] + ([[[0, 4]]] if thorough else [])
    out = []
    for k in range(0, 3 if not thorough else 4):
        for ms in itertools.combinations_with_replacement(kinds, k):
            if k == 3 and sum(1 for i in ms if i[0] == 1) < 2:
                continue
            for us in (userlists if k < 3 else userlists[:1]):
                out.append({'instances': [list(i) for i in ms], 'users': [list(u) for u in us]})
    return out


def _sched_free(instances, current_only=False):
    """The oracle's own reading of the instance fields: free cores (negative included) of the workers a job can be sent to:
    state active and fewer than two failed requests; with current_only also the current worker version (Pool.get_instance)."""
    t = 0
    for state, failed, voff, free in instances:
        if state != 1 or failed >= 2:
            continue
        if current_only and voff != 0:
            continue
        t += free
    return t


def _random_caller_case(rng):
    n = rng.choice([0, 1, 1, 2, 2, 3, 4, 6, 10, 40])
    unit = rng.choice([1, 250, 250, 1000])
    cores = rng.choice([4, 16, 16, 64]) * (1000 if unit != 1 else 1)
    old = rng.choice([0, 0, 0, 0.3])
    insts = []
    for _ in range(n):
        state = rng.choice([1, 1, 1, 1, 1, 0, 2, 3])
        failed = rng.choice([0, 0, 0, 1, 1, 2, 2, 3, 10])
        voff = rng.choice([-1, -2]) if rng.random() < old else 0
        free = rng.choice([rng.randint(0, cores // unit) * unit, rng.randint(0, cores // unit) * unit, cores, 0,
                           -rng.randint(1, cores // unit) * unit, -1, 1, rng.randint(-cores, cores)])
        insts.append([state, failed, voff, free])
    sched = _sched_free(insts)
    every = sum(max(0, i[3]) for i in insts)     # what a tally over all instances would say
    m = rng.choice([0, 1, 1, 2, 2, 3, 5, 8, 20])
    style = rng.choice(['hungry', 'hungry', 'around', 'small', 'ties'])
    users = []
    for _ in range(m):
        if style == 'hungry':
            users.append([rng.choice([0, 0, rng.randint(0, 4) * unit]), rng.choice([max(1, every), 2 ** 40, cores * 3])])
        elif style == 'around':
            tgt = max(1, rng.choice([abs(sched), every, abs(sched) + 1]))
            users.append([rng.choice([0, rng.randint(0, tgt)]), rng.randint(0, max(1, 2 * tgt // max(1, m)))])
        elif style == 'small':
            users.append([rng.randint(0, 3), rng.randint(0, 3)])
        else:
            users.append([rng.choice([0, unit, 2 * unit]), rng.choice([0, unit, 4 * unit, 16 * unit])])
    return {'instances': insts, 'users': users}


def _caller_cases(ctx, n_random, exhaustive=True):
    out = _caller_corpus()
    if exhaustive:
        out += _caller_small_scope(ctx.thorough)
    for _ in range(n_random):
        out.append(_random_caller_case(ctx.rng))
    return out


def _run_caller_impl(ctx, cases):
    res = []
    info = {}
    for i in range(0, len(cases), 4000):
        r = ctx.run_impl('c11_caller.py', {'cases': cases[i:i + 4000]}, timeout=900)
        res += r['results']
        info = {'loaded_from': r['loaded_from'], 'instance_version': r['instance_version']}
    return res, info


def _inst_lit(i):
    return f'(mkInst {zlit(i[0])} {zlit(i[1])} {zlit(30 + i[2])} {zlit(i[3])})'


def _run_caller_model(ctx, cases):
    """-> [{'free_passed', 'healthy' (indices), 'alloc'}]; the model's current version is 30 + offset (only equality with the
    pool's current version matters, and caller_free does not look at the version at all)"""
    exprs = []
    for c in cases:
        exprs.append('cfs ' + listlit([f'({i}, {zlit(a)}, {zlit(b)})' for i, (a, b) in enumerate(c['users'])]) + ' '
                     + listlit([_inst_lit(i) for i in c['instances']]))
    vals = coq_eval(ctx, HEADER_CALLER, exprs, shard=max(50, min(400, len(exprs) // 16 + 1)), label='caller')
    out = []
    for c, v in zip(cases, vals):
        free, rest = v
        flags, r = rest
        if r is None:
            alloc = 'OutOfFuel'
        else:
            d = {a: b for a, b in r[1]}
            alloc = [d.get(k) for k in range(len(c['users']))]
        out.append({'free_passed': free, 'healthy': [k for k, b in enumerate(flags) if b], 'alloc': alloc})
    return out


def _caller_key(c):
    return (tuple(sorted(map(tuple, c['instances']))), tuple(sorted(map(tuple, c['users']))))


def _caller_nontrivial(c):
    """at least one instance outside the healthy set or oversubscribed or of an old version, a user, and positive schedulable cores"""
    odd = any(i[0] != 1 or i[1] >= 2 or i[3] < 0 or i[2] != 0 for i in c['instances'])
    return odd and bool(c['users']) and _sched_free(c['instances']) > 0


def _check_caller(case, res):
    """The property on one output of the real compute_fair_share.  'the free cores' of the property are the free cores the
    scheduler can actually place jobs on, read by the oracle from the instances' own fields."""
    alloc = res['alloc']
    users = case['users']
    sched = _sched_free(case['instances'])
    if not isinstance(alloc, list):
        return ('caller-raises', f'compute_fair_share raised {alloc}', 'an allocation')
    placeable = _sched_free(case['instances'], current_only=True)
    r = _check([users, sched], alloc)
    if r is not None:
        if r[0] == 'total-exceeds-free':
            total = sum(alloc)
            return ('caller-allocates-unschedulable-cores',
                    f'compute_fair_share hands out {total} mcpu but the active workers with fewer than two failed requests have only '
                    f'{sched} mcpu free in total (free amount given to _compute_fair_share: {res.get("free_passed")})', r[2])
        # the remaining clauses (work conservation, demand met, water level) are relative to 'the free cores': an implementation
        # that leaves out the healthy workers of an older version (nothing can be placed on them) is just as acceptable
        if placeable == sched or _check([users, placeable], alloc) is not None:
            return ('caller-' + r[0], f'with the schedulable free cores ({sched}) as the free amount: ' + r[1], r[2])
    total = sum(alloc)
    pos = sum(1 for x in alloc if x > 0)
    if 2 * total > 2 * max(0, placeable) + pos:
        return ('caller-counts-old-version-workers',
                f'compute_fair_share hands out {total} mcpu but the healthy active workers of the CURRENT version (the only ones '
                f'Pool.get_instance returns) have only {placeable} mcpu free; healthy workers of an older version are counted',
                f'2*sum <= {2 * max(0, placeable) + pos}')
    return None


# ------------------------------------------------------------------------------------------------ oracle

def _check(case, alloc):
    """The clauses of the property on one output of the implementation. Returns (key, what, expected) or None."""
    users, free = case
    if not isinstance(alloc, list):
        return ('raises', f'_compute_fair_share raised {alloc}', 'an allocation')
    n = len(users)
    demand = sum(rd for _, rd in users)
    if any(not isinstance(x, int) or isinstance(x, bool) for x in alloc):
        return ('not-int', 'an allocation is not an integer', 'integers')
    for (rn, rd), x in zip(users, alloc):
        if x > rd:
            return ('exceeds-demand', f'a user with ready={rd} is allocated {x}', f'<= {rd}')
        if x < 0:
            return ('negative', f'negative allocation {x}', '>= 0')
    total = sum(alloc)
    pos = sum(1 for x in alloc if x > 0)
    if 2 * total > 2 * max(0, free) + pos:
        return ('total-exceeds-free', f'sum of allocations {total} exceeds free {free} by more than half a millicore per served user ({pos})',
                f'2*sum <= {2 * max(0, free) + pos}')
    if 0 < free <= demand and not 2 * total > 2 * free - n:
        return ('not-work-conserving', f'demand {demand} >= free {free} but only {total} handed out', f'2*sum > {2 * free - n}')
    if demand <= free and any(x != rd for (_, rd), x in zip(users, alloc)):
        return ('demand-not-met', f'free {free} covers the demand {demand} but some user is left short', 'alloc = ready for all')
    short = [rn + x for (rn, rd), x in zip(users, alloc) if x < rd]
    served = [rn + x for (rn, rd), x in zip(users, alloc) if x > 0]
    if short and served and max(served) > min(short):
        return ('not-max-min', f'a served user ends at {max(served)} cores while a user left short holds only {min(short)}',
                'served <= short (common water level)')
    return None


def oracle(ctx, budget):
    cases = _cases(ctx, ctx.scale(1500, 15000) * budget, exhaustive=True)
    impl, how = _run_impl(ctx, cases)
    fails = []
    seen = set()
    for c, a in zip(cases, impl):
        r = _check(c, a)
        if r is not None:
            fails.append((len(c[0]), abs(c[1]), Failure(r[0], r[1], c, r[2], a)))
        if len(c[0]) >= 2 and c[1] > 0:
            seen.add(_key(c))
    fails.sort(key=lambda t: (t[0], t[1]))
    # the caller: the same clauses with 'the free cores' = the free cores the scheduler can place jobs on, read from the instances
    ccases = _caller_cases(ctx, ctx.scale(1500, 15000) * budget, exhaustive=True)
    cimpl, _ = _run_caller_impl(ctx, ccases)
    cfails = []
    cseen = set()
    for c, r in zip(ccases, cimpl):
        v = _check_caller(c, r)
        if v is not None:
            cfails.append((len(c['instances']), len(c['users']), sum(abs(i[3]) for i in c['instances']),
                           Failure(v[0], v[1], c, v[2], {'alloc': r['alloc'], 'free_passed': r['free_passed'], 'healthy_set': r['healthy']})))
        if _caller_nontrivial(c):
            cseen.add(_caller_key(c))
    cfails.sort(key=lambda t: t[:3])
    return [t[-1] for t in cfails] + [f for _, _, f in fails], {
        'evaluations': len(cases) + len(ccases), 'distinct_nontrivial': len(seen) + len(cseen),
        'rule': 'oracle: <= demand, >= 0, total <= free + half a millicore per served user, work conservation, demand met when covered, '
                'pairwise max-min (water level) recomputed in Python on the real method output; for compute_fair_share the same clauses with '
                'free = sum of free_cores_mcpu over the fake instances that are active with < 2 failed requests (computed by the oracle from '
                'the instance fields, not from the pool), plus total <= free cores of those of the current version',
        'samples': [{'case': c, 'alloc': a} for c, a in list(zip(cases, impl)) if 2 <= len(c[0]) <= 5 and c[1] > 3][:2]
                   + [{'case': c, 'impl': r} for c, r in zip(ccases, cimpl) if _caller_nontrivial(c) and len(c['instances']) <= 4][:2]}


def _replay_caller(ctx, case):
    case = {'instances': [[int(x) for x in i] for i in case['instances']], 'users': [[int(a), int(b)] for a, b in case['users']]}
    impl, info = _run_caller_impl(ctx, [case])
    model = _run_caller_model(ctx, [case])
    got = {'free_passed': impl[0]['free_passed'], 'healthy': impl[0]['healthy'], 'alloc': impl[0]['alloc']}
    r = _check_caller(case, impl[0])
    return {'case': case, 'impl': impl[0], 'model': model[0], 'loaded_from': info.get('loaded_from'), 'agree': got == model[0],
            'schedulable_free_cores': _sched_free(case['instances']),
            'schedulable_free_cores_current_version': _sched_free(case['instances'], current_only=True),
            'property_violation': None if r is None else {'key': r[0], 'what': r[1], 'expected': r[2]}}


def replay(ctx, doc):
    case = doc.get('case')
    if isinstance(case, dict):
        return _replay_caller(ctx, case)
    case = [[list(u) for u in case[0]], int(case[1])]
    impl, how = _run_impl(ctx, [case])
    model = _run_model(ctx, [case])
    r = _check(case, impl[0])
    return {'case': case, 'impl': impl[0], 'model': model[0], 'loaded_from': how, 'agree': impl[0] == model[0],
            'property_violation': None if r is None else {'key': r[0], 'what': r[1], 'expected': r[2]}}
