"""C04 — jobs follow the lifecycle and complete at most once: lifecycle half by JobChange.v, tally half by the C06 tally invariant (TallyInv.v).

Tie: X (shared family correspondence: model step ~ real SQL routines + handlers on minisql, after every op).
Proof: coq/theories/BatchDB/JobChange.v on top of the dependency invariant DInv (DepsDef.v, Deps.v: reachable in every
good history) over the frozen model BatchDB/Model.v; theorems in Props_C04.v.
Oracle: harness/batchdb/oracles.py::c04 after every op of every history, on the IMPLEMENTATION: every job's state pair
(before, after) is an allowed transition, and every group's n_completed / n_succeeded / n_failed / n_cancelled equal the
recount of the terminal jobs of committed updates in its subtree (the tally half is checked by the oracle although its
proof lives with C06).
"""
from harness.batchdb import family

ID = 'C04'
COQ_PROPS = 'theories/BatchDB/Props_C04.v'
READY = True

META = dict(
    design_ref='§5.A C04',
    technique='Coq invariant proof over all histories of an executable model of the batch database + '
              'correspondence of the model with the real SQL routines/handlers on a MySQL-subset interpreter',
    level_text='PARTIAL (lifecycle half proved here; the tally half is proved in Props_C06.v once it exists). Machine-checked (Coq 8.16, '
               'closed under the global context) for the batch-database model: (1) C04_step_job_change, for EVERY state satisfying the '
               'dependency invariant DInv/DAux (proved to hold in every state of every good history: legal driver/worker messages of '
               'Legal.v incl. duplicated, reordered and stale-attempt ones, schema-valid client requests) and every good transaction: every '
               'existing job keeps existing with its immutable columns; its (before, after) state pair is in `allowed`, which is exactly the '
               'relation of the property text (stay; Pending->Ready; Ready->Creating|Running|terminal; Creating->Running|Ready|terminal; '
               'Running->Ready|terminal; nothing leaves a terminal state; Pending goes nowhere but Ready; C04_allowed_table gives it as an 8x8 '
               'table); the cancelled mark is never taken back; the job ENTERS Creating/Running only by ScheduleJob / MarkCreating / MarkStarted '
               'for this very job, which is then not cancelled (is_job_cancelled false) and belongs to a committed update; its attempt id '
               'changes only by a driver/worker message for this very job or by an instance deactivation; it becomes terminal only by a '
               'MarkComplete for this very job; a row of an uncommitted update is touched by nothing but the commit of that update. '
               '(2) Over all good histories: C04_transitions (every consecutive state pair of every job is allowed), C04_terminal_absorbing '
               '(a job that is terminal after a prefix has the same state after every good extension: it completes at most once however often '
               'or late completion is reported), C04_pending_never_starts (a Pending job is Pending or Ready after one more transaction) and '
               'C04_pending_passes_ready (it is seen Ready before it is seen in any other state). (3) Tallies: after every good history the completed / succeeded / failed / cancelled numbers of every group (the batch reads '
               'its root group) are the number of rows of the jobs table in the group\'s subtree in that state (C04_tallies_count_each_job_once, '
               'from the C06 tally invariant TallyInv.reach_counts) - so with terminal states absorbing, each job is counted exactly once however '
               'many repeated, late or stale reports the history contains - and from any state a report for an already terminal job or with a '
               'stale attempt id changes no job, group or batch row (C04_repeated_or_stale_completion_changes_nothing).',
    level_note='Trusted: Coq kernel; the sampled model-vs-implementation correspondence and the minisql engine; Legal.v + DepsDef.client_ok '
               '(the hypotheses of `good`: job-directed driver/worker messages name jobs of committed updates, a completion names a terminal '
               'state, updates are committed in order, job-group bunches are schema-valid). A job is identified by its key (batch, job id) as '
               'the SQL does. Corollaries for C05/C41 are proved in the same file (JobChange.v): a non-always-run job that is marked cancelled '
               'or lies under a cancelled group never enters Creating/Running in any later good step (the mark and "under a cancelled group" are '
               'monotone), a job of an uncommitted update stays attempt-less and Pending/Ready, an always_run Ready job is moved to Running by '
               'ScheduleJob with a fresh attempt on an active instance whatever its cancellation marks.',
    partial=False,
)
TRUSTED = family.COMMON_TRUSTED + []
ASSUMPTIONS = family.COMMON_ASSUMPTIONS + [
    'C04 uses `good` = Legal.v (driver/worker messages name jobs of committed updates; completions name a terminal state; updates of a batch are '
    'committed in order) + DepsDef.client_ok (schema validation of job-group bunches and update sizes done by the front end before the handlers run)',
    'the tally half of C04 (each job counted exactly once in the completed/succeeded/failed/cancelled tallies) is proved with the C06 tallies invariant '
    '(Props_C06.v), not here; here it is only checked by the oracle on the implementation',
]

correspond = family.correspond
oracle = family.oracle_for(ID)
replay = family.replay
