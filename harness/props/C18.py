"""C18 — Batch DSL resource plumbing is consistent (job.py _interpolate_command, resource.py, batch.py tokens, backend.py ServiceBackend).

Tie: X.  Hand model coq/theories/DslResources/Model.v against the real DSL driven through the real ServiceBackend._async_run with a
capturing fake batch client (no network).  Three correspondences per scenario: (1) the regex interpolation of every command string
(model scan over the very f-string Python produced, resource table = the uids known at that moment, replacement =
'${BATCH_TMPDIR}' + Model.shq path) — result text / error class / references found; (2) the DSL bookkeeping (_inputs,
_internal_outputs, _dependencies, _valid, _mentioned) and the create_job input/output file lists and parents; (3) job tokens for a
scripted (adversarial) random generator.

PythonJob scenarios (flags.py): Bash and Python jobs; `call` operations pass resources positionally / by keyword / nested in lists, tuples,
dicts; results are used raw and via as_str / as_repr / as_json by calls, commands and write_output.  The bookkeeping is compared with
Model.call_ops (Model.reach over the argument tree); the oracle adds: PythonResult files and their views never share a path, prepared
arguments = local paths of the very resources passed (and downloaded), the wrapper writes each view to its own path with its formatter.

Two defects (both reproduced on the real code):
  * digit-after-reference  (open finding): `__RESOURCE_FILE__\\d+` is greedy, f"{r}0" is read as another uid.  The model is faithful,
    the property is proved guarded (`_partial`) and refuted unguarded (`_refuted`).
  * job-dir-collision      (fix proposed in fixes/C18.diff): Batch._unique_job_token never records the token it hands out, so two jobs
    can share a directory and distinct resources share a path.  Model + theorem target the FIXED code.
"""
import json
import os
import string

from harness.core import Corr, Disagreement, Failure, TieBroken, coq_eval, listlit

ID = 'C18'
SRC = ['hail/python/hailtop/batch/backend.py', 'hail/python/hailtop/batch/job.py', 'hail/python/hailtop/batch/resource.py',
       'hail/python/hailtop/batch/batch.py']
COQ_PROPS = 'theories/DslResources/Props_C18.v'
READY = True
META = dict(
    design_ref='§5.D C18',
    technique='Coq proofs (induction over command segments for the regex scan; invariant over all DSL operation sequences; token '
              'allocation for every random stream; string injectivity of paths) about a hand-written executable model, tied to the real '
              'hailtop.batch DSL + ServiceBackend._async_run (capturing fake client) by a differential run',
    level_text='Machine-checked theorems (Coq 8.16, closed under the global context): for ALL commands whose references are defined '
               'resources, whose literal text contains no accidental uid pattern and in which no digit directly follows a reference, the '
               'regex interpolation replaces exactly the references by their paths and changes nothing else (and finds exactly those '
               'references); the unguarded statement is REFUTED with the witness f"cat {r1}0.txt" (known finding); for ALL sequences of '
               'commands/group declarations of any jobs: every file behind a foreign reference becomes an input of the referring job, is '
               'downloaded from exactly the remote location its producer uploads it to, and the consumer is a child of the producer; '
               'the same for PythonJob.call(f, *args, **kwargs), modelled as call_ops = one mention per resource REACHABLE in the argument '
               'tree (reach: lists / tuples / dict values at any depth) plus the fresh result, and for as_str / as_repr / as_json files '
               '(a mention by the producing job): every reachable foreign resource has all its files among the caller\'s inputs, downloaded '
               'from where the producer uploads them, the caller being a child of the producer (C18_call_argument_becomes_input, '
               'C18_call_argument_downloaded); with the proposed one-line fix, job tokens are pairwise distinct for EVERY output of the random generator, and distinct '
               '(job, file name) pairs never share a path.',
    level_note='PARTIAL: cloud copy steps are compared as the (from, to) pairs handed to create_job, not executed; PythonJob: the bookkeeping of call() and of the converted views is modelled (call_ops / reach) and compared with '
               'the real DSL + create_job lists on generated Bash/Python scenarios; RUN-CHECKED ONLY (oracle, not proved): the names/paths of '
               'PythonResult files and their -str/-repr/-json views are pairwise distinct, the prepared arguments pickled for each call carry '
               'the local path of exactly the resource passed (and that path is downloaded), the pickled-arguments file is the one downloaded '
               'and opened, and the generated wrapper writes the result and each view once, to that view\'s path, with the matching formatter '
               '(python functions are never executed; dill is a recording stub); input-file uploads, external outputs and shlex quoting are checked by the correspondence '
               'and the oracle, not proved; path injectivity assumes the user gives distinct names to distinct files of one job and is '
               'proved for job files (input roots are random and unchecked in the code). The statement about tokens is about the code '
               'WITH fixes/C18.diff applied; on the unfixed tree the check reports the collision as a VIOLATION.',
    partial=True,
)
TRUSTED = ['correspondence harness/props/C18.py + harness/impl/c18_dsl_resources.py (ServiceBackend assembled without __init__, fake batch '
           'client, validate_file/copy_from_dict/get_deploy_config/rich.track replaced, secret_alnum_string scripted; for PythonJobs a fake '
           'file system and a recording dill.dump)',
           'CPython re / shlex as the semantics of the real interpolation; loader stubs (dill, rich, ...)']
ASSUMPTIONS = ['BashJobs and PythonJobs submitted through ServiceBackend in one run(); commands given as f-strings over resources of the same batch',
               'literal command text contains no "__" (so no accidental uid pattern); identifiers of one job are distinct']

PREFIXES = ['__RESOURCE_FILE__', '__RESOURCE_GROUP__', '__PYTHON_RESULT__', '__JOB__', '__BATCH__']
KIND = {'__RESOURCE_FILE__': 'KFile', '__RESOURCE_GROUP__': 'KGroup', '__PYTHON_RESULT__': 'KPy', '__JOB__': 'KJob', '__BATCH__': 'KBatch'}

HEADER = '''From HailV Require Import Common.Prelude DslResources.Model DslResources.Lemmas.
From Coq Require Import String Ascii.
Definition keq (a b : kind) : bool := match a, b with KFile, KFile | KGroup, KGroup | KPy, KPy | KJob, KJob | KBatch, KBatch => true | _, _ => false end.
Fixpoint leq (a b : list N) : bool := match a, b with [], [] => true | x :: a', y :: b' => N.eqb x y && leq a' b' | _, _ => false end.
Definition repl_of (tbl : list (kind * list N * list N)) (k : kind) (ds : list N) : option (list N) :=
  match find (fun e => keq (fst (fst e)) k && leq (snd (fst e)) ds) tbl with
  | Some e => Some (str "${BATCH_TMPDIR}" ++ shq (snd e))
  | None => None
  end.
Definition R (s : option nat) (m : list nat) (g : option nat) : rinfo := {| r_src := s; r_members := m; r_group := g |}.
Definition info_of (t : list rinfo) (r : nat) : rinfo := nth r t (R None [] None).
Definition show_state (n : nat) (r : state + perr) :=
  match r with inl st => Some (map (fun j => let s := st j in (inputs s, outputs s, deps s, valid s, mentioned s)) (seq 0 n)) | inr _ => None end.
Definition show_files (t : list rinfo) (n : nat) (r : state + perr) :=
  match r with
  | inl st => map (fun j => (map (fun p => snd (fst p)) (job_input_files (info_of t) (st j)), map (fun p => snd (snd p)) (job_output_files (st j)), job_parents (st j))) (seq 0 n)
  | inr _ => []
  end.
'''


def chars(s):
    return listlit([f'{ord(c)}' for c in s]) + '%N' if s else '[]'


def nl(xs):
    return listlit([str(x) for x in xs])


# ------------------------------------------------------------------------------------------------
# scenarios

ALNUM = string.ascii_letters + string.digits


def token(rng):
    return ''.join(rng.choice(ALNUM) for _ in range(5))


def text(rng, allow_leading_digit):
    alphabet = 'abcXYZ 019_-./>|;&$"\'\n'
    n = rng.randint(0, 8)
    t = ''.join(rng.choice(alphabet) for _ in range(n))
    while '__' in t:
        t = t.replace('__', '_')
    if not allow_leading_digit:
        t = t.lstrip('0123456789')
    return t


def gen_scenario(rng, digit_after_ref=False, dup_tokens=False, errors=False):
    n = rng.randint(1, 5)
    names = ['prod', 'a', 'b', None, 'x y', 'same', 'same', 'q.z']
    if rng.random() < 0.25:      # scatter shards with one long name: the directory name is cut to a file-system component (<= 255)
        long = 'shard_' * 45
        names = [long, long, long[:246], long[:243] + 'z', 'a', None]
    jobs = [{'name': rng.choice(names)} for _ in range(n)]
    toks = [token(rng) for _ in range(n + 6)]
    if dup_tokens and n >= 2:
        k = rng.randrange(0, n - 1)
        toks.insert(k + 1, toks[k])                 # the generator repeats itself
        if rng.random() < 0.5:
            toks.insert(k + 1, toks[k])
    inputs = [rng.choice(['/data/in.txt', 'gs://bkt/in file.txt', '/d/x.vcf']) for _ in range(rng.randint(0, 2))]
    input_groups = [{'bed': '/d/a.bed', 'bim': '/d/a.bim'}] if rng.random() < 0.4 else []
    idents = ['out', 'res', 'f1', 'o 2', "q'x", 'o10']
    exts = ['bed', 'bim', 'fam']
    ops = []
    made = {j: [] for j in range(n)}          # refs of job j that are valid (defined by j)
    groups = {}
    order = list(range(n))
    for j in order:
        if rng.random() < 0.4:
            members = {e: '{root}.' + e for e in rng.sample(exts, rng.randint(1, 3))}
            ops.append({'op': 'declare', 'job': j, 'name': 'g', 'members': members})
            groups[j] = list(members)
            made[j].append(['jobgroup', j, 'g'])
            made[j] += [['jobgroupfile', j, 'g', e] for e in members]
        for _ in range(rng.randint(1, 2)):
            segs = [['T', rng.choice(['cat ', 'run ', 'echo x > ', 'true;']) + text(rng, True)]]
            for _ in range(rng.randint(0, 4)):
                k = rng.random()
                if k < 0.35:
                    ref = ['job', j, rng.choice(idents)]
                    if ref not in made[j]:
                        made[j].append(ref)
                elif k < 0.7 and any(made[p] for p in range(j)):
                    p = rng.choice([p for p in range(j) if made[p]])
                    ref = rng.choice(made[p])
                elif k < 0.8 and inputs:
                    ref = ['input', rng.randrange(len(inputs))]
                elif k < 0.88 and input_groups:
                    ref = rng.choice([['ingroup', 0], ['ingroupfile', 0, 'bed']])
                elif errors and k < 0.93:
                    ref = rng.choice([['jobobj', rng.randrange(n)], ['batch']])
                elif errors and k < 0.97 and j + 1 < n:
                    ref = ['job', j + 1, 'never']          # not (yet) defined by its source job
                else:
                    ref = ['job', j, rng.choice(idents)]
                    if ref not in made[j]:
                        made[j].append(ref)
                segs.append(['R', ref])
                t = text(rng, False)
                if digit_after_ref and rng.random() < 0.5:
                    t = rng.choice('0123456789') + t
                segs.append(['T', t])
            ops.append({'op': 'command', 'job': j, 'segs': segs})
    for j in range(n):
        # write_output of a group member that was never mentioned on its own raises KeyError in Batch.write_output (outside this property)
        own = [x[1] for o in ops if o['op'] == 'command' and o['job'] == j for x in o['segs'] if x[0] == 'R' and x[1][0] in ('job', 'jobgroup', 'jobgroupfile') and x[1][1] == j]
        if own and rng.random() < 0.3:
            ops.append({'op': 'write_output', 'res': rng.choice(own), 'dest': f'gs://out-bucket/result{j}'})
    return {'token_stream': toks, 'jobs': jobs, 'inputs': inputs, 'input_groups': input_groups, 'ops': ops,
            'flags': {'digit_after_ref': digit_after_ref, 'dup_tokens': dup_tokens, 'errors': errors}}


# PythonJob scenarios: resources reach a PythonJob through the arguments of j.call(f, *args, **kwargs) (positional, keyword, nested in
# lists / tuples / dicts), its results are used raw (by other calls) and through as_str() / as_repr() / as_json() (by calls and commands)

def py_wrap(a, path, fill):
    for depth, k in enumerate(path):
        if k == 'd':
            a = ['d', ([['p', fill]] if depth % 2 else []) + [['key', a]]]
        else:
            a = [k, ([fill] if depth % 2 == 0 else []) + [a]]
    return a


def gen_py_scenario(rng, views=None, consumer=None):
    """views/consumer given: the systematic family (one producer result, the consumer uses exactly these views, in this order)."""
    names = ['prod', 'a', 'b', None, 'x y', 'same', 'same', 'q.z']
    if views is not None:
        n = 2
        kinds = ['py', consumer]
        topo = [0, 1]
    else:
        n = rng.randint(2, 5)
        kinds = [rng.choice(['py', 'py', 'bash']) for _ in range(n)]
        if 'py' not in kinds:
            kinds[rng.randrange(n)] = 'py'
        topo = list(range(n))
        rng.shuffle(topo)
    jobs = [{'name': rng.choice(names), 'kind': k} for k in kinds]
    toks = [token(rng) for _ in range(n + 6)]
    inputs = [rng.choice(['/data/in.txt', 'gs://bkt/in file.txt', '/d/x.vcf']) for _ in range(rng.randint(0, 1))]
    idents = ['out', 'res', 'f1', 'o 2', 'o10']
    avail = []          # references defined so far (by jobs earlier in the data-flow order)
    ops = []
    ncalls = 0
    results_of = {}

    def filler():
        return ['v', rng.choice([0, 'x', None, 1.5, True])]

    def pick(for_bash):
        ref = list(rng.choice(avail))
        if ref[0] == 'res':
            ref.append(rng.choice(['str', 'repr', 'json'] if for_bash else ['raw', 'str', 'repr', 'json']))
        return ref

    for pos, j in enumerate(topo):
        if kinds[j] == 'bash':
            own = []
            planned = [['res', 0, v] for v in views] if views is not None else None
            for _ in range(rng.randint(1, 2)):
                segs = [['T', rng.choice(['cat ', 'run ', 'echo x > ', 'true;']) + text(rng, True)]]
                refs = []
                if planned:
                    refs, planned = planned, None
                else:
                    for _ in range(rng.randint(0, 3)):
                        k = rng.random()
                        if k < 0.4 or not avail:
                            ref = ['job', j, rng.choice(idents)]
                            if ref not in own:
                                own.append(ref)
                        elif k < 0.9:
                            ref = pick(True)
                        elif inputs:
                            ref = ['input', 0]
                        else:
                            continue
                        refs.append(ref)
                for ref in refs:
                    segs.append(['R', ref])
                    segs.append(['T', (' ' + text(rng, False)) if ref[0] == 'res' or rng.random() < 0.5 else text(rng, False)])
                ops.append({'op': 'command', 'job': j, 'segs': segs})
            avail += own
        else:
            for c in range(rng.randint(1, 2)):
                args, kwargs = [filler() for _ in range(rng.randint(0, 2))], []
                if views is not None and j == 1 and c == 0:
                    chosen = [['res', 0, v] for v in views]
                elif views is not None:
                    chosen = []
                else:
                    chosen = [pick(False) for _ in range(rng.choice([0, 1, 1, 2, 3]) if avail else 0)]
                    if inputs and rng.random() < 0.15:
                        chosen.append(['input', 0])
                for ref in chosen:
                    path = ''.join(rng.choice('ltd') for _ in range(rng.choice([0, 1, 1, 2, 3])))
                    a = py_wrap(['r', ref], path, filler())
                    if rng.random() < 0.5:
                        args.insert(rng.randint(0, len(args)), a)
                    else:
                        kwargs.append([f'kw{len(kwargs)}', a])
                ops.append({'op': 'call', 'job': j, 'args': args, 'kwargs': kwargs, 'fn': 'g' if args and rng.random() < 0.5 else 'f'})
                avail.append(['res', ncalls])
                results_of.setdefault(j, []).append(ncalls)
                ncalls += 1
    for j in range(n):
        if kinds[j] == 'py' and rng.random() < 0.3:
            k = rng.choice(results_of[j])
            ops.append({'op': 'write_output', 'res': ['res', k, rng.choice(['raw', 'str', 'repr', 'json'])], 'dest': f'gs://out-bucket/py{j}'})
    return {'token_stream': toks, 'jobs': jobs, 'inputs': inputs, 'input_groups': [], 'ops': ops,
            'flags': {'py': True, 'digit_after_ref': False, 'dup_tokens': False, 'errors': False}}


def py_view_family(rng):
    """One producer result x every non-empty ordered selection of its as_str / as_repr / as_json views x Bash / Python consumer."""
    import itertools
    out = []
    for k in (1, 2, 3):
        for vs in itertools.permutations(['str', 'repr', 'json'], k):
            for consumer in ('bash', 'py'):
                out.append(gen_py_scenario(rng, views=list(vs), consumer=consumer))
    return out


def corpus_cases():
    import glob
    out = []
    for f in sorted(glob.glob(os.path.join(os.path.dirname(os.path.dirname(os.path.dirname(os.path.abspath(__file__)))), 'corpus', 'C18', '*.json'))):
        out.append(json.load(open(f))['case'])
    return out


def cases(ctx, scale):
    rng = ctx.rng
    out = corpus_cases()
    n = ctx.scale(250, 3000) * scale
    for i in range(n):
        out.append(gen_scenario(rng, digit_after_ref=(i % 7 == 3), dup_tokens=(i % 5 == 1), errors=(i % 4 == 2)))
    out += py_view_family(rng)
    for i in range(ctx.scale(100, 1500) * scale):
        out.append(gen_py_scenario(rng))
    return out


# ------------------------------------------------------------------------------------------------
# both sides

def run_impl(ctx, cs):
    res, consts = [], None
    for i in range(0, len(cs), 800):
        r = ctx.run_impl('c18_dsl_resources.py', {'cases': cs[i:i + 800]}, timeout=900)
        res += r['results']
        consts = r['constants']
    return res, consts


def split_uid(uid):
    for p in PREFIXES:
        if uid.startswith(p):
            return KIND[p], uid[len(p):]
    raise ValueError(uid)


def tbl_lit(table, known):
    items = []
    for e in table:
        if e['uid'] in known:
            k, ds = split_uid(e['uid'])
            items.append(f'({k}, {chars(ds)}, {chars(e["path"])})')
    return listlit(items)


def dec(v):
    return ''.join(chr(x) for x in v)


def correspond(ctx):
    cs = cases(ctx, 1)
    impl, consts = run_impl(ctx, cs)
    dis = []
    # (0) the constants the model hard-codes
    want_patterns = [f'(?P<{p.strip("_")}>{p}\\d+)' for p in PREFIXES]
    if consts['prefixes'] != PREFIXES or consts['patterns'] != want_patterns:
        raise TieBroken('uid-syntax', f'uid prefixes/patterns changed: {consts}')
    mk = coq_eval(ctx, HEADER, ['map snd kinds'], label='kinds')[0]
    if [dec(x) for x in mk] != PREFIXES:
        dis.append(Disagreement('Model.kinds~uid prefixes', None, [dec(x) for x in mk], PREFIXES))
    # (1) interpolation of every command
    exprs, meta = [], []
    for ci, (c, r) in enumerate(zip(cs, impl)):
        tab = {e['uid']: e for e in r['table']}
        for oi, o in enumerate(r['ops']):
            if o['op'] == 'command':
                exprs.append(f'interpolate (repl_of {tbl_lit(r["table"], set(o["known"]))}) false {chars(o["flat"])}')
                meta.append((ci, oi))
    vals = coq_eval(ctx, HEADER, exprs, shard=120, label='interp')
    found_refs = {}
    n_cmd = n_err = 0
    for (ci, oi), v in zip(meta, vals):
        o = impl[ci]['ops'][oi]
        n_cmd += 1
        if isinstance(v, tuple) and v[0] == 'Ok':
            out, refs = v[1]
            m_text = dec(out)
            m_refs = [PREFIXES[['KFile', 'KGroup', 'KPy', 'KJob', 'KBatch'].index(k)] + dec(ds) for k, ds in refs]
            found_refs[(ci, oi)] = m_refs
            # the DSL may still reject the command for a reason outside the text (EInvalid), handled by the bookkeeping model
            if o.get('result') != m_text and o.get('error') != 'EInvalid':
                dis.append(Disagreement('Model.interpolate~Job._interpolate_command (text)', cs[ci], m_text, o.get('result', o.get('error'))))
        else:
            n_err += 1
            if o.get('error') != v[1] and o.get('error') != 'EInvalid':      # validity is decided by the bookkeeping, not by the text
                dis.append(Disagreement('Model.interpolate~Job._interpolate_command (error)', cs[ci], v[1], o.get('result', o.get('error'))))
    # (2) bookkeeping + file lists, (3) tokens
    exprs2, meta2 = [], []
    for ci, (c, r) in enumerate(zip(cs, impl)):
        uids = [e['uid'] for e in r['table']]
        rid = {u: i for i, u in enumerate(uids)}
        info = listlit([f'R {"None" if e["src"] is None else "(Some %d)" % e["src"]} {nl([rid[m] for m in e["members"]])} '
                        f'{"None" if e["group"] is None else "(Some %d)" % rid[e["group"]]}' for e in r['table']])
        ops, pieces = [], []

        def arg_lit(t):
            if t[0] == 'v':
                return 'AVal'
            if t[0] == 'r':
                return f'(ARes {rid[t[1]]})'
            if t[0] == 'd':
                return '(ASeq ' + listlit([arg_lit(x) for _, x in t[1]]) + ')'
            return '(ASeq ' + listlit([arg_lit(x) for x in t[1]]) + ')'
        for oi, o in enumerate(r['ops']):
            # as_str()/as_repr()/as_json() evaluated while the operation was being written: a new file of the PRODUCING job
            ops += [f'Mention {p} {rid[u]}' for p, u in o.get('pre_views', [])]
            if o['op'] == 'declare':
                ops.append(f'Declare {o["job"]} {rid[o["group"]]}')
            elif o['op'] == 'command' and (ci, oi) in found_refs:
                ops += [f'Mention {o["job"]} {rid[u]}' for u in found_refs[(ci, oi)] if u in rid]
            elif o['op'] == 'call' and 'result' in o:
                # PythonJob.call: Model.call_ops over the argument TREE (Model.reach finds the resources), kwargs after args
                pieces += [listlit(ops), f'call_ops {o["job"]} {listlit([arg_lit(t) for t in o["args"]] + [arg_lit(t) for _, t in o["kwargs"]])} {rid[o["result"]]}']
                ops = []
        pieces.append(listlit(ops))
        n = len(c['jobs'])
        stream = listlit([chars(t) for t in c['token_stream']])
        exprs2.append(f'(let r := run_ops (info_of {info}) init ({" ++ ".join(pieces)}) in (show_state {n} r, show_files {info} {n} r), '
                      f'alloc_tokens {n} [] {stream})')
        meta2.append((ci, rid))
    vals2 = coq_eval(ctx, HEADER, exprs2, shard=60, label='plumb')
    hist = {'ok': 0, 'EInvalid': 0, 'text-error': 0}
    distinct = set()
    for (ci, rid), v in zip(meta2, vals2):
        c, r = cs[ci], impl[ci]
        mstate, mfiles, mtokens = v
        distinct.add(json.dumps([c['jobs'], c['ops']]))
        if (c.get('flags') or {}).get('py'):
            hist['pythonjob-scenarios'] = hist.get('pythonjob-scenarios', 0) + 1
        if [dec(t) for t in mtokens] != r['tokens']:
            dis.append(Disagreement('Model.alloc_tokens~Batch._unique_job_token', c, [dec(t) for t in mtokens], r['tokens']))
        err = (r['error'] or {}).get('class')
        last_cmd = max((oi for oi, o in enumerate(r['ops']) if o['op'] == 'command'), default=None)
        if err == 'EInvalid' and (ci, last_cmd) not in found_refs:
            hist['text-error'] += 1          # the same command also has a text-level error further right: the model stops there
            continue
        if err == 'EInvalid':
            hist['EInvalid'] += 1
            if mstate is not None:
                dis.append(Disagreement('Model.run_ops~DSL (EInvalid expected)', c, 'state', 'EInvalid'))
            continue
        if err is not None:
            hist['text-error'] += 1
            continue
        hist['ok'] += 1
        if mstate is None:
            dis.append(Disagreement('Model.run_ops~DSL (model rejects)', c, 'EInvalid', 'ok'))
            continue
        inv = {i: u for u, i in rid.items()}
        mstate = mstate[1] if isinstance(mstate, tuple) and mstate[0] == 'Some' else mstate
        for j, (ms, st) in enumerate(zip(mstate, r['state'])):
            mi, mo, md, mv, mm = ms
            got = (sorted({inv[x] for x in mi}), sorted({inv[x] for x in mo}), sorted(set(md)), sorted({inv[x] for x in mv}), sorted({inv[x] for x in mm}))
            want = (st['inputs'], st['outputs'], st['deps'], st['valid'], st['mentioned'])
            if got != want:
                dis.append(Disagreement('Model.run_ops~DSL bookkeeping (inputs, outputs, deps, valid, mentioned)', c, got, want))
                break
        sub = r['submitted']
        if not sub or 'error' in sub:
            dis.append(Disagreement('ServiceBackend._async_run failed', c, None, sub))
            continue
        paths = {e['uid']: e['path'] for e in r['table']}
        by_job = {s['job']: s for s in sub['jobs'] if s['job'] is not None}
        for j, (mi, mo, mp) in enumerate(mfiles):
            s = by_job.get(j)
            if s is None:
                dis.append(Disagreement('create_job missing for a job', c, j, None))
                break
            local = s['env']['BATCH_TMPDIR']
            remote = 'gs://verif-bucket/tmp/' + local.rsplit('/', 1)[1]
            m_in = sorted({(remote + paths[inv[f]], local + paths[inv[f]]) for f in mi})
            m_out = sorted({(local + paths[inv[f]], remote + paths[inv[f]]) for f in mo})
            # job files only (the model's job_input_files): input resource files — incl. the pickled function / argument files of a
            # PythonJob, which live under <local>/inputs/ — are judged by the oracle
            i_in = sorted(tuple(x) for x in s['input_files']
                          if x[0].startswith(remote + '/') and '/inputs/' not in x[0] and not x[1].startswith(local + '/inputs/'))
            i_out = sorted(tuple(x) for x in s['output_files'] if x[1].startswith(remote + '/'))
            if (m_in, m_out, sorted(set(mp))) != (i_in, i_out, sorted(set(s['parents']))):
                dis.append(Disagreement('Model.job_input_files/job_output_files/job_parents~create_job(input_files, output_files, parents)', c,
                                        [m_in, m_out, sorted(set(mp))], [i_in, i_out, sorted(set(s['parents']))]))
                break
    return Corr(evaluations=len(cs) + n_cmd, distinct_nontrivial=len(distinct),
                rule='scenario = (jobs, scripted token stream, inputs, declare/command/write_output operations with commands as text + references); '
                     'seeded random, 1 in 7 with a digit right after a reference, 1 in 5 with a repeating token stream, 1 in 4 with Job/Batch/undefined '
                     'references; real DSL + ServiceBackend._async_run (fake client) vs Model.interpolate / run_ops / job_*_files / alloc_tokens by vm_compute',
                samples=[{'case': c, 'impl': {'ops': r['ops'][:3], 'tokens': r['tokens']}} for c, r in list(zip(cs, impl))[-2:]],
                disagreements=dis, histograms={'scenario_outcome': hist, 'commands': n_cmd, 'commands_model_error': n_err},
                names=['Model.interpolate~Job._interpolate_command', 'Model.run_ops~DSL bookkeeping', 'Model.job_*_files~create_job', 'Model.alloc_tokens~_unique_job_token'])


# ------------------------------------------------------------------------------------------------
# oracle (implementation only)

def judge(c, r):
    fails = []
    table = {e['uid']: e for e in r['table']}
    view_uids = {u for o in r['ops'] for _, u in o.get('pre_views', [])}
    # (d) distinct resources never share a path
    seen = {}
    for e in r['table']:
        if e['kind'] == 'file':
            if e['path'] in seen and seen[e['path']] != e['uid']:
                a = table[seen[e['path']]]
                if a['src'] is not None and e['src'] is not None and a['src'] != e['src']:
                    fails.append(Failure('job-dir-collision', f'two jobs got the same directory ({r["state"][a["src"]]["dirname"]}): resources '
                                         f'{a["uid"]} and {e["uid"]} share the path {e["path"]}', c, 'distinct paths', e['path']))
                elif a['uid'] in view_uids or e['uid'] in view_uids or '__PYTHON_RESULT__' in a['uid'] + e['uid']:
                    fails.append(Failure('python-result-path-collision', f'distinct resources of a PythonJob (a result / its as_str, as_repr, as_json files) '
                                         f'share the path {e["path"]}', c, 'distinct paths', [a['uid'], e['uid']]))
                else:
                    fails.append(Failure('path-collision', f'distinct resources share the path {e["path"]}', c, 'distinct paths', [a['uid'], e['uid']]))
                break
            seen[e['path']] = e['uid']
    # (c) references replaced, nothing else changed
    for o in r['ops']:
        if o['op'] != 'command' or o['expected'] is None:
            continue
        got = o.get('result', 'raised ' + str(o.get('error')))
        if o.get('error') == 'EInvalid':
            continue
        if got != o['expected']:
            key = 'digit-after-reference' if _digit_follows_ref(c, r, o) else 'interpolation'
            fails.append(Failure(key, 'a command is not "text unchanged, each reference replaced by ${BATCH_TMPDIR} + quoted path"', c, o['expected'], got))
            break
    # (a), (b) upload location = download location, consumer is a child of the producer
    sub = r.get('submitted')
    if r['error'] is None and sub and 'error' not in sub:
        by_job = {s['job']: s for s in sub['jobs'] if s['job'] is not None}
        uploads = {u['to']: u['from'] for u in sub['uploads']}
        for j, st in enumerate(r['state']):
            s = by_job.get(j)
            if s is None:
                fails.append(Failure('job-not-submitted', f'job {j} was not submitted', c, None, None))
                break
            local = s['env']['BATCH_TMPDIR']
            dl = {dst: src for src, dst in s['input_files']}
            for u in st['inputs']:
                e = table[u]
                lpath = local + e['path']
                if lpath not in dl:
                    fails.append(Failure('input-not-downloaded', f'job {j} reads {u} but does not download it to {lpath}', c, lpath, s['input_files']))
                    break
                if e['src'] is not None:
                    p = by_job.get(e['src'])
                    up = sorted(dst for src, dst in (p['output_files'] if p else []) if src == local + e['path'])
                    if p is None or dl[lpath] not in up:
                        fails.append(Failure('upload-download', f'job {j} downloads {u} from {dl[lpath]} but its producer uploads it to {up}',
                                             c, dl[lpath], up))
                        break
                    if e['src'] not in s['parents']:
                        fails.append(Failure('not-child', f'job {j} reads {u} of job {e["src"]} but is not submitted as its child', c, e['src'], s['parents']))
                        break
                elif e.get('input_path') and '://' not in e['input_path'] and uploads.get(dl[lpath]) != e['input_path']:
                    fails.append(Failure('input-upload', f'local input {e["input_path"]} is not uploaded to where job {j} downloads it from', c, dl[lpath], uploads))
                    break
            # every path substituted into the command is one the job downloads or owns
            for u in st['mentioned']:
                e = table[u]
                if e['kind'] == 'file' and e['src'] is not None and e['src'] != j and ('${BATCH_TMPDIR}' not in s['command']):
                    fails.append(Failure('command-path', 'command lost its resource paths', c, None, s['command']))
        fails += judge_pycalls(c, r, sub, by_job, table)
    return fails


def judge_pycalls(c, r, sub, by_job, table):
    """PythonJob: (e1) every resource reachable in the arguments of a call reaches the function as the LOCAL path of that very resource,
    and that path is one the job downloads (or produces itself); (e2) the pickled arguments are downloaded from where they were written and
    opened by the wrapper; (e3) the wrapper writes the result and each converted view (json/str/repr) to the path of that view's resource,
    once, with the matching formatter — so what a consumer of as_str() downloads is what the producer wrote for as_str()."""
    import re
    fails = []
    call_ops = {}
    for o in r['ops']:
        if o['op'] == 'call' and 'result' in o:
            call_ops[o['result']] = o
    for pc in sub.get('pycalls', []):
        o = call_ops.get(pc['result'])
        s = by_job.get(pc['job'])
        if o is None or s is None:
            continue
        j = pc['job']
        local = s['env']['BATCH_TMPDIR']
        dl = {dst: src for src, dst in s['input_files']}
        if pc['prepared'] is None or len(pc['args_files']) != 1 or pc['args_local'] is None:
            fails.append(Failure('pycall-args-file', f'call {pc["index"]} of job {j}: no unique pickled-arguments file', c, 'one file', pc['args_files']))
            continue
        if dl.get(local + pc['args_local']) != pc['args_files'][0] or ("'${BATCH_TMPDIR}" + pc['args_local'] + "'") not in (pc['wrapper'] or ''):
            fails.append(Failure('pycall-args-file', f'call {pc["index"]} of job {j}: the arguments written to {pc["args_files"][0]} are not the file '
                                 'the job downloads and its wrapper opens', c, pc['args_files'][0], dl.get(local + pc['args_local'])))
            continue
        problems = []

        def walk(t, p):
            if t[0] == 'v':
                if p[0] != 'value':
                    problems.append(('pycall-arg-shape', t, p))
            elif t[0] == 'r':
                e = table[t[1]]
                if e['kind'] == 'group':
                    want = sorted(local + table[m]['path'] for m in e['members'])
                    if p[0] != 'dict_path' or sorted(p[1].values()) != want:
                        problems.append(('pycall-arg-path', want, p))
                    paths, files = want, e['members']
                else:
                    tag = 'py_path' if t[1].startswith('__PYTHON_RESULT__') else 'path'
                    if p != [tag, local + e['path']]:
                        problems.append(('pycall-arg-path', [tag, local + e['path']], p))
                    paths, files = [local + e['path']], [t[1]]
                for path, f in zip(paths, files):
                    if table[f]['src'] != j and path not in dl:
                        problems.append(('pycall-arg-not-downloaded', path, sorted(dl)))
            elif t[0] in ('l', 't'):
                if p[0] != {'l': 'list', 't': 'tuple'}[t[0]] or len(p[1]) != len(t[1]):
                    problems.append(('pycall-arg-shape', t, p))
                else:
                    for x, y in zip(t[1], p[1]):
                        walk(x, y)
            else:
                if p[0] != 'dict' or sorted(p[1]) != sorted(k for k, _ in t[1]):
                    problems.append(('pycall-arg-shape', t, p))
                else:
                    for k, x in t[1]:
                        walk(x, p[1][k])
        pargs, pkwargs = pc['prepared']
        if len(pargs) != len(o['args']) or sorted(pkwargs) != sorted(k for k, _ in o['kwargs']):
            problems.append(('pycall-arg-shape', [o['args'], o['kwargs']], pc['prepared']))
        else:
            for t, p in zip(o['args'], pargs):
                walk(t, p)
            for k, t in o['kwargs']:
                walk(t, pkwargs[k])
        if problems:
            key, want, got = problems[0]
            fails.append(Failure(key, f'call {pc["index"]} of job {j}: an argument does not reach the function as the local path of the resource that '
                                 'was passed / that path is not downloaded', c, want, got))
            continue
        # (e3) what the wrapper writes
        w = pc['wrapper'] or ''
        writes = sorted((m.group(1), m.group(2)) for m in re.finditer(r"with open\('([^'\n]*)', 'w'\) as out:\s*out\.write\(([\w.]+)\(result\)", w))
        want = sorted(("${BATCH_TMPDIR}" + _shq(table[u]['path']), {'json': 'json.dumps', 'str': 'str', 'repr': 'repr'}[v])
                      for v, u in pc['views'].items() if u is not None)
        raw = re.findall(r"with open\('([^'\n]*)', 'wb'\) as dill_out", w)
        if writes != want or raw != ["${BATCH_TMPDIR}" + _shq(table[pc['result']]['path'])]:
            fails.append(Failure('python-result-view-write', f'job {j}: the wrapper of call {pc["index"]} does not write the result and each of its '
                                 'as_json/as_str/as_repr files exactly once, to the path of that resource, with the matching formatter', c,
                                 want, {'views': writes, 'result': raw}))
    return fails


def _shq(s):
    import shlex
    return shlex.quote(s)


def _digit_follows_ref(c, r, o):
    """Does some reference of this command have a digit right after it in the flat string?"""
    flat = o['flat']
    for u in o['user_refs']:
        i = flat.find(u)
        while i >= 0:
            j = i + len(u)
            if j < len(flat) and flat[j].isdigit():
                return True
            i = flat.find(u, i + 1)
    return False


def oracle(ctx, budget):
    cs = cases(ctx, budget)
    impl, _ = run_impl(ctx, cs)
    fails = []
    hist = {}
    for c, r in zip(cs, impl):
        fs = judge(c, r)
        fails += fs
        k = 'error:' + r['error']['class'].split(':__')[0] if r['error'] else 'ok'
        hist[k] = hist.get(k, 0) + 1
    return fails, {'evaluations': len(cs), 'distinct_nontrivial': len({json.dumps([c['jobs'], c['ops']]) for c in cs}),
                   'rule': 'oracle: expected command text built from the very objects interpolated; path uniqueness; create_job '
                           'input/output pairs matched between producer and consumer; parents; local-input uploads',
                   'histograms': {'oracle_scenarios': hist}}


def replay(ctx, doc):
    c = doc['case']
    impl, _ = run_impl(ctx, [c])
    r = impl[0]
    return {'case': c, 'impl': {'tokens': r['tokens'], 'error': r['error'], 'ops': r['ops'], 'dirnames': [s['dirname'] for s in r['state']],
                                'paths': {e['uid']: e['path'] for e in r['table']}},
            'oracle': [{'key': f.key, 'what': f.what, 'expected': f.expected, 'observed': f.observed} for f in judge(c, r)]}
