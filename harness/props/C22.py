"""C22 — the copy tool reproduces its sources exactly (hailtop/aiotools/fs/copier.py on LocalAsyncFS).

Tie: X.  Hand model coq/theories/Copy/Model.v (chunk arithmetic of _copy_file / _copy_file_multi_part_main / _copy_part with
positional writes; file tree path -> File bytes | Dir, Transfer modes, _full_dest, source classification, errors) against the
real Copier on the real LocalAsyncFS in a scratch directory under ctx.work, with copy_part_size and BUFFER_SIZE patched small
and task interleavings varied by seeded yields.  Partial: the OS file system is real, not modelled; the model runs the
sources/transfers one after the other.
"""
import ast
import itertools
import json
import os

from harness.core import Corr, Disagreement, Failure, coq_eval, listlit, blit

ID = 'C22'
SRC = ['hail/python/hailtop/aiotools/fs/copier.py', 'hail/python/hailtop/aiotools/copy.py',
       'hail/python/hailtop/aiotools/local_fs.py', 'hail/python/hailtop/aiotools/router_fs.py']
COQ_PROPS = 'theories/Copy/Props_C22.v'
READY = True
META = dict(
    design_ref='§5.D C22',
    technique='Coq proofs (tilings of [0,size) by the part/buffer arithmetic; positional writes in any order; finite-map file trees) about a '
              'hand-written executable model, tied to the real Copier/LocalAsyncFS by a differential run in a scratch directory',
    level_text='Machine-checked theorems (Coq 8.16, closed under the global context): for ALL data, part sizes > 0 and buffer sizes > 0 the '
               '(offset,length) transfers of the single- and multi-part code paths tile [0,size) — read in order they concatenate to the data, '
               'and written at their offsets in ANY order (any interleaving of the concurrent parts, with retries) they reproduce the data; '
               'for ALL file trees, sources, destinations and treat-destination-as modes: the destination path follows the three documented '
               'rules; a successful copy leaves every source file byte-identical at its destination and every other path untouched; a failing '
               'copy raises FileNotFound/IsADirectory/NotADirectory for the documented cause; in any sequence of transfers what a step wrote '
               'stays byte-identical unless a later step writes the same path. Hand model compared with the real Copier on LocalAsyncFS: the '
               'repository\'s own 324-configuration grid, file sizes around every part/buffer boundary, random trees with conflicting '
               'destination states, lists of sources and of transfers, varied interleavings.',
    level_note='PARTIAL: the operating system\'s file-system behaviour (open/mkdir/scandir error codes, sparse r+b writes) is real and enters '
               'the model only through the correspondence run; concurrency of whole sources/transfers is modelled as sequential composition '
               '(finer interleavings are exercised by the run, not proved) — only the chunk-level interleaving of one multi-part file is proved '
               'for all orders. FileAndDirectoryError cannot occur on a local file system and is not modelled; cloud back ends, symlinks and '
               'RouterAsyncFS dispatch are out of scope. A source path with a regular file in the middle raises NotADirectoryError (modelled as such).',
    partial=True,
)
TRUSTED = ['correspondence harness/props/C22.py + harness/impl/c22_copy.py (hand model vs real Copier/LocalAsyncFS; LocalAsyncFS subclass with '
           'small copy_part_size, Copier.BUFFER_SIZE patched, blocking_to_async replaced by synchronous call + seeded yields, os.fsync disabled)',
           'the Linux file system under /verif/.work as the semantics of open/makedirs/scandir/stat']
ASSUMPTIONS = ['local paths only; no symlinks; part size > 0 and buffer size > 0',
               'sources/transfers of one Copier.copy call do not write to each other\'s sources or targets (the sequential model is order-independent there)']

SPEC_FILE = 'hail/python/test/hailtop/inter_cloud/copy_test_specs.py'
MODES = {'dest_dir': 'DestDir', 'dest_is_target': 'DestIsTarget', 'infer_dest': 'InferDest'}
ERR = {'ENOENT': 'FileNotFoundError', 'EISDIR': 'IsADirectoryError', 'ENOTDIR': 'NotADirectoryError'}
ECODE = {0: 'ok', 1: 'FileNotFoundError', 2: 'IsADirectoryError', 3: 'NotADirectoryError'}

HEADER = '''From HailV Require Import Common.Prelude Copy.Model Copy.LemmasTree.
Definition ecode (e : err) : nat := match e with ENOENT => 1 | EISDIR => 2 | ENOTDIR => 3 end.
Definition rcode {T} (r : res T) : nat := match r with Ok _ => 0 | Err e => ecode e end.
Definition step_codes (s : fsys) (steps : list step) : list (nat * list nat) :=
  map (fun st => let '(t, src, slash) := st in
         (rcode (copy_source s t src slash), map (fun w => rcode (write_file s (fst w) (snd w))) (step_writes s t src slash))) steps.
Definition T (l : bool) (d : path) (ds : bool) (m : mode) : transfer := {| t_is_list := l; t_dest := d; t_dest_slash := ds; t_mode := m |}.
'''


# ------------------------------------------------------------------------------------------------
# scenarios

def B(s):
    return list(s.encode())


def scn(fs, transfers, part=4, buf=3, sema=3, seed=0, tag=''):
    return {'fs': fs, 'transfers': transfers, 'part': part, 'buf': buf, 'sema': sema, 'seed': seed, 'tag': tag}


def xfer(srcs, dest, dest_slash, mode, is_list=None):
    return {'srcs': srcs, 'is_list': (len(srcs) > 1) if is_list is None else is_list, 'dest': dest, 'dest_slash': dest_slash, 'mode': mode}


def grid():
    """The repository's own copy-behaviour grid (test/hailtop/inter_cloud/generate_copy_test_specs.py), in the model's vocabulary:
    1 = src base, 2 = dest base, 10 = 'a', 20 = 'x', 11 = file1, 12 = subdir, 13 = file2, 14 = file3, 9 = keep."""
    out = []
    for src_type in ['file', 'dir', 'noexist']:
        for dest_type in ['file', 'dir', 'noexist']:
            for dest_basename in [None, 'a', 'x']:
                for mode in ['dest_dir', 'dest_is_target', 'infer_dest']:
                    for src_slash in [True, False]:
                        for dest_slash in [True, False]:
                            fs = [[[1], 'D'], [[2], 'D'], [[2, 9], []]]
                            if src_type == 'file':
                                fs.append([[1, 10], B('src/a')])
                            elif src_type == 'dir':
                                fs += [[[1, 10], 'D'], [[1, 10, 11], B('src/a/file1')], [[1, 10, 12], 'D'], [[1, 10, 12, 13], B('src/a/subdir/file2')]]
                            if dest_type == 'file':
                                fs.append([[2, 10], B('dest/a')])
                            elif dest_type == 'dir':
                                fs += [[[2, 10], 'D'], [[2, 10, 12], 'D'], [[2, 10, 12, 13], B('dest/a/subdir/file2')], [[2, 10, 14], B('dest/a/file3')]]
                            dest = [2] if dest_basename is None else ([2, 10] if dest_basename == 'a' else [2, 20])
                            s = scn(fs, [xfer([[[1, 10], src_slash]], dest, dest_slash, mode)], part=4, buf=3, seed=len(out),
                                    tag='grid')
                            s['grid'] = {'src_type': src_type, 'dest_type': dest_type, 'dest_basename': dest_basename, 'treat_dest_as': mode,
                                         'src_trailing_slash': src_slash, 'dest_trailing_slash': dest_slash}
                            out.append(s)
    return out


def size_sweep(ctx, scale):
    """One file, sizes around every part / buffer boundary."""
    rng = ctx.rng
    out = []
    combos = [(p, b) for p in (1, 2, 3, 5, 8) for b in (1, 2, 3, 4, 7, 16)]
    if not ctx.thorough:
        combos = [c for c in combos if c in {(1, 1), (2, 1), (2, 3), (3, 2), (5, 2), (5, 7), (8, 3), (8, 16), (3, 4), (5, 4)}]
    for part, buf in combos:
        sizes = {0, 1, part - 1, part, part + 1, 2 * part - 1, 2 * part, 2 * part + 1, 3 * part, 3 * part + 1, buf, buf + 1,
                 part + buf, 2 * part + buf + 1, 4 * part + 1}
        sizes |= {rng.randint(0, 40) for _ in range(2 * scale)}
        for size in sorted(x for x in sizes if x >= 0):
            data = [rng.randrange(256) for _ in range(size)]
            fs = [[[1], 'D'], [[1, 10], data], [[2], 'D']]
            out.append(scn(fs, [xfer([[[1, 10], False]], [2, 20], False, 'dest_is_target')], part=part, buf=buf,
                           sema=rng.choice([1, 2, 5]), seed=rng.randrange(1 << 30), tag='size'))
    return out


def rand_subtree(rng, base, depth, names):
    """(path, entry) list for a directory `base` (entry for base itself included)."""
    out = [[base, 'D']]
    for n in rng.sample(names, rng.randint(0, min(3, len(names)))):
        p = base + [n]
        if depth > 0 and rng.random() < 0.4:
            out += rand_subtree(rng, p, depth - 1, names)
        else:
            out.append([p, [rng.randrange(256) for _ in range(rng.choice([0, 1, 3, 4, 5, 9, 13]))]])
    return out


def random_scenarios(ctx, n):
    rng = ctx.rng
    names = [10, 11, 12, 13]
    out = []
    for _ in range(n):
        fs = [[[1], 'D']]
        srcs = []
        for nm in rng.sample(names, rng.randint(1, 2)):
            k = rng.random()
            p = [1, nm]
            if k < 0.35:
                fs.append([p, [rng.randrange(256) for _ in range(rng.choice([0, 1, 2, 4, 5, 7, 12, 20]))]])
            elif k < 0.85:
                fs += rand_subtree(rng, p, 2, names)
            # else: missing
            if rng.random() < 0.07:
                p = p + [rng.choice(names)]            # below the source (maybe under a file)
            if p[-1] in {q[-1] for q, _ in srcs}:
                continue            # two sources of one transfer with the same basename write each other's targets (outside the property)
            srcs.append([p, rng.random() < 0.25])
        n_transfers = 1 if rng.random() < 0.8 else 2
        fs.append([[2], 'D'])
        transfers = []
        for ti in range(n_transfers):
            area = [2] if n_transfers == 1 else [2, 30 + ti]
            if n_transfers > 1:
                fs.append([area, 'D'])
            # pre-existing destination state with names that collide with the sources'
            pre = rand_subtree(rng, area, 2, names)[1:] if rng.random() < 0.7 else []
            fs += pre
            depth = rng.choice([0, 1, 1, 1, 2])
            dest = area + [rng.choice(names + [20]) for _ in range(depth)]
            my_srcs = srcs if ti == 0 else [srcs[0]]
            is_list = len(my_srcs) > 1 or rng.random() < 0.15
            transfers.append(xfer(my_srcs, dest, rng.random() < 0.3, rng.choice(list(MODES)), is_list))
        # drop duplicate keys (pre-existing state may repeat a path)
        seen, fs2 = set(), []
        for p, e in fs:
            if tuple(p) not in seen:
                seen.add(tuple(p))
                fs2.append([p, e])
        # entries below a file are impossible: remove them
        files = {tuple(p) for p, e in fs2 if e != 'D'}
        fs2 = [[p, e] for p, e in fs2 if not any(tuple(p[:i]) in files for i in range(1, len(p)))]
        # parents must exist as directories
        have = {tuple(p) for p, _ in fs2}
        for p, e in list(fs2):
            for i in range(1, len(p)):
                if tuple(p[:i]) not in have:
                    have.add(tuple(p[:i]))
                    fs2.append([p[:i], 'D'])
        fs2.sort(key=lambda pe: pe[0])
        out.append(scn(fs2, transfers, part=rng.choice([2, 3, 4, 5]), buf=rng.choice([1, 2, 3, 6]), sema=rng.choice([1, 2, 4]),
                       seed=rng.randrange(1 << 30), tag='random'))
    return out


def corpus_cases():
    import glob
    out = []
    for f in sorted(glob.glob(os.path.join(os.path.dirname(os.path.dirname(os.path.dirname(os.path.abspath(__file__)))), 'corpus', 'C22', '*.json'))):
        out.append(json.load(open(f))['case'])
    return out


def cases(ctx, scale):
    return corpus_cases() + grid() + size_sweep(ctx, scale) + random_scenarios(ctx, ctx.scale(400, 6000) * scale)


# ------------------------------------------------------------------------------------------------
# both sides

def run_impl(ctx, cs):
    res = []
    for i in range(0, len(cs), 1500):
        res += ctx.run_impl('c22_copy.py', {'cases': cs[i:i + 1500]}, timeout=1200)['results']
    return res


def plit(p):
    return listlit([str(c) for c in p])


def fs_lit(fs):
    return listlit([f'({plit(p)}, {"D" if e == "D" else "F " + listlit([str(b) for b in e])})' for p, e in fs])


def steps_lit(c):
    steps = []
    for t in c['transfers']:
        tl = f'T {blit(t["is_list"])} {plit(t["dest"])} {blit(t["dest_slash"])} {MODES[t["mode"]]}'
        for p, slash in t['srcs']:
            steps.append(f'({tl}, {plit(p)}, {blit(slash)})')
    return listlit(steps)


def model_view(m):
    """('Ok', [(path, 'D' | ('F', bytes))...]) / ('Err', 'ENOENT') -> comparable"""
    if isinstance(m, tuple) and m[0] == 'Ok':
        tree = []
        for p, e in m[1]:
            tree.append([list(p), 'D' if e == 'D' else list(e[1])])
        return 'ok', sorted(tree, key=lambda pe: pe[0])
    if isinstance(m, tuple) and m[0] == 'Err':
        return ERR[m[1]], None
    raise ValueError(f'unexpected model value {m!r}')


def chunk_checks(c, r):
    """(kind, size, part, buf, observed (offset, length) list, data, write order) for every file the implementation wrote,
    from the destination-side instrumentation log (one record per destination file)."""
    out = []
    final = {tuple(p): e for p, e in r['tree']}
    for key, rec in r.get('log', {}).get('dest', {}).items():
        dest = tuple(json.loads(key))
        data = final.get(dest)
        if not isinstance(data, list):
            continue
        if rec.get('writes'):
            out.append(('multi', len(data), c['part'], c['buf'], sorted(rec['writes']), data, rec))
        else:
            out.append(('single', len(data), c['part'], c['buf'], rec.get('single_writes', []), data, rec))
    return out


def correspond(ctx):
    cs = cases(ctx, 1)
    impl = run_impl(ctx, cs)
    exprs = []
    for c in cs:
        exprs.append(f'(run {steps_lit(c)} {fs_lit(c["fs"])}, step_codes {fs_lit(c["fs"])} {steps_lit(c)})')
    model = coq_eval(ctx, HEADER, exprs, shard=150)
    dis = []
    hist = {}
    distinct = set()
    for c, r, m in zip(cs, impl, model):
        mres, codes = m
        mclass, mtree = model_view(mres)
        acceptable = {mclass}
        if mclass != 'ok':
            for code, wcodes in codes:
                if code:
                    acceptable.add(ECODE[code])
                acceptable |= {ECODE[w] for w in wcodes if w}
        hist[r['result']] = hist.get(r['result'], 0) + 1
        distinct.add(json.dumps([c['fs'], c['transfers']]))
        if mclass == 'ok':
            if r['result'] != 'ok' or r['tree'] != mtree:
                dis.append(Disagreement('Model.run~Copier.copy (final tree)', c, {'result': 'ok', 'tree': mtree}, {'result': r['result'], 'tree': r['tree']}))
        elif r['result'] not in acceptable:
            dis.append(Disagreement('Model.run~Copier.copy (error class)', c, sorted(acceptable), r['result']))
    # chunk arithmetic: model chunks vs the reads the implementation really issued; model pwrite vs the real sparse writes
    checks = []
    for c, r in zip(cs, impl):
        if r['result'] == 'ok':
            for chk in chunk_checks(c, r):
                checks.append((c, r, chk))
    keyset = sorted({(k[1], k[2], k[3]) for _, _, k in checks})
    ch = coq_eval(ctx, HEADER, [f'(chunks {s} {p} {b}, Nat.leb {s} {p})' for s, p, b in keyset], shard=300, label='chunks')
    chunks_of = {k: ([list(x) for x in v[0]], v[1]) for k, v in zip(keyset, ch)}
    n_multi = 0
    apply_exprs, apply_meta = [], []
    for c, r, (kind, size, part, buf, seq, data, _rec) in checks:
        mch, single = chunks_of[(size, part, buf)]
        if single != (kind == 'single') and size > 0:
            dis.append(Disagreement('Model.chunks~single/multi-part choice', c, 'single' if single else 'multi', kind))
        want = mch if kind == 'single' else sorted(mch)
        if seq != want:
            dis.append(Disagreement('Model.chunks~reads issued by _copy_file/_copy_part', c, want, seq))
        if kind == 'multi':
            n_multi += 1
    for c, r in zip(cs, impl):
        if r['result'] != 'ok':
            continue
        init = {tuple(p): e for p, e in c['fs']}
        final = {tuple(p): e for p, e in r['tree']}
        for key, rec in r.get('log', {}).get('dest', {}).items():
            dest = tuple(json.loads(key))
            if rec.get('writes') and isinstance(final.get(dest), list) and len(apply_exprs) < ctx.scale(300, 4000):
                data = final[dest]
                order = listlit([f'({o}, {n})' for o, n in rec['writes']])
                # the model writes slices of the (identical) data at the offsets and in the order the implementation wrote them
                apply_exprs.append(f'apply_chunks 0 {listlit([str(b) for b in data])} {order}')
                apply_meta.append((c, data, rec))
                # parts announced to create_part
                n = rec['n_parts'][-1]
                exp_parts = [[i, i * c['part'], (len(data) - i * c['part']) if i == n - 1 else c['part']] for i in range(n)]
                if sorted(rec['parts'][-n:]) != exp_parts:
                    dis.append(Disagreement('part table (number, start, size)', c, exp_parts, sorted(rec['parts'])))
    for (c, data, rec), v in zip(apply_meta, coq_eval(ctx, HEADER, apply_exprs, shard=100, label='apply')):
        if list(v) != data:
            dis.append(Disagreement('Model.apply_chunks~LocalMultiPartCreate positional writes', c, list(v), data))
    return Corr(evaluations=len(cs) + len(checks) + len(apply_exprs), distinct_nontrivial=len(distinct),
                rule='scenario = (initial tree, transfers with sources/dest/slashes/mode, part size, buffer size, semaphore, interleaving seed): the '
                     'repository\'s 324-configuration grid, one-file size sweeps around part/buffer boundaries, random trees with colliding destination '
                     'state, source lists, two transfers; real Copier.copy on LocalAsyncFS vs Model.run by vm_compute (final tree or error class), '
                     'Model.chunks vs the reads issued, Model.apply_chunks vs the real positional writes; distinct = distinct (tree, transfers)',
                samples=[{'case': c, 'impl': {'result': r['result'], 'tree': r['tree']}} for c, r in list(zip(cs, impl))[400:402]],
                disagreements=dis, histograms={'impl_result': hist, 'multi_part_files': n_multi, 'apply_chunks_checked': len(apply_exprs)},
                names=['Model.run~Copier.copy', 'Model.chunks~reads', 'Model.apply_chunks~positional writes'])


# ------------------------------------------------------------------------------------------------
# oracle: the property on the implementation only

def judge(c, r):
    init = {tuple(p): e for p, e in c['fs']}

    def kind(p):
        if p == ():
            return 'D'
        e = init.get(p)
        return None if e is None else ('D' if e == 'D' else 'F')

    def file_prefix(p):
        return any(kind(p[:i]) == 'F' for i in range(1, len(p)))

    causes = set()
    writes = {}
    for t in c['transfers']:
        mode, dslash, is_list, dest = t['mode'], t['dest_slash'], t['is_list'], tuple(t['dest'])
        if mode == 'dest_is_target' and is_list:
            causes.add('NotADirectoryError')
            continue
        for src, slash in t['srcs']:
            src = tuple(src)
            k = kind(src)
            if file_prefix(src):
                causes.add('FileNotFoundError' if slash else 'NotADirectoryError')    # missing source, below a regular file
                continue
            if k is None or (k == 'F' and slash):
                causes.add('FileNotFoundError')
                continue
            infer = mode == 'infer_dest' and not dslash
            if mode == 'dest_dir' or (mode == 'infer_dest' and (dslash or is_list or kind(dest) == 'D')):
                fd = dest + (src[-1],)
            else:
                fd = dest
            if infer and not is_list and file_prefix(dest):
                causes.add('NotADirectoryError')
                continue
            if k == 'F':
                if mode == 'dest_is_target' and dslash:
                    causes.add('IsADirectoryError')
                    continue
                ws = [(fd, init[src])]
            else:
                if infer and not is_list and kind(dest) == 'F':
                    causes.add('NotADirectoryError')
                    continue
                ws = [(fd + p[len(src):], e) for p, e in init.items() if e != 'D' and len(p) > len(src) and p[:len(src)] == src]
            for p, d in ws:
                if file_prefix(p):
                    causes.add('NotADirectoryError')
                elif kind(p) == 'D':
                    causes.add('IsADirectoryError')
                else:
                    writes[p] = d
    fails = []
    res = r['result']
    if res == 'HANG':
        return [Failure('hang', 'Copier.copy did not finish', c, None, res)]
    if causes:
        if res == 'ok':
            fails.append(Failure('error-expected', f'copy succeeded although it must raise one of {sorted(causes)}', c, sorted(causes), res))
        elif res not in causes:
            fails.append(Failure(f'undocumented-error:{res}', f'copy raised {res}; the documented errors for this situation are {sorted(causes)}', c, sorted(causes), res))
        return fails
    if res != 'ok':
        return [Failure(f'spurious-error:{res}', f'copy raised {res} although source and destination are compatible', c, 'ok', res)]
    final = {tuple(p): e for p, e in r['tree']}
    for p, d in writes.items():
        if final.get(p) != d:
            fails.append(Failure('not-identical', f'destination {list(p)} is not byte-identical to its source', c, d, final.get(p)))
            break
    for q, e in init.items():
        if q not in writes and final.get(q) != e:
            fails.append(Failure('frame', f'path {list(q)} that is not a destination was modified', c, e, final.get(q)))
            break
    for q, e in final.items():
        if q not in init and q not in writes and not (e == 'D' and any(w[:len(q)] == q for w in writes)):
            fails.append(Failure('stray-path', f'unexpected new path {list(q)}', c, None, e))
            break
    # chunk arithmetic seen through the instrumentation
    for kind_, size, part, buf, seq, data, _rec in chunk_checks(c, r):
        pos = 0
        ok = True
        for o, n in (seq if kind_ == 'single' else sorted(seq)):
            if o != pos or n <= 0 or n > buf or (kind_ == 'multi' and o // part != (o + n - 1) // part):
                ok = False
            pos = o + n
        if pos != size or not ok or (kind_ == 'single') != (size <= part) and size > 0:
            fails.append(Failure('chunks', 'the byte ranges transferred do not tile the file within part/buffer limits', c, [size, part, buf], seq))
            break
    return fails


def documented_grid(ctx):
    """The expected results the repository itself records for the 324 grid configurations."""
    try:
        src = ctx.read_repo(SPEC_FILE)
        specs = ast.literal_eval(src.split('=', 1)[1].strip())
    except Exception:  # noqa
        return None
    table = {}
    for s in specs:
        key = tuple(s[k] for k in ('src_type', 'dest_type', 'dest_basename', 'treat_dest_as', 'src_trailing_slash', 'dest_trailing_slash'))
        table[key] = s['result']
    return table


NAMES = {1: 'src', 2: 'dest', 10: 'a', 20: 'x', 11: 'file1', 12: 'subdir', 13: 'file2', 14: 'file3', 9: 'keep'}


def judge_documented(c, r, table):
    g = c.get('grid')
    if not g or table is None:
        return []
    want = table.get(tuple(g[k] for k in ('src_type', 'dest_type', 'dest_basename', 'treat_dest_as', 'src_trailing_slash', 'dest_trailing_slash')))
    if want is None:
        return []
    if 'exception' in want:
        got = {'exception': r['result']} if r['result'] != 'ok' else {'files': '...'}
    else:
        got = {'files': {'/' + '/'.join(NAMES[x] for x in p[1:]): bytes(e).decode() for p, e in r['tree'] if p[0] == 2 and e != 'D'}} \
            if r['result'] == 'ok' else {'exception': r['result']}
    if got != want:
        return [Failure('documented-grid', 'result differs from the behaviour table the repository records (copy_test_specs.py)', c, want, got)]
    return []


def oracle(ctx, budget):
    cs = cases(ctx, budget)
    impl = run_impl(ctx, cs)
    table = documented_grid(ctx)
    fails = []
    hist = {}
    for c, r in zip(cs, impl):
        fs = judge(c, r) + judge_documented(c, r, table)
        fails += fs
        hist[c.get('tag', 'corpus')] = hist.get(c.get('tag', 'corpus'), 0) + 1
    return fails, {'evaluations': len(cs), 'distinct_nontrivial': len({json.dumps([c['fs'], c['transfers'], c['part'], c['buf']]) for c in cs}),
                   'rule': 'oracle: destinations per the three documented rules recomputed in Python; identical / frame / documented error class with its '
                           'cause / tiling of the transferred byte ranges; grid also compared with the repository\'s recorded behaviour table',
                   'histograms': {'oracle_cases': hist, 'documented_table_loaded': table is not None}}


def replay(ctx, doc):
    c = doc['case']
    r = run_impl(ctx, [c])[0]
    m = coq_eval(ctx, HEADER, [f'(run {steps_lit(c)} {fs_lit(c["fs"])}, step_codes {fs_lit(c["fs"])} {steps_lit(c)})'])[0]
    return {'case': c, 'impl': r, 'model': m, 'oracle': [{'key': f.key, 'what': f.what} for f in judge(c, r) + judge_documented(c, r, documented_grid(ctx))]}
