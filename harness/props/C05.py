"""C05 — dependencies gate readiness; failed parents cancel children (batch database family)."""
from harness.batchdb import family

ID = 'C05'
COQ_PROPS = 'theories/BatchDB/Props_C05.v'
READY = True
META = dict(
    design_ref='§5.A C05',
    technique='Coq invariant proof (DInv) over all histories of an executable model of the batch database + correspondence of the model '
              'with the real SQL routines/handlers executed on a MySQL-subset interpreter',
    level_text='Machine-checked theorems (closed under the global context) over EVERY good history of the model (any interleaving of '
               'client requests, driver and worker messages; multi-update batches): a job of a committed update leaves Pending only when every '
               'parent — also parents of earlier updates — exists and is terminal; n_pending_parents is exactly the number of non-terminal '
               'parents at both computation sites (commit_batch_update and mark_job_complete); a parent that ends without success marks the '
               'child cancelled. The model is compared with the real stored routines and Python handlers after every op of every history of the '
               'shared run. Once a parent has ended without success, a non-always-run child is reported cancelled for ever and no good step of '
               'any continuation moves it into Creating or Running (C05_failed_parent_never_runs, via JobChange.cancelled_never_starts); an '
               'always-run Ready child is moved to Running by a scheduling message whatever its cancellation marks (C05_always_run_child_runs).',
    level_note='Trusted: Coq kernel; minisql (my MySQL-subset engine) as the semantics of the SQL; runner substitutions; Legal.v environment '
               'assumptions (driver messages name committed jobs; checked on scheduler/canceller picks by the oracle); client_ok (schema validation).',
    partial=False,
)
TRUSTED = family.COMMON_TRUSTED
ASSUMPTIONS = family.COMMON_ASSUMPTIONS
correspond = family.correspond
oracle = family.oracle_for(ID)
replay = family.replay
