"""C40 — the copy tool's WeightedSemaphore is safe and releases on cancellation
(hail/python/hailtop/aiotools/weighted_semaphore.py).

The original code LEAKED capacity when a queued waiter was cancelled (before or after release() granted it): see
fixes/C40.diff (handle the interruption in acquire: drop the queue entry, or hand the grant back; committed to /repo as
"fix: WeightedSemaphore leaked capacity when a waiter was cancelled") and findings/C40.json.
Model, theorems and this check target the FIXED code; on a tree without the fix the check reports the leak with a replay.

Model coq/theories/SemWeighted/Model.v at the granularity of single asyncio callbacks (Spawn / Exit / Cancel / Tick);
theorems for ALL action lists in Props_C40.v.  Tie X: the real class, entered through acquire_manager as copier.py does,
runs on harness/aio/tickloop.py (one callback per Tick) on the same schedules as the model (vm_compute); value, the
events list (weights and job ids, in order), every job's position (New/Queued/Granted/Holding/Leaving/Done, with the
cancellation marks) and the ready queue are compared after EVERY action.  Oracle: judged from the outside only — the jobs
inside bodies never exceed the capacity, at quiescence no blocked job fits into the free capacity, and after all holders
left a newcomer asking for the whole capacity gets it at once.
"""
import glob
import json
import os

from harness.core import Corr, Disagreement, Failure, coq_eval, zlit, listlit

ID = 'C40'
SRC = 'hail/python/hailtop/aiotools/weighted_semaphore.py'
COQ_PROPS = 'theories/SemWeighted/Props_C40.v'
READY = True
META = dict(
    design_ref='§5.C C40, §6',
    technique='Coq proof (invariant induction over arbitrary action lists, cancellation at every point) about a hand-written '
              'callback-level model of the FIXED WeightedSemaphore; correspondence with the real class on a deterministic asyncio loop',
    level_text='Machine-checked theorems (Coq 8.16, closed under the global context) over ALL lists of Spawn(n)/Exit(i, ok|error)/Cancel(i)/Tick '
               'actions (Tick = one asyncio callback; Cancel may fall between any two callbacks: before the first step, while queued, after '
               'release() granted the waiter but before it resumed, inside the body, while leaving): value + weights of granted-and-not-yet-'
               'released jobs = capacity after every action and (weights >= 0) never more than the capacity is granted; the events list is exactly '
               'the set of blocked jobs; whenever the loop is idle every job is blocked / in its body / finished and value = capacity - weights '
               'in bodies (= capacity once all holders exited normally, by error or by cancellation); a job cancelled at any moment is finished '
               'at the next idle point, holding nothing and absent from the events list; every queued weight exceeds the free value (no lost '
               'wake-up); idle with nobody in a body implies everybody finished. The theorems are about the code WITH fixes/C40.diff; the '
               'model is tied to the source by running the real class on a single-callback asyncio driver and comparing value, events list, '
               'every job position and the ready queue after every action (exhaustive small scope + seeded random).',
    level_note='Before the fix commit (fixes/C40.diff) the repository code violated the property (cancelled waiter leaks capacity, reproduced; '
               'findings/C40.json); on a tree without the fix the check reports VIOLATION with a replay. The theorems are about the hand model; the tie to the '
               'source is the (sampled) correspondence run. Trusted: Coq kernel, CPython asyncio, sortedcontainers, harness/aio/*.py, harness/impl/c40_weighted.py.',
    partial=False,
)
TRUSTED = ['harness/aio/detloop.py + harness/aio/tickloop.py (single-callback stepping of a real asyncio loop; CPython private attributes)',
           'harness/impl/c40_weighted.py (job coroutine `async with sem.acquire_manager(n): await gate.wait()`; reading job positions from Task/Event internals)',
           'CPython 3.12 asyncio Task.cancel / Event semantics; sortedcontainers.SortedKeyList (real library, installed)']
ASSUMPTIONS = ['code between two awaits is atomic under asyncio; external events (spawn, cancel, body completion) happen between callbacks',
               'the model describes the code WITH fixes/C40.diff applied']

HEADER = 'From HailV Require Import Common.Prelude SemWeighted.Model.\nOpen Scope Z_scope.'


# ------------------------------------------------------------------------------------------------
# reference simulation used ONLY to enumerate interesting schedules (coverage, never a verdict)

class _Ref:
    def __init__(self, maxv):
        self.max, self.value, self.events, self.jobs, self.ready = maxv, maxv, [], [], []

    def copy(self):
        r = _Ref(self.max)
        r.value, r.events, r.jobs, r.ready = self.value, list(self.events), [list(j) for j in self.jobs], list(self.ready)
        return r

    def _release(self, n):
        self.value += n
        while self.events and self.value >= self.events[0][0]:
            m, j = self.events.pop(0)
            self.value -= m
            if self.jobs[j][1] == 'QueuedC':
                self.jobs[j][1] = 'GrantedC'
            else:
                self.jobs[j][1] = 'Granted'
                self.ready.append(j)

    def do(self, a):
        J = self.jobs
        if a[0] == 'spawn':
            J.append([a[1], 'New'])
            self.ready.append(len(J) - 1)
        elif a[0] == 'exit':
            i = a[1]
            if i < len(J) and J[i][1] == 'Holding':
                J[i][1] = 'Leaving Err' if a[2] else 'Leaving Ok'
                self.ready.append(i)
        elif a[0] == 'cancel':
            i = a[1]
            if i < len(J):
                st = J[i][1]
                if st == 'New':
                    J[i][1] = 'NewC'
                elif st == 'Queued':
                    J[i][1] = 'QueuedC'
                    self.ready.append(i)
                elif st == 'Granted':
                    J[i][1] = 'GrantedC'
                elif st == 'Holding':
                    J[i][1] = 'Leaving Canc'
                    self.ready.append(i)
                elif st.startswith('Leaving'):
                    J[i][1] = 'Leaving Canc'
        else:
            if not self.ready:
                return
            i = self.ready.pop(0)
            n, st = J[i]
            if st == 'New':
                if n > self.max:
                    J[i][1] = 'Done Err'
                elif self.value >= n:
                    self.value -= n
                    J[i][1] = 'Holding'
                else:
                    k = 0
                    while k < len(self.events) and self.events[k][0] <= n:
                        k += 1
                    self.events.insert(k, (n, i))
                    J[i][1] = 'Queued'
            elif st == 'NewC':
                J[i][1] = 'Done Canc'
            elif st == 'QueuedC':
                self.events = [e for e in self.events if e[1] != i]
                J[i][1] = 'Done Canc'
            elif st == 'Granted':
                J[i][1] = 'Holding'
            elif st == 'GrantedC':
                J[i][1] = 'Done Canc'
                self._release(n)
            elif st.startswith('Leaving'):
                J[i][1] = 'Done ' + st.split()[1]
                self._release(n)

    def live(self):
        return [i for i, (n, st) in enumerate(self.jobs) if not st.startswith('Done')]


def enum_schedules(maxv, weights, max_jobs, depth, err_exits=False):
    """All maximal schedules of `depth` actions (prefixes are covered because every action is observed)."""
    out = []

    def rec(ref, acts, left):
        if left == 0:
            out.append(acts)
            return
        opts = []
        if ref.ready:
            opts.append(['tick'])
        if len(ref.jobs) < max_jobs:
            opts += [['spawn', w] for w in weights]
        for i, (n, st) in enumerate(ref.jobs):
            if st == 'Holding':
                opts.append(['exit', i, False])
                if err_exits:
                    opts.append(['exit', i, True])
            if st in ('New', 'Queued', 'Granted', 'Holding', 'Leaving Ok', 'Leaving Err'):
                opts.append(['cancel', i])
        if not opts:
            out.append(acts)
            return
        for a in opts:
            r2 = ref.copy()
            r2.do(a)
            rec(r2, acts + [a], left - 1)
    rec(_Ref(maxv), [], depth)
    return out


def random_schedule(rng, maxv, n):
    ref = _Ref(maxv)
    acts = []
    for _ in range(n):
        x = rng.random()
        live = ref.live()
        if x < 0.40 and ref.ready:
            a = ['tick']
        elif x < 0.60:
            a = ['spawn', rng.choice([1, maxv, rng.randint(1, maxv), rng.randint(1, maxv), max(1, maxv // 2), maxv + (1 if rng.random() < 0.05 else 0)])]
        elif x < 0.75:
            hold = [i for i in live if ref.jobs[i][1] == 'Holding']
            a = ['exit', rng.choice(hold), rng.random() < 0.3] if hold else ['tick']
        elif x < 0.93 and live:
            a = ['cancel', rng.choice(live)]
        elif x < 0.96:
            a = [rng.choice(['cancel', 'exit']), rng.randint(0, len(ref.jobs) + 1)]       # possibly meaningless: ignored on both sides
            if a[0] == 'exit':
                a.append(False)
        else:
            a = ['tick']
        ref.do(a)
        acts.append(a)
        if rng.random() < 0.15:                     # let the loop settle now and then
            while ref.ready:
                ref.do(['tick'])
                acts.append(['tick'])
    return {'max': maxv, 'acts': acts}


def corpus_schedules():
    out = []
    for f in sorted(glob.glob(os.path.join(os.path.dirname(__file__), '..', '..', 'corpus', ID, '*.json'))):
        for d in json.load(open(f)):
            out.append({'max': d['max'], 'acts': d['acts']})
    return out


def all_schedules(ctx):
    out = [('corpus', s) for s in corpus_schedules()]
    d = ctx.scale(7, 9)
    out += [('exhaustive max2 w{1,2} 3 jobs', {'max': 2, 'acts': a}) for a in enum_schedules(2, [1, 2], 3, d)]
    out += [('exhaustive max3 w{2,3} 3 jobs err-exits', {'max': 3, 'acts': a}) for a in enum_schedules(3, [2, 3], 3, d - 1, err_exits=True)]
    for k in range(ctx.scale(400, 4000)):
        maxv = ctx.rng.choice([1, 2, 3, 4, 5, 8, 35])
        out.append(('random', random_schedule(ctx.rng, maxv, ctx.rng.choice([12, 30, 60, 150 if k % 10 == 0 else 40]))))
    return out


# ------------------------------------------------------------------------------------------------

def coq_actions(acts):
    items = []
    for a in acts:
        if a[0] == 'spawn':
            items.append(f'Spawn {zlit(a[1])}')
        elif a[0] == 'exit':
            items.append(f'Exit {a[1]}%nat {"true" if a[2] else "false"}')
        elif a[0] == 'cancel':
            items.append(f'Cancel {a[1]}%nat')
        else:
            items.append('Tick')
    return listlit(items)


def _st(x):
    return x if isinstance(x, str) else ' '.join(x)


def model_traces(ctx, schedules):
    exprs = [f'trace {zlit(s["max"])} (init {zlit(s["max"])}) {coq_actions(s["acts"])}' for s in schedules]
    vals = coq_eval(ctx, HEADER, exprs, shard=max(50, min(300, len(exprs) // 16 + 1)))
    out = []
    for tr in vals:
        out.append([{'value': o['value'], 'events': [list(e) for e in o['events']],
                     'jobs': [[n, _st(st)] for (n, st) in o['jobs']], 'ready': list(o['ready'])} for o in tr])
    return out


_ENC = {'New': 1, 'NewC': 2, 'Queued': 3, 'QueuedC': 4, 'Granted': 5, 'GrantedC': 6, 'Holding': 7, 'Leaving Ok': 8, 'Leaving Err': 9,
        'Leaving Canc': 10, 'Done Ok': 11, 'Done Err': 12, 'Done Canc': 13}
_P = 2305843009213693951


def fingerprint(trace):
    """Same function as SemWeighted.Model.fingerprint, computed from the implementation's observations."""
    h = 7
    for o in trace:
        xs = [o['value'], len(o['events'])]
        for n, j in o['events']:
            xs += [n, j]
        xs.append(len(o['jobs']))
        for n, st in o['jobs']:
            xs += [n, _ENC[st]]
        xs.append(len(o['ready']))
        xs += o['ready']
        for x in xs:
            h = (h * 131 + x + 7) & _P
    return h


def encode(acts):
    z = 0
    for k, a in enumerate(acts):
        if a[0] == 'tick':
            d = 1
        elif a[0] == 'spawn':
            d = 2 + 8 * a[1]
        elif a[0] == 'exit':
            d = (4 if a[2] else 3) + 8 * a[1]
        else:
            d = 5 + 8 * a[1]
        assert 0 < d < 2 ** 20 and (a[0] == 'tick' or a[1] >= 0)
        z |= d << (20 * k)
    return z


def balanced_eval(ctx, schedules, exprs, n_sh=8):
    """coq_eval with the expressions dealt round-robin by decreasing schedule length, so that shards cost about the same."""
    order = sorted(range(len(exprs)), key=lambda k: -len(schedules[k]['acts']))
    perm = [k for r in range(n_sh) for k in order[r::n_sh]]
    vals = coq_eval(ctx, HEADER, [exprs[k] for k in perm], shard=max(1, (len(exprs) + n_sh - 1) // n_sh), label='fp')
    out = [None] * len(exprs)
    for k, v in zip(perm, vals):
        out[k] = v
    return out


def model_fingerprints(ctx, schedules):
    exprs = [f'fingerprint {zlit(s["max"])} (decode {len(s["acts"])} {encode(s["acts"])})' for s in schedules]
    return balanced_eval(ctx, schedules, exprs)


def impl_results(ctx, schedules):
    return ctx.run_impl('c40_weighted.py', {'schedules': schedules, 'probe': True}, timeout=900)['results']


def correspond(ctx):
    tagged = all_schedules(ctx)
    schedules = [s for _, s in tagged]
    impl = impl_results(ctx, schedules)
    ctx._c40_cache = (tagged, impl)
    fps = model_fingerprints(ctx, schedules)
    differing = [k for k, (fp, r) in enumerate(zip(fps, impl)) if fp != fingerprint(r['trace'])]
    full = dict(zip(differing[:40], model_traces(ctx, [schedules[k] for k in differing[:40]])))
    dis = []
    hist = {}
    n_obs = 0
    nontrivial = set()
    feat = {'cancel_queued': 0, 'cancel_granted': 0}
    for k, ((tag, s), r) in enumerate(zip(tagged, impl)):
        hist[tag] = hist.get(tag, 0) + 1
        n_obs += len(r['trace'])
        sts = {st for o in r['trace'] for _, st in o['jobs']}
        if k in differing and k not in full:
            dis.append(Disagreement('SemWeighted.trace~WeightedSemaphore', {'schedule': s}, 'fingerprint differs', r['trace'][-1] if r['trace'] else None))
            continue
        m = full.get(k, r['trace'])
        if 'QueuedC' in sts or 'GrantedC' in sts:
            nontrivial.add(str(s))
        feat['cancel_queued'] += 'QueuedC' in sts
        feat['cancel_granted'] += 'GrantedC' in sts
        if m != r['trace']:
            k = next((j for j, (x, y) in enumerate(zip(m, r['trace'])) if x != y), min(len(m), len(r['trace'])))
            dis.append(Disagreement('SemWeighted.trace~WeightedSemaphore', {'schedule': s, 'first_diff_after_action': k},
                                    m[k] if k < len(m) else None, r['trace'][k] if k < len(r['trace']) else None))
    dis.sort(key=lambda d: (d.model == 'fingerprint differs', len(d.case['schedule']['acts'])))
    return Corr(evaluations=len(schedules), distinct_nontrivial=len(nontrivial),
                rule='one evaluation = one schedule run on the real WeightedSemaphore (one asyncio callback per Tick) and on the Coq model '
                     '(vm_compute; a fingerprint of the whole trace is compared, differing schedules are re-evaluated in full); value, events (weight, job id, in order), every job\'s position incl. cancellation marks and the ready '
                     f'queue compared after EVERY action ({n_obs} observations); non-trivial = distinct schedule in which a waiter was '
                     'cancelled while queued or after being granted',
                samples=[{'schedule': s, 'final': r['trace'][-1] if r['trace'] else None} for (_, s), r in list(zip(tagged, impl))[:1] + list(zip(tagged, impl))[-2:]],
                disagreements=dis, histograms={'schedule_class': hist, 'schedules_with': feat},
                exhaustive=True, names=['SemWeighted.trace~WeightedSemaphore'])


WHAT = {
    'capacity': 'jobs inside `async with sem.acquire_manager(n)` bodies hold more than the capacity',
    'blocked-though-fits': 'with the event loop idle a job is blocked in acquire although its weight fits into the capacity not held by anybody',
    'capacity-leak': 'after every holder left and nobody waits, acquire(max) blocks: weight was not returned (a waiter cancelled before or after being granted consumed it)',
}


def _failures(tagged, impl):
    fails = []
    for (tag, s), r in zip(tagged, impl):
        for v in r['viol']:
            fails.append(Failure(v['kind'], WHAT.get(v['kind'], v['kind']), s, None, v))
    fails.sort(key=lambda f: (f.key, len(f.case['acts'])))
    return fails


def oracle(ctx, budget):
    cache = getattr(ctx, '_c40_cache', None)
    if cache is None or budget > 1:
        tagged = all_schedules(ctx)
        if budget > 1:
            for k in range(ctx.scale(500, 3000) * budget):
                tagged.append(('random', random_schedule(ctx.rng, ctx.rng.choice([1, 2, 3, 4]), ctx.rng.choice([8, 14, 25]))))
        impl = impl_results(ctx, [s for _, s in tagged])
    else:
        tagged, impl = cache
    fails = _failures(tagged, impl)
    return fails, {'evaluations': len(tagged), 'distinct_nontrivial': len({str(s) for _, s in tagged if any(a[0] == 'cancel' for a in s['acts'])}),
                   'rule': 'oracle (implementation only, no semaphore fields): sum of weights inside bodies <= max at every entry and idle point; '
                           'idle => no blocked job fits into max - held; end game: all holders leave, then acquire(max) must succeed at once; '
                           'non-trivial = schedule containing a cancellation',
                   'samples': [{'schedule': tagged[0][1], 'violations': impl[0]['viol']}] if tagged else []}


def replay(ctx, doc):
    c = doc.get('case')
    s = c['schedule'] if isinstance(c, dict) and 'schedule' in c else c
    r = impl_results(ctx, [s])[0]
    return {'schedule': s, 'impl_final': r['trace'][-1] if r['trace'] else None, 'impl_property_violations': r['viol'],
            'model_final': (model_traces(ctx, [s])[0] or [None])[-1], 'traces_equal': model_traces(ctx, [s])[0] == r['trace']}
