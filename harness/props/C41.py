"""C41 — uncommitted updates have no effect on a batch (partial).

Tie: X (shared family correspondence: model step ~ real SQL routines + handlers on minisql, after every op; the corpus
contains the history of the repaired defect and the out-of-order-commit history of the open finding).
Proof: coq/theories/BatchDB/Pick.v (what the scheduler / canceller can select; invariant RInv) on top of the dependency
invariant DInv (BatchDB/Deps*.v) over the frozen model BatchDB/Model.v; theorems in Props_C41.v.
Oracle: harness/batchdb/oracles.py::c41 after every op of every history (a job of an open update never changes to
Ready / Creating / Running / a terminal state, is never returned by the REAL selection queries of pool.py /
job_private.py / canceller.py run as scheduler_pick / canceller_pick, is never moved by schedule / creating / started)
and ::c41_noninterference on the driver-in-the-loop histories (the history is re-run with the never-committed last
update erased and the observable projections are compared).  The same erasure / projection is the subject of the model
theorem C41_noninterference_partial (coq/theories/BatchDB/NonInterf*.v: `erase` mirrors erase_last_uncommitted_update,
`proj` mirrors restrict); it is PARTIAL (some transaction classes are not covered yet, see META), so for those the oracle's
rerun is the only check.  Counters / tallies clauses: coq/theories/BatchDB/Inert.v (corollaries of the C01 / C06 invariants).
"""
from harness.batchdb import family

ID = 'C41'
COQ_PROPS = 'theories/BatchDB/Props_C41.v'
READY = True

META = dict(
    design_ref='§5.A C41',
    technique='Coq invariant proof over all histories of an executable model of the batch database + '
              'correspondence of the model with the real SQL routines/handlers on a MySQL-subset interpreter; '
              'the selection predicate of the scheduler/canceller is a hand model of the WHERE clauses of their queries; '
              'non-interference: simulation proof (projection commutes with every supported transaction) in the model + the '
              'update-erasure rerun of the oracle on the implementation',
    level_text='PARTIAL. Machine-checked (Coq 8.16, closed under the global context) about the batch-database model: '
               '(1) for ALL good histories (legal driver/worker messages, schema-valid client requests; any interleaving of bunch inserts, '
               'late or missing commits, completions / cancellations of earlier updates): a job of an update that is not committed has no '
               'attempt and is Pending, or Ready only as a parentless job of update 1, the state _create_jobs inserts it in '
               '(C41_uncommitted_inert, from the dependency invariant DInv). '
               '(2) "never scheduled", PARTIAL: invariant RInv for all legal histories (C41_running_needs_commit) - a job group / batch in state '
               '"running" has a committed update (only commit_batch_update sets that state) and the updates of a batch are committed in id order; '
               'hence every job the selection queries of the scheduler, job-private scheduler, canceller (Ready / Creating / Running job of a job '
               'group in state running) or the autoscaler estimate (Ready job of a running batch) can return belongs to a committed update '
               '(C41_never_picked_partial, C41_never_estimated_partial) and still does whenever the driver\'s or worker\'s message about it arrives '
               '(C41_picked_stays_committed_partial): this DERIVES the clause "driver messages name jobs of committed updates" of Legal.v from the '
               'selection, instead of assuming it. It rests on the environment assumption that updates of one batch are committed in order '
               '(Legal.earlier_committed: the hailtop client commits an update before it opens the next; the service does not enforce it). '
               '(3) WITHOUT that assumption the statement is FALSE - C41_never_picked_refuted: create batch, open updates 1 and 2, insert one '
               'parentless job each, commit update 2: every other legality / schema condition holds and job 1 of the open update 1 is selected '
               '(open finding, replayed on the real code by corpus/C41/out-of-order-commit.json). '
               '(4) "whatever happens to their parents", from ANY state: a completion report for another job leaves a job of an uncommitted '
               'update exactly as it was (C41_parent_completion_does_not_release; the defect repaired by migration 122, whose corpus history '
               'evaluates in the model to "child stays Pending, not selectable, forged schedule refused": C41_corpus_child_not_released). '
               '(5) "never counted ... never change completeness" (Inert.v, from the invariants of C01 and C06, all good histories): the 8 columns of '
               'user_inst_coll_resources and the 5 columns of job_group_inst_coll_cancellable_resources (committed update, group not cancelled) are '
               'recounts over cjobs = the jobs of COMMITTED updates only; the rows of an open update hold no creating/running job and ready jobs only '
               'for update 1; the five tallies of every job group, n_jobs of every batch and the complete/running flag of every group and batch are '
               'functions of the committed jobs only (complete iff all COMMITTED jobs of the subtree are terminal); a group without committed jobs '
               'has all tallies 0 and is complete (C41_user_counters_committed_only, C41_group_cancellable_committed_only, '
               'C41_group_cancellable_open_update, C41_tallies_committed_only, C41_batch_tally_committed_only, C41_group_without_committed_jobs); '
               'every attempt row belongs to a job of a committed update (C41_attempts_of_committed_jobs). The analogue for the GROUPS of an open '
               'update is FALSE without a sequential client (C41_open_update_group_running_refuted: update 1 puts a job into a group of the open '
               'update 2 and is committed: that group becomes running with n_jobs 1). '
               '(6) history form of inertness: the row of a job of an update still open after ops ++ ext is after ops ++ ext exactly the row it was '
               'after ops, without attempt, Pending/Ready (C41_uncommitted_row_frozen, C41_uncommitted_row_constant). '
               '(7) NON-INTERFERENCE, PARTIAL (NonInterf*.v): erase = the erasure of oracles.erase_last_uncommitted_update (create_update with the '
               'update\'s token, create_groups/create_jobs/commit of the update, every request naming a job / cancelling a group in its reserved '
               'ranges, entries of billing updates naming such jobs); proj = the state without the update\'s rows (its batch_updates row, its jobs, '
               'parent edges, groups, ancestor rows, cancellable/staging rows; batches, marks, user counters, attempts, instances, billing and id '
               'counters kept as they are). For every good history pre ++ open :: post in which open creates update U of batch B while every other '
               'update of B is committed, U is never committed and stays the last update of B, and post consists of supported transactions: '
               'run (pre ++ erase post) = proj (run (pre ++ open :: post)) - every row not belonging to U is identical (C41_noninterference_partial; '
               'state form C41_noninterference_phase2_partial from any state satisfying the simulation invariant; hypotheses satisfiable and both '
               'runs computed: C41_noninterference_nonvacuous). Supported: every driver / worker / instance / billing transaction (schedule, '
               'unschedule, creating, started, complete incl. release of children, deactivate, add resources, billing update, instance life cycle), '
               'create_update (any batch), create_groups / create_jobs / commit of batch B (those of U erased, the others refused in both runs), '
               'staging clean-up. MISSING transaction cases: create_batch, create_groups / create_jobs / commit of OTHER batches while U is open, '
               'cancel_job_group, delete_batch, cancellable clean-up; the results of the transactions are not compared (states only); on pre the '
               'erasure is shown to be the identity only for the example. Extra hypotheses: sequential client at the opening of U (needed: see '
               'C41_open_update_group_running_refuted), no row with U\'s keys before U is opened (proj (run pre) = run pre), all group ids below '
               'G0 exist. For the missing cases the clause is checked on the implementation only (oracles.c41_noninterference).',
    level_note='Trusted: Coq kernel; the sampled model-vs-implementation correspondence and the minisql engine; Pick.pickable / Pick.estimated as a '
               'superset of the WHERE clauses of user_runnable_jobs (pool.py, job_private.py), schedule_jobs_loop_body (job_private.py), '
               'user_cancelled_{ready,creating,running}_jobs (canceller.py) and the ready-cores estimate (pool.py): job state Ready/Creating/Running '
               'and job_groups.state / batches.state = running; all other filters of those queries only shrink the selection. The oracle runs the '
               'REAL query code of those functions (scheduler_pick / canceller_pick) and reports any uncommitted job they return. '
               'Open finding: out-of-order commits of two concurrently open updates expose the staged Ready jobs of update 1 to the scheduler; '
               'no small fix (a committed filter in the hot selection queries, or an ordering rule on commits).',
    partial=True,
)
TRUSTED = family.COMMON_TRUSTED + [
    'Pick.v pickable/estimated: hand transcription of the selection conditions (job state, job_groups.state / batches.state) of the scheduler, '
    'job-private scheduler, canceller and autoscaler queries; the oracle exercises the real queries',
]
ASSUMPTIONS = family.COMMON_ASSUMPTIONS + [
    'updates of one batch are committed in the order of their ids (Legal.earlier_committed): guaranteed by the hailtop client (one update at a '
    'time), NOT enforced by the service - without it the property is refuted (open finding '
    'C41:uncommitted-job-offered-by-scheduler:staged-update-1-job-while-later-update-committed)',
    'non-interference theorem: the client opens the erased update when all other updates of its batch are committed (hailtop client: one '
    'update at a time); the erased update is the last of its batch and never committed; no counter / job / group row carries its keys before '
    'it is opened; transactions outside the supported set (create_batch, other batches\' create_groups/create_jobs/commit while the update is '
    'open, cancel_job_group, delete_batch, cancellable clean-up) are covered by the oracle\'s update-erasure rerun only',
]

correspond = family.correspond
oracle = family.oracle_for(ID)
replay = family.replay
