"""C41 — uncommitted updates have no effect on a batch (partial).

Tie: X (shared family correspondence: model step ~ real SQL routines + handlers on minisql, after every op; the corpus
contains the history of the repaired defect and the out-of-order-commit history of the open finding).
Proof: coq/theories/BatchDB/Pick.v (what the scheduler / canceller can select; invariant RInv) on top of the dependency
invariant DInv (BatchDB/Deps*.v) over the frozen model BatchDB/Model.v; theorems in Props_C41.v.
Oracle: harness/batchdb/oracles.py::c41 after every op of every history (a job of an open update never changes to
Ready / Creating / Running / a terminal state, is never returned by the REAL selection queries of pool.py /
job_private.py / canceller.py run as scheduler_pick / canceller_pick, is never moved by schedule / creating / started)
and ::c41_noninterference on the driver-in-the-loop histories (the history is re-run with the never-committed last
update erased and the observable projections are compared) — non-interference is TESTED there, not proved.
"""
from harness.batchdb import family

ID = 'C41'
COQ_PROPS = 'theories/BatchDB/Props_C41.v'
READY = True

META = dict(
    design_ref='§5.A C41',
    technique='Coq invariant proof over all histories of an executable model of the batch database + '
              'correspondence of the model with the real SQL routines/handlers on a MySQL-subset interpreter; '
              'the selection predicate of the scheduler/canceller is a hand model of the WHERE clauses of their queries; '
              'non-interference only tested by an update-erasure rerun on the implementation',
    level_text='PARTIAL. Machine-checked (Coq 8.16, closed under the global context) about the batch-database model: '
               '(1) for ALL good histories (legal driver/worker messages, schema-valid client requests; any interleaving of bunch inserts, '
               'late or missing commits, completions / cancellations of earlier updates): a job of an update that is not committed has no '
               'attempt and is Pending, or Ready only as a parentless job of update 1, the state _create_jobs inserts it in '
               '(C41_uncommitted_inert, from the dependency invariant DInv). '
               '(2) "never scheduled", PARTIAL: invariant RInv for all legal histories (C41_running_needs_commit) - a job group / batch in state '
               '"running" has a committed update (only commit_batch_update sets that state) and the updates of a batch are committed in id order; '
               'hence every job the selection queries of the scheduler, job-private scheduler, canceller (Ready / Creating / Running job of a job '
               'group in state running) or the autoscaler estimate (Ready job of a running batch) can return belongs to a committed update '
               '(C41_never_picked_partial, C41_never_estimated_partial) and still does whenever the driver\'s or worker\'s message about it arrives '
               '(C41_picked_stays_committed_partial): this DERIVES the clause "driver messages name jobs of committed updates" of Legal.v from the '
               'selection, instead of assuming it. It rests on the environment assumption that updates of one batch are committed in order '
               '(Legal.earlier_committed: the hailtop client commits an update before it opens the next; the service does not enforce it). '
               '(3) WITHOUT that assumption the statement is FALSE - C41_never_picked_refuted: create batch, open updates 1 and 2, insert one '
               'parentless job each, commit update 2: every other legality / schema condition holds and job 1 of the open update 1 is selected '
               '(open finding, replayed on the real code by corpus/C41/out-of-order-commit.json). '
               '(4) "whatever happens to their parents", from ANY state: a completion report for another job leaves a job of an uncommitted '
               'update exactly as it was (C41_parent_completion_does_not_release; the defect repaired by migration 122, whose corpus history '
               'evaluates in the model to "child stays Pending, not selectable, forged schedule refused": C41_corpus_child_not_released). '
               'NOT proved here: "never counted in scheduling counters or batch/job-group tallies, never change completeness" belong to the counter '
               'properties C01 (scheduling counters) and C06 (group tallies / completeness) of this family and are not restated; the '
               'non-interference clause ("an update that is never committed leaves the batch exactly as if it had not been started") is only '
               'checked on the implementation by the oracle\'s update-erasure rerun (oracles.c41_noninterference).',
    level_note='Trusted: Coq kernel; the sampled model-vs-implementation correspondence and the minisql engine; Pick.pickable / Pick.estimated as a '
               'superset of the WHERE clauses of user_runnable_jobs (pool.py, job_private.py), schedule_jobs_loop_body (job_private.py), '
               'user_cancelled_{ready,creating,running}_jobs (canceller.py) and the ready-cores estimate (pool.py): job state Ready/Creating/Running '
               'and job_groups.state / batches.state = running; all other filters of those queries only shrink the selection. The oracle runs the '
               'REAL query code of those functions (scheduler_pick / canceller_pick) and reports any uncommitted job they return. '
               'Open finding: out-of-order commits of two concurrently open updates expose the staged Ready jobs of update 1 to the scheduler; '
               'no small fix (a committed filter in the hot selection queries, or an ordering rule on commits).',
    partial=True,
)
TRUSTED = family.COMMON_TRUSTED + [
    'Pick.v pickable/estimated: hand transcription of the selection conditions (job state, job_groups.state / batches.state) of the scheduler, '
    'job-private scheduler, canceller and autoscaler queries; the oracle exercises the real queries',
]
ASSUMPTIONS = family.COMMON_ASSUMPTIONS + [
    'updates of one batch are committed in the order of their ids (Legal.earlier_committed): guaranteed by the hailtop client (one update at a '
    'time), NOT enforced by the service - without it the property is refuted (open finding '
    'C41:uncommitted-job-offered-by-scheduler:staged-update-1-job-while-later-update-committed)',
    'counters / tallies clauses are covered by C01 and C06; non-interference is tested (update-erasure rerun), not proved',
]

correspond = family.correspond
oracle = family.oracle_for(ID)
replay = family.replay
