"""C25 — resource-size strings parse to their decimal value (hail/python/hailtop/batch_client/parse.py; shared with the job
validator in batch/batch/front_end/validate.py).

Tie: T + X.  On every run
  * the three pattern strings of parse.py are parsed by the implementation interpreter's own `re._parser` and mapped to
    `Regex.re` values; each is also cut into its top-level factors ([+]? (number) (unit)? B?) whose re-assembly is proved equal
    to the full regex inside Coq (so the cut is not trusted);
  * the body of every parse function (the statements under `if match:`) is translated statement by statement into Gallina over
    exact rationals (`fractions.Fraction` -> Q); `float(...)` is OUTSIDE the subset: binary floating point makes the property
    false (`'0.067G' -> 67000001`), see fixes/C25.diff;
  * `conv_factor` is regenerated from the dict literal;
  * validate.py / hailtop.utils.validate are read structurally: which compiled regex object each of resources.cpu/memory/storage
    is checked with, and that the check is `fullmatch`.
Lemmas.v proves, for ALL code-point lists, that the generated relation is the graph of an exact executable parser, that this
parser returns floor / ceil of the denoted rational for every string of the documented grammar and None for every other string,
and that the server-side validator accepts exactly the strings the client functions parse.
"""
import ast
import json

from harness.core import Corr, Disagreement, Failure, TieBroken, coq_eval
from harness.translate.pyast import PyToCoq, find_function, Unsupported
from harness.translate.regex_sre import parsed_to_coq, tree_to_coq, item_to_coq

ID = 'C25'
SRC = 'hail/python/hailtop/batch_client/parse.py'
SRC_VALIDATE = 'batch/batch/front_end/validate.py'
SRC_VALIDATORS = 'hail/python/hailtop/utils/validate/validate.py'
COQ_PROPS = 'theories/SizeParse/Props_C25.v'
READY = True

FUNCS = [('cpu', 'parse_cpu_in_mcpu'), ('memory', 'parse_memory_in_bytes'), ('storage', 'parse_storage_in_bytes')]


# ------------------------------------------------------------------------------------------------ T

def _strip_doc(body):
    return [s for s in body if not (isinstance(s, ast.Expr) and isinstance(s.value, ast.Constant) and isinstance(s.value.value, str))]


def _int_const(n) -> int:
    """int literals and ** * of them (the values of conv_factor)."""
    if isinstance(n, ast.Constant) and isinstance(n.value, int) and not isinstance(n.value, bool):
        return n.value
    if isinstance(n, ast.BinOp) and isinstance(n.op, (ast.Pow, ast.Mult)):
        a, b = _int_const(n.left), _int_const(n.right)
        if isinstance(n.op, ast.Pow):
            if not 0 <= b <= 64:
                raise Unsupported(n, 'exponent')
            return a ** b
        return a * b
    raise Unsupported(n, 'not an integer constant expression')


def _module_tables(src: str):
    tree = ast.parse(src)
    pats, objs, dicts, imports = {}, {}, {}, set()
    for st in tree.body:
        if isinstance(st, ast.Import):
            imports |= {a.name for a in st.names if a.asname is None}
        elif isinstance(st, ast.ImportFrom):
            imports |= {f'{st.module}.{a.name}' for a in st.names if a.asname is None}
        tgt = val = None
        if isinstance(st, ast.AnnAssign) and isinstance(st.target, ast.Name) and st.value is not None:
            tgt, val = st.target.id, st.value
        elif isinstance(st, ast.Assign) and len(st.targets) == 1 and isinstance(st.targets[0], ast.Name):
            tgt, val = st.targets[0].id, st.value
        if tgt is None:
            continue
        for d in (pats, objs, dicts):
            d.pop(tgt, None)                       # a later re-assignment invalidates what we knew
        if isinstance(val, ast.Constant) and isinstance(val.value, str):
            pats[tgt] = val.value
        elif (isinstance(val, ast.Call) and ast.unparse(val.func) == 're.compile' and len(val.args) == 1 and not val.keywords
              and isinstance(val.args[0], ast.Name)):
            objs[tgt] = val.args[0].id
        elif isinstance(val, ast.Dict):
            ent = []
            for k, v in zip(val.keys, val.values):
                if not (isinstance(k, ast.Constant) and isinstance(k.value, str)):
                    raise Unsupported(val, 'dict key')
                ent.append((k.value, _int_const(v)))
            dicts[tgt] = ent
    return pats, objs, dicts, imports


class SizePyToCoq(PyToCoq):
    """Body of `if match:` — exact rationals, the two capture groups, one dict lookup per return."""

    def __init__(self, dicts):
        super().__init__(sorts={}, option_mode=False)
        self.dicts = dicts
        self.pending = []
        self.n_cf = 0

    def expr(self, n):
        if isinstance(n, ast.Constant) and isinstance(n.value, int) and not isinstance(n.value, bool):
            return (f'({n.value})%Z' if n.value < 0 else f'{n.value}%Z'), 'Z'
        return super().expr(n)

    def call(self, n):
        if n.keywords:
            raise Unsupported(n, 'keyword arguments')
        f = n.func
        if (isinstance(f, ast.Attribute) and f.attr == 'group' and isinstance(f.value, ast.Name) and f.value.id == 'match'
                and len(n.args) == 1 and isinstance(n.args[0], ast.Constant) and n.args[0].value in (1, 2)):
            return ('g1', 'str') if n.args[0].value == 1 else ('g2', 'optstr')
        if isinstance(f, ast.Name) and f.id == 'float':
            raise TieBroken('py-translator', f'line {n.lineno}: `{ast.unparse(n)}` — binary floating point is outside the exact subset '
                                             f'(the property is false for float arithmetic; fixes/C25.diff replaces it by fractions.Fraction)')
        if isinstance(f, ast.Name) and f.id == 'Fraction' and len(n.args) == 1:
            v, s = self.expr(n.args[0])
            if s == 'str':
                return f'(frac_of_str {v})', 'Q'
            raise Unsupported(n, f'Fraction of sort {s}')
        if isinstance(f, ast.Name) and f.id == 'int' and len(n.args) == 1:
            v, s = self.expr(n.args[0])
            if s == 'Q':
                return f'(py_int_of_Q {v})', 'Z'
            if s == 'Z':
                return v, 'Z'
        if ast.unparse(f) == 'math.ceil' and len(n.args) == 1:
            v, s = self.expr(n.args[0])
            if s == 'Q':
                return f'(Qceiling {v})', 'Z'
            if s == 'Z':
                return v, 'Z'
        raise Unsupported(n, 'call')

    def binop(self, n):
        l, sl = self.expr(n.left)
        r, sr = self.expr(n.right)
        if sl == 'Q' and sr == 'Z' and isinstance(n.op, ast.Mult):
            return f'(Qmult {l} (inject_Z {r}))', 'Q'
        if sl == 'Q' and sr == 'Z' and isinstance(n.op, ast.Div):
            return f'(Qdiv {l} (inject_Z {r}))', 'Q'
        if sl == 'Z' and sr == 'Z':
            return super().binop(n)
        raise Unsupported(n, f'operator on sorts {sl},{sr}')

    def compare_other(self, op, l, sl, r, sr, n):
        if isinstance(op, ast.Eq) and sl == 'optstr' and sr == 'str' and len(n.ops) == 1:
            return f'(optstr_eqb {l} {r})'
        raise Unsupported(n, f'comparison on sorts {sl},{sr}')

    def truth(self, v, s, node):
        if s == 'optstr':
            return f'(optstr_truth {v})'
        return super().truth(v, s, node)

    def subscript(self, n):
        if isinstance(n.value, ast.Name) and n.value.id in self.dicts:
            k, sk = self.expr(n.slice)
            if sk == 'optstr':
                self.n_cf += 1
                name = f'cf{self.n_cf}'
                self.pending.append((name, f'lookup_optstr {k} {n.value.id}'))
                return name, 'Z'
        raise Unsupported(n, 'subscript')

    def block(self, stmts, result, declare_sorts=None):
        if stmts and isinstance(stmts[0], ast.Return):
            s = stmts[0]
            if len(stmts) > 1 or s.value is None:
                raise Unsupported(s, 'return form')
            self.pending = []
            v, sort = self.expr(s.value)
            if sort != 'Z':
                raise Unsupported(s, f'returns sort {sort}, expected an int')
            out = f'Ret {v}'
            for name, lk in reversed(self.pending):
                out = f'match {lk} with Some {name} => {out} | None => Raises end'     # KeyError
            self.pending = []
            return out
        out = super().block(stmts, result, declare_sorts)
        if self.pending:
            raise Unsupported(stmts[0], 'dictionary lookup outside a return expression')
        return out


def _factors(tree):
    """Top-level items -> factor list text; groups must be exactly (1) then (2)? ."""
    out, groups = [], []
    for it in tree:
        op, av = it[0], it[1]
        if op == 'SUBPATTERN' and av[0] is not None:
            if av[1] or av[2]:
                raise TieBroken('regex-translator', 'inline flags')
            out.append(f'FGroup {int(av[0])} {tree_to_coq(av[3])}')
            groups.append(('G', int(av[0])))
        elif (op == 'MAX_REPEAT' and av[0] == 0 and av[1] == 1 and len(av[2]) == 1 and av[2][0][0] == 'SUBPATTERN'
              and av[2][0][1][0] is not None):
            sp = av[2][0][1]
            if sp[1] or sp[2]:
                raise TieBroken('regex-translator', 'inline flags')
            out.append(f'FOptGroup {int(sp[0])} {tree_to_coq(sp[3])}')
            groups.append(('O', int(sp[0])))
        else:
            out.append(f'FPlain {item_to_coq(it)}')
    if groups != [('G', 1), ('O', 2)]:
        raise TieBroken('regex-translator', f'expected the top-level groups (1)(2)? , found {groups}')
    return '[' + ';\n     '.join(out) + ']'


def _parse_function(src, fname, objs, dicts):
    fn = find_function(src, fname)
    if len(fn.args.args) != 1 or fn.args.vararg or fn.args.kwarg or fn.args.kwonlyargs:
        raise TieBroken('py-translator', f'{fname}: unexpected signature')
    arg = fn.args.args[0].arg
    body = _strip_doc(fn.body)
    if len(body) != 3:
        raise TieBroken('py-translator', f'{fname}: expected `match = R.fullmatch(s)` / `if match:` / `return None`, found {len(body)} statements')
    s0, s1, s2 = body
    ok0 = (isinstance(s0, ast.Assign) and len(s0.targets) == 1 and isinstance(s0.targets[0], ast.Name) and s0.targets[0].id == 'match'
           and isinstance(s0.value, ast.Call) and isinstance(s0.value.func, ast.Attribute) and isinstance(s0.value.func.value, ast.Name)
           and len(s0.value.args) == 1 and not s0.value.keywords and ast.unparse(s0.value.args[0]) == arg)
    if not ok0:
        raise TieBroken('py-translator', f'{fname} line {s0.lineno}: expected `match = <REGEX>.fullmatch({arg})`')
    meth = s0.value.func.attr
    if meth != 'fullmatch':
        raise TieBroken('py-translator', f'{fname} line {s0.lineno}: entry point .{meth}() (only fullmatch is modelled here)')
    robj = s0.value.func.value.id
    if robj not in objs:
        raise TieBroken('py-translator', f'{fname}: {robj} is not a module-level `re.compile(<PATTERN NAME>)`')
    if not (isinstance(s1, ast.If) and isinstance(s1.test, ast.Name) and s1.test.id == 'match' and not s1.orelse):
        raise TieBroken('py-translator', f'{fname} line {s1.lineno}: expected `if match:` without else')
    if not (isinstance(s2, ast.Return) and isinstance(s2.value, ast.Constant) and s2.value.value is None):
        raise TieBroken('py-translator', f'{fname} line {s2.lineno}: expected `return None`')
    tr = SizePyToCoq(dicts)
    code = tr.block(s1.body, '(* unreachable *) Raises')
    if 'unreachable' in code:
        raise TieBroken('py-translator', f'{fname}: a path through `if match:` does not end in return')
    return robj, code


def _resolve_server(ctx, objs):
    """Which compiled object does the job validator check resources.<key> with, and by which method?"""
    vsrc = ctx.read_repo(SRC_VALIDATE)
    tree = ast.parse(vsrc)
    imported = {}
    for st in tree.body:
        if isinstance(st, ast.ImportFrom) and st.module == 'hailtop.batch_client.parse' and st.level == 0:
            for a in st.names:
                imported[a.asname or a.name] = a.name
    regex_from = [st for st in tree.body if isinstance(st, ast.ImportFrom) and st.module == 'hailtop.utils.validate'
                  and any(a.name == 'regex' and a.asname is None for a in st.names)]
    if not regex_from:
        raise TieBroken('server-side', 'validate.py no longer imports `regex` from hailtop.utils.validate')
    assigned = {t.id for st in ast.walk(tree) if isinstance(st, ast.Assign) for t in st.targets if isinstance(t, ast.Name)}
    found = {}
    for d in ast.walk(tree):
        if not isinstance(d, ast.Dict):
            continue
        keys = [k.value if isinstance(k, ast.Constant) else None for k in d.keys]
        if not {'cpu', 'memory', 'storage'} <= set(keys):
            continue
        for k, v in zip(keys, d.values):
            if k not in ('cpu', 'memory', 'storage'):
                continue
            calls = [c for c in ast.walk(v) if isinstance(c, ast.Call) and isinstance(c.func, ast.Name) and c.func.id == 'regex']
            if len(calls) != 1 or len(calls[0].args) != 2 or calls[0].keywords:
                raise TieBroken('server-side', f'resources.{k}: expected exactly one regex(PATTERN, COMPILED) validator')
            obj = calls[0].args[1]
            if not (isinstance(obj, ast.Name) and obj.id in imported and obj.id not in assigned and imported[obj.id] in objs):
                raise TieBroken('server-side', f'resources.{k}: compiled regex `{ast.unparse(obj)}` is not an object imported from hailtop.batch_client.parse')
            wrapper = ast.unparse(v.func) if isinstance(v, ast.Call) else '?'
            if v is not calls[0] and not (k == 'memory' and wrapper == 'anyof'):
                raise TieBroken('server-side', f'resources.{k}: unexpected wrapper `{wrapper}` around the regex validator')
            if k in found:
                raise TieBroken('server-side', f'resources.{k} defined twice')
            found[k] = imported[obj.id]
    if set(found) != {'cpu', 'memory', 'storage'}:
        raise TieBroken('server-side', f'job validator entries for cpu/memory/storage not found (found {sorted(found)})')
    # RegexValidator: uses the passed object, and fullmatch
    usrc = ctx.read_repo(SRC_VALIDATORS)
    init = find_function(usrc, 'RegexValidator.__init__')
    val = find_function(usrc, 'RegexValidator.validate')
    if 'self.re_obj = re_obj if re_obj is not None else re.compile(pattern)' not in [ast.unparse(s) for s in init.body]:
        raise TieBroken('server-side', 'RegexValidator.__init__ no longer keeps the compiled object it is given')
    tests = [s for s in val.body if isinstance(s, ast.If) and 're_obj' in ast.unparse(s.test)]
    if len(tests) != 1 or ast.unparse(tests[0].test) != 'not self.re_obj.fullmatch(obj)' or not isinstance(tests[0].body[0], ast.Raise):
        raise TieBroken('server-side', 'RegexValidator.validate no longer rejects exactly on `not self.re_obj.fullmatch(obj)`')
    rx = find_function(usrc, 'regex')
    if ast.unparse(rx.body[-1]) != 'return RegexValidator(pattern, re_obj, maxlen)' or [a.arg for a in rx.args.args] != ['pattern', 're_obj', 'maxlen']:
        raise TieBroken('server-side', 'hailtop.utils.validate.regex changed')
    return found


def _strlit(s):
    return '[' + '; '.join(str(ord(c)) for c in s) + ']'


def generate(ctx):
    src = ctx.read_repo(SRC)
    pats, objs, dicts, imports = _module_tables(src)
    if 're' not in imports or 'math' not in imports:
        raise TieBroken('py-translator', '`import re` / `import math` not found in parse.py')
    bodies, used = {}, {}
    for key, fname in FUNCS:
        robj, code = _parse_function(src, fname, {k: v for k, v in objs.items() if v in pats}, dicts)
        used[key] = robj
        bodies[key] = code
        if 'frac_of_str' in code and 'fractions.Fraction' not in imports:
            raise TieBroken('py-translator', '`Fraction` is used but `from fractions import Fraction` is missing')
    names = sorted({objs[o] for o in used.values()})
    parsed = ctx.run_impl('regex_parse.py', {'patterns': [pats[n] for n in names]}, timeout=60)['parsed']
    ptree = dict(zip(names, parsed))
    server = _resolve_server(ctx, objs)
    out = [f'(* GENERATED by harness/props/C25.py from {SRC} (+ {SRC_VALIDATE}) — do not edit *)',
           'From Coq Require Import QArith Qround.',
           'From HailV Require Import Common.Prelude Regex.Regex SizeParse.Model.',
           'Open Scope N_scope.', '']
    for d, ent in dicts.items():
        out.append(f'Definition {d} : list (list N * Z) :=\n  [' + ';\n   '.join(f'({_strlit(k)}, {v}%Z)' for k, v in ent) + '].\n')
    for key, fname in FUNCS:
        pname = objs[used[key]]
        p = ptree[pname]
        pat_comment = pats[pname].replace('(*', '( *').replace('*)', '* )')
        out.append(f'(* {fname}: {used[key]} = re.compile({pname});  {pname} = r\'{pat_comment}\' *)')
        out.append(f'Definition {key}_regex : re :=\n  {parsed_to_coq(p)}.')
        out.append(f'Definition {key}_factors : list factor :=\n    {_factors(p["tree"])}.')
        out.append(f'Definition {key}_body (g1 : list N) (g2 : option (list N)) : pyres :=\n{bodies[key]}.')
        out.append(f'Definition {fname} : list N -> pyres -> Prop := parse_rel {key}_factors {key}_regex {key}_body.\n')
    out.append(f'(* {SRC_VALIDATE}: resources.<key> is checked by RegexValidator.validate = <object>.fullmatch *)')
    inv = {v: k for k, v in used.items()}
    for key in ('cpu', 'memory', 'storage'):
        obj = server[key]
        # the object the server uses, expressed through the client-side definition generated from the same module-level object
        ckey = next(k for k, _ in FUNCS if used[k] == obj) if obj in used.values() else None
        if ckey is None:
            p = ctx.run_impl('regex_parse.py', {'patterns': [pats[objs[obj]]]}, timeout=60)['parsed'][0]
            out.append(f'Definition server_{key}_regex : re := {parsed_to_coq(p)}.   (* {obj} *)')
        else:
            out.append(f'Definition server_{key}_regex : re := {ckey}_regex.   (* {obj} *)')
    out.append('Definition server_mode : mode := FullMatch.')
    ctx.write_generated('Gen.v', '\n'.join(out) + '\n')
    ctx.c25 = dict(pats=pats, objs=objs, used=used, dicts=dicts, server=server)


# ------------------------------------------------------------------------------------------------ reference (no regex, no floats)

META = dict(
    design_ref='§5.B C25',
    technique='Coq proof over all code-point lists about a model regenerated from parse.py (regexes via CPython\'s regex parser, function '
              'bodies via the AST translator over exact rationals) + correspondence of the proved-equivalent executable parser with the real functions',
    level_text='Machine-checked theorems (Coq 8.16, no axioms): for EVERY string, if it denotes q millicores / bytes under the documented grammar '
               '([+] digits | digits* "." digits+ , unit m / K M G T P [i] [B]) then parse_cpu_in_mcpu returns exactly floor(q) and '
               'parse_memory_in_bytes / parse_storage_in_bytes return exactly ceil(q); every other string yields None; the functions never raise '
               '(no KeyError: every unit the regex admits is in conv_factor); the server-side job validator accepts exactly the strings the '
               'client functions parse. The model is regenerated on every run and targets the code with fixes/C25.diff applied '
               '(float -> fractions.Fraction); on the unfixed tree the translator refuses float arithmetic and the oracle replays '
               '\'0.067G\' -> 67000001 and \'1.001\' -> 1000.',
    level_note='Model = code only for numerals of at most 4300 digits: beyond that CPython\'s int(str) limit makes Fraction(str) raise ValueError '
               '(open finding, reproduced by the oracle on every run). Trusted: Coq kernel; Regex.M / Model.FM as the semantics of re.fullmatch and '
               '.group() for a top-level concatenation of groups; frac_of_str as fractions.Fraction(str) (checked differentially); the translators.',
    partial=False,
)
TRUSTED = ['relational semantics HailV.Regex.Regex.M (acceptance) and SizeParse.Model.FM (captures of top-level groups) of CPython re.fullmatch/.group',
           'SizeParse.Model.frac_of_str / py_int_of_Q / Qceiling as fractions.Fraction(str), int(Fraction), math.ceil(Fraction) (differentially tested)',
           'harness/translate/regex_sre.py, harness/translate/pyast.py + the SizePyToCoq extension in harness/props/C25.py',
           'AST reading of batch/batch/front_end/validate.py and hailtop/utils/validate/validate.py (which compiled object, fullmatch)']
ASSUMPTIONS = ['numerals have at most 4300 digits (sys.int_max_str_digits); longer ones make Fraction(str) raise ValueError in the real code — '
               'reported as open finding *:raises-ValueError:digits>4300',
               'the server additionally admits the symbolic memory names lowmem/standard/highmem (anyof(regex, oneof(*memory_types))); they are resolved '
               'before parse_memory_in_bytes is called and are not size strings']

DIG = '0123456789'
UNITS_MEM = {'': 1, 'K': 1000, 'Ki': 1024, 'M': 1000 ** 2, 'Mi': 1024 ** 2, 'G': 1000 ** 3, 'Gi': 1024 ** 3,
             'T': 1000 ** 4, 'Ti': 1024 ** 4, 'P': 1000 ** 5, 'Pi': 1024 ** 5}


def _int_of_digits(d: str) -> int:
    v = 0
    for i in range(0, len(d), 4000):           # stay below the int(str) digit limit of the harness interpreter
        chunk = d[i:i + 4000]
        v = v * 10 ** len(chunk) + (int(chunk) if chunk else 0)
    return v


def ref_numeral(s: str):
    """(numerator, denominator_exponent, rest) for the longest numeral  digits | digits* '.' digits+  at the start of s, else None."""
    i = 0
    while i < len(s) and s[i] in DIG:
        i += 1
    if i < len(s) and s[i] == '.':
        j = i + 1
        while j < len(s) and s[j] in DIG:
            j += 1
        if j > i + 1:
            return _int_of_digits(s[:i] + s[i + 1:j]), j - i - 1, s[j:]
    if i == 0:
        return None
    return _int_of_digits(s[:i]), 0, s[i:]


def ref_parse(kind: str, s: str):
    """None if s is not a size string of this kind, else the exact int the property demands."""
    if s.startswith('+'):
        s = s[1:]
    r = ref_numeral(s)
    if r is None:
        return None
    n, k, rest = r
    if kind == 'cpu':
        if rest == '':
            return (n * 1000) // 10 ** k                    # floor
        if rest == 'm':
            return n // 10 ** k
        return None
    if rest.endswith('B'):
        rest = rest[:-1]
    if rest not in UNITS_MEM:
        return None
    return -((-n * UNITS_MEM[rest]) // 10 ** k)             # ceil


def _show(x) -> str:
    """ints may have thousands of digits: never go through int->decimal str for those (interpreter digit limit)."""
    if isinstance(x, int) and not isinstance(x, bool) and x.bit_length() > 4000:
        h = hex(x)
        return f'{h[:24]}...({len(h) - 2} hex digits)'
    return str(x)


def _ndigits(s: str) -> int:
    best = cur = 0
    for c in s:
        cur = cur + 1 if c in DIG else 0
        best = max(best, cur)
    return best


def _sig(s: str) -> str:
    out = []
    for c in s:
        t = 'd' if c in DIG else c if (c.isascii() and c.isprintable()) else 'N' if c == '\n' else 'u' if ord(c) > 127 else 'C'
        if not (t == 'd' and out and out[-1] == 'd'):
            out.append(t)
    return ''.join(out)[:14]


# ------------------------------------------------------------------------------------------------ cases

SMALL = '05.+mKiBG'
ODD = ['', '.', '+', '1.', '.5', '+.5', '++1', '1..2', '1.2.3', '1e3', '1E3', '-1', ' 1', '1 ', '1\n', '\n1', '1m\n', '1Gi\n', '0x10', '1_000', 'inf', 'nan',
       '١', '1١', '１', '1٫5', '1,5', '1k', '1ki', '1KI', '1kB', '1Kb', '1mB', '1Bi', '1iB', '1BB', '1KiBB', '1KK', '1mm', '1M', '1m', 'm', 'K', 'B', 'Ki', 'KiB',
       '1Ei', '1E', '1Z', '1Y', '1µ', '0', '00', '000.000', '+0', '+0m', '0.0004', '0.0005m', '0.9999', '0.9995', '1.0005', '2.5m', '1.0000000000000001',
       '0.1', '0.2', '0.3', '0.7', '1.1', '2.2', '4.35', '8.675', '0.067G', '1.001', '0.29', '0.57', '0.58', '1.15', '16.1', '32.3', '0.001Pi', '0.1Pi', '1.5KiB',
       '9007199254740993', '9007199254740993m', '9007199254740993K', '0.30000000000000004', '123456789.123456789Ti', '0.000000000000000000001P',
       '99999999999999999999999999999999999', '1' + '0' * 320, '0.' + '0' * 330 + '1', '1' + '0' * 400 + 'Pi', '4.9e-324', 'lowmem', 'standard', 'highmem']


def _gen_valid(rng, kind):
    ip = ''.join(rng.choice(DIG) for _ in range(rng.choice([0, 1, 1, 1, 2, 3, 5, 9, 16, 17, 18, 25])))
    fp = ''.join(rng.choice(DIG) for _ in range(rng.choice([0, 0, 1, 2, 3, 3, 3, 4, 6, 9, 15, 16, 17, 20, 30])))
    if not ip and not fp:
        ip = rng.choice(DIG)
    num = ip + ('.' + fp if fp else '')
    unit = rng.choice(['', 'm']) if kind == 'cpu' else rng.choice(list(UNITS_MEM)) + rng.choice(['', 'B'])
    return rng.choice(['', '', '', '+']) + num + unit


def _cases(ctx, n_random, small_len, with_sweep):
    import glob
    import itertools
    import os
    out = []
    for f in sorted(glob.glob(os.path.join(ctx.verif, 'corpus', ID, '*.json'))):
        out += [c['s'] for c in json.load(open(f)).get('cases', [])]
    out += ODD
    for k in range(1, small_len + 1):
        out += [''.join(t) for t in itertools.product(SMALL, repeat=k)]
    rng = ctx.rng
    for _ in range(n_random):
        s = _gen_valid(rng, rng.choice(['cpu', 'mem', 'mem']))
        if rng.random() < 0.25:                           # perturb
            i = rng.randint(0, len(s))
            s = s[:i] + rng.choice(['.', '+', 'm', 'B', 'i', 'K', 'k', ' ', '\n', 'e', '-', '٣', 'E', 'Gi', '']) + s[i + rng.choice([0, 0, 1]):]
        out.append(s)
    if with_sweep:                                        # the family where binary floating point goes wrong
        for a in range(0, 30):
            for frac in range(0, 1000, 1 if ctx.thorough else 7):
                out.append(f'{a}.{frac:03d}')
    seen, uniq = set(), []
    for s in out:
        if s not in seen:
            seen.add(s)
            uniq.append(s)
    return uniq


LONG = [('9' * 4300, True), ('0.' + '0' * 4299 + '1', True), ('1' * 2150 + '.' + '7' * 2150, True),
        ('9' * 4301, False), ('0.' + '0' * 4300 + '1', False)]


def _cps(s):
    return [ord(c) for c in s]


def _dec(x):
    return int(x, 16) if isinstance(x, str) and not x.startswith('Raises') else x


def _eval_impl(ctx, strings, server=False):
    r = ctx.run_impl('c25_parse.py', {'op': 'eval', 'strings': [_cps(s) for s in strings], 'server': server}, timeout=600)
    for k in ('cpu', 'memory', 'storage'):
        r[k] = [_dec(x) for x in r[k]]
    return r


def _coq_list(s):
    return '[' + '; '.join(str(ord(c)) for c in s) + ']'


# ------------------------------------------------------------------------------------------------ X

def correspond(ctx):
    strings = _cases(ctx, ctx.scale(2500, 12000), 4, with_sweep=False)
    impl = _eval_impl(ctx, strings)
    header = ('From Coq Require Import QArith Qround.\nFrom HailV Require Import Common.Prelude Regex.Regex SizeParse.Model.\n'
              'From HailG Require Import C25.Gen.\nOpen Scope N_scope.')
    B = 200
    exprs = []
    for i in range(0, len(strings), B):
        lst = '[' + '; '.join(_coq_list(s) for s in strings[i:i + B]) + ']'
        exprs.append(f'map (fun s : list N => (cpu_spec s, mem_spec s)) {lst}')
    model = [t for batch in coq_eval(ctx, header, exprs, shard=3) for t in batch]
    dis = []
    hist = {'cpu': {'int': 0, 'None': 0}, 'memory': {'int': 0, 'None': 0}}

    def un(o):
        return None if o is None else o[1]
    for s, (mc, mm), ic, im, ist in zip(strings, model, impl['cpu'], impl['memory'], impl['storage']):
        hist['cpu']['int' if isinstance(ic, int) else 'None'] += 1
        hist['memory']['int' if isinstance(im, int) else 'None'] += 1
        if un(mc) != ic:
            dis.append(Disagreement('cpu_spec~parse_cpu_in_mcpu', {'fn': 'cpu', 's': s}, un(mc), ic))
        if un(mm) != im:
            dis.append(Disagreement('mem_spec~parse_memory_in_bytes', {'fn': 'memory', 's': s}, un(mm), im))
        if un(mm) != ist:
            dis.append(Disagreement('mem_spec~parse_storage_in_bytes', {'fn': 'storage', 's': s}, un(mm), ist))
    # the model of fractions.Fraction(str) on the numerals
    nums = sorted({s.lstrip('+').rstrip('mKMGTPiB') for s in strings if ref_parse('mem', s) is not None or ref_parse('cpu', s) is not None})
    nums = [x for x in nums if x and _ndigits(x) <= 400][:ctx.scale(1500, 5000)]
    fr = ctx.run_impl('c25_parse.py', {'op': 'fraction', 'strings': [_cps(s) for s in nums]}, timeout=300)['fraction']
    exprs = []
    for i in range(0, len(nums), B):
        lst = '[' + '; '.join(_coq_list(s) for s in nums[i:i + B]) + ']'
        exprs.append(f'map (fun s : list N => let q := Qred (frac_of_str s) in (Qnum q, Zpos (Qden q))) {lst}')
    mfr = [t for batch in coq_eval(ctx, header, exprs, shard=3, label='frac') for t in batch]
    for s, m, i in zip(nums, mfr, fr):
        iv = i if isinstance(i, str) else (int(i[0], 16), int(i[1], 16))
        if tuple(m) != iv:
            dis.append(Disagreement('frac_of_str~fractions.Fraction', {'fn': 'fraction', 's': s}, list(m), iv))
    nontrivial = sum(1 for s in strings if ref_parse('cpu', s) is not None or ref_parse('mem', s) is not None)
    return Corr(evaluations=3 * len(strings) + len(nums), distinct_nontrivial=nontrivial,
                rule='distinct strings: corpus + hand-written odd cases (unicode digits, exponents, case variants, newlines, 17+ digit numerals, '
                     '4300-digit numerals) + ALL strings of length <= %d over {0,5,.,+,m,K,i,B,G} + seeded grammar-directed random strings with '
                     'perturbations; non-trivial = in the cpu or memory grammar; real parse_* vs the proved executable parsers (vm_compute); '
                     'real fractions.Fraction vs Model.frac_of_str on the numerals' % 4,
                samples=[{'s': s, 'cpu': _show(ic), 'memory': _show(im)} for s, ic, im in list(zip(strings, impl['cpu'], impl['memory']))[100:103]],
                disagreements=dis, histograms=hist,
                names=['cpu_spec~parse_cpu_in_mcpu', 'mem_spec~parse_memory_in_bytes', 'mem_spec~parse_storage_in_bytes', 'frac_of_str~fractions.Fraction'])


# ------------------------------------------------------------------------------------------------ oracle

def oracle(ctx, budget):
    strings = _cases(ctx, ctx.scale(6000, 60000) * budget, ctx.scale(4, 5), with_sweep=True)
    units = ['K', 'Ki', 'M', 'Mi', 'G', 'Gi', 'T', 'Ti', 'P', 'Pi']
    sweep = [s for s in strings if len(s) >= 5 and s[-4] == '.' and s.replace('.', '').isdigit()]
    strings += [s + u for s in sweep for u in (units if ctx.thorough or budget > 1 else ['G', 'Mi', 'T'])] + [s + 'm' for s in sweep]
    strings += [s + u for s, _ in LONG for u in ('', 'm', 'Gi')]
    impl = _eval_impl(ctx, strings, server=True)
    bad = {}

    def note(key, what, case, exp, obs):
        if key not in bad or len(case['s']) < len(bad[key].case['s']):
            bad[key] = Failure(key, what, case, exp, obs)
    n_valid = 0
    for idx, s in enumerate(strings):
        for fn, kind in (('cpu', 'cpu'), ('memory', 'mem'), ('storage', 'mem')):
            exp = ref_parse(kind, s)
            obs = impl[fn][idx]
            n_valid += exp is not None
            if obs == exp:
                pass
            elif isinstance(obs, str):
                cls = 'digits>4300' if _ndigits(s) > 4300 else 'digits<=4300'
                note(f'{fn}:raises-{obs[7:]}:{cls}', f'parse_{fn}({s[:40]!r}{"..." if len(s) > 40 else ""}) raises {obs[7:]} ({len(s)} characters); expected {_show(exp)[:40]}',
                     {'fn': fn, 's': s}, None if exp is None else _show(exp), obs)
            elif exp is None:
                note(f'{fn}:accepts-outside-grammar:{_sig(s)}', f'parse_{fn}({s!r}) = {_show(obs)}, but the string is not in the grammar', {'fn': fn, 's': s}, None, _show(obs))
            elif obs is None:
                note(f'{fn}:rejects-grammar-string:{_sig(s)}', f'parse_{fn}({s!r}) = None, expected {_show(exp)}', {'fn': fn, 's': s}, _show(exp), None)
            else:
                d = obs - exp
                note(f'{fn}:wrong-value:{"off-by-one" if abs(d) == 1 else "off-by-more"}',
                     f'parse_{fn}({s[:60]!r}) = {_show(obs)}, exact value {_show(exp)}', {'fn': fn, 's': s}, _show(exp), _show(obs))
            # client/server
            srv = impl['server'][fn][idx]
            cli = isinstance(obs, int) or (isinstance(obs, str))          # a raise is still "the regex matched"
            if fn == 'memory' and s in impl.get('memory_types', []):
                continue
            if srv != cli:
                note(f'server-client-differ:{fn}:{_sig(s)}', f'job validator {"accepts" if srv is True else "rejects"} resources.{fn}={s!r} but the client '
                     f'function {"parses" if cli else "does not parse"} it', {'fn': fn, 's': s, 'server': True}, cli, srv)
    fails = sorted(bad.values(), key=lambda f: (len(f.case['s']), f.key))
    return fails, {'evaluations': 6 * len(strings), 'distinct_nontrivial': n_valid,
                   'rule': 'oracle: for every string and each of parse_cpu_in_mcpu / parse_memory_in_bytes / parse_storage_in_bytes the result must equal the '
                           'exact floor/ceil computed with integer arithmetic by a hand-written scanner (None outside the grammar), and the real '
                           'job_validator["resources"] must accept it iff the client function parses it; cases = correspondence cases (larger random part) + '
                           'all d.ddd below 30 (stride %d) with and without units + 4300/4301-digit numerals; non-trivial = (string, function) pairs in the grammar'
                           % (1 if ctx.thorough else 7),
                   'histograms': {'oracle_failure_keys': sorted(bad)[:20]}}


def replay(ctx, doc):
    case = doc.get('case') or doc
    s = case['s']
    r = _eval_impl(ctx, [s], server=True)
    return {'string': s if len(s) < 200 else s[:100] + f'...({len(s)} chars)',
            'impl': {k: (_show(r[k][0])[:80]) for k in ('cpu', 'memory', 'storage')},
            'server_accepts': {k: r['server'][k][0] for k in ('cpu', 'memory', 'storage')},
            'exact': {'cpu': _show(ref_parse('cpu', s))[:80], 'memory/storage': _show(ref_parse('mem', s))[:80]}}
