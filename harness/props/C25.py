"""C25 — resource-size strings parse to their decimal value (hail/python/hailtop/batch_client/parse.py; shared with the job
validator in batch/batch/front_end/validate.py).

Tie: T + X.  On every run
  * the three pattern strings of parse.py are parsed by the implementation interpreter's own `re._parser` and mapped to
    `Regex.re` values; each is also cut into its top-level factors ([+]? (number) (unit)? B?) whose re-assembly is proved equal
    to the full regex inside Coq (so the cut is not trusted);
  * the body of every parse function (the statements under `if match:`) is translated statement by statement into Gallina over
    exact rationals (`fractions.Fraction` -> Q); `float(...)` is OUTSIDE the subset: binary floating point makes the property
    false (`'0.067G' -> 67000001`), see fixes/C25.diff;
  * `conv_factor` is regenerated from the dict literal;
  * validate.py / hailtop.utils.validate are read structurally: which compiled regex object each of resources.cpu/memory/storage
    is checked with, and that the check is `fullmatch`.
Lemmas.v proves, for ALL code-point lists, that the generated relation is the graph of an exact executable parser, that this
parser returns floor / ceil of the denoted rational for every string of the documented grammar and None for every other string,
and that the server-side validator accepts exactly the strings the client functions parse.
"""
import ast
import json

from harness.core import Corr, Disagreement, Failure, TieBroken, coq_eval
from harness.translate.pyast import PyToCoq, find_function, Unsupported
from harness.translate.regex_sre import parsed_to_coq, tree_to_coq, item_to_coq

ID = 'C25'
SRC = 'hail/python/hailtop/batch_client/parse.py'
SRC_VALIDATE = 'batch/batch/front_end/validate.py'
SRC_VALIDATORS = 'hail/python/hailtop/utils/validate/validate.py'
COQ_PROPS = 'theories/SizeParse/Props_C25.v'
READY = False

FUNCS = [('cpu', 'parse_cpu_in_mcpu'), ('memory', 'parse_memory_in_bytes'), ('storage', 'parse_storage_in_bytes')]


# ------------------------------------------------------------------------------------------------ T

def _strip_doc(body):
    return [s for s in body if not (isinstance(s, ast.Expr) and isinstance(s.value, ast.Constant) and isinstance(s.value.value, str))]


def _int_const(n) -> int:
    """int literals and ** * of them (the values of conv_factor)."""
    if isinstance(n, ast.Constant) and isinstance(n.value, int) and not isinstance(n.value, bool):
        return n.value
    if isinstance(n, ast.BinOp) and isinstance(n.op, (ast.Pow, ast.Mult)):
        a, b = _int_const(n.left), _int_const(n.right)
        if isinstance(n.op, ast.Pow):
            if not 0 <= b <= 64:
                raise Unsupported(n, 'exponent')
            return a ** b
        return a * b
    raise Unsupported(n, 'not an integer constant expression')


def _module_tables(src: str):
    tree = ast.parse(src)
    pats, objs, dicts, imports = {}, {}, {}, set()
    for st in tree.body:
        if isinstance(st, ast.Import):
            imports |= {a.name for a in st.names if a.asname is None}
        elif isinstance(st, ast.ImportFrom):
            imports |= {f'{st.module}.{a.name}' for a in st.names if a.asname is None}
        tgt = val = None
        if isinstance(st, ast.AnnAssign) and isinstance(st.target, ast.Name) and st.value is not None:
            tgt, val = st.target.id, st.value
        elif isinstance(st, ast.Assign) and len(st.targets) == 1 and isinstance(st.targets[0], ast.Name):
            tgt, val = st.targets[0].id, st.value
        if tgt is None:
            continue
        for d in (pats, objs, dicts):
            d.pop(tgt, None)                       # a later re-assignment invalidates what we knew
        if isinstance(val, ast.Constant) and isinstance(val.value, str):
            pats[tgt] = val.value
        elif (isinstance(val, ast.Call) and ast.unparse(val.func) == 're.compile' and len(val.args) == 1 and not val.keywords
              and isinstance(val.args[0], ast.Name)):
            objs[tgt] = val.args[0].id
        elif isinstance(val, ast.Dict):
            ent = []
            for k, v in zip(val.keys, val.values):
                if not (isinstance(k, ast.Constant) and isinstance(k.value, str)):
                    raise Unsupported(val, 'dict key')
                ent.append((k.value, _int_const(v)))
            dicts[tgt] = ent
    return pats, objs, dicts, imports


class SizePyToCoq(PyToCoq):
    """Body of `if match:` — exact rationals, the two capture groups, one dict lookup per return."""

    def __init__(self, dicts):
        super().__init__(sorts={}, option_mode=False)
        self.dicts = dicts
        self.pending = []
        self.n_cf = 0

    def expr(self, n):
        if isinstance(n, ast.Constant) and isinstance(n.value, int) and not isinstance(n.value, bool):
            return (f'({n.value})%Z' if n.value < 0 else f'{n.value}%Z'), 'Z'
        return super().expr(n)

    def call(self, n):
        if n.keywords:
            raise Unsupported(n, 'keyword arguments')
        f = n.func
        if (isinstance(f, ast.Attribute) and f.attr == 'group' and isinstance(f.value, ast.Name) and f.value.id == 'match'
                and len(n.args) == 1 and isinstance(n.args[0], ast.Constant) and n.args[0].value in (1, 2)):
            return ('g1', 'str') if n.args[0].value == 1 else ('g2', 'optstr')
        if isinstance(f, ast.Name) and f.id == 'float':
            raise TieBroken('py-translator', f'line {n.lineno}: `{ast.unparse(n)}` — binary floating point is outside the exact subset '
                                             f'(the property is false for float arithmetic; fixes/C25.diff replaces it by fractions.Fraction)')
        if isinstance(f, ast.Name) and f.id == 'Fraction' and len(n.args) == 1:
            v, s = self.expr(n.args[0])
            if s == 'str':
                return f'(frac_of_str {v})', 'Q'
            raise Unsupported(n, f'Fraction of sort {s}')
        if isinstance(f, ast.Name) and f.id == 'int' and len(n.args) == 1:
            v, s = self.expr(n.args[0])
            if s == 'Q':
                return f'(py_int_of_Q {v})', 'Z'
            if s == 'Z':
                return v, 'Z'
        if ast.unparse(f) == 'math.ceil' and len(n.args) == 1:
            v, s = self.expr(n.args[0])
            if s == 'Q':
                return f'(Qceiling {v})', 'Z'
            if s == 'Z':
                return v, 'Z'
        raise Unsupported(n, 'call')

    def binop(self, n):
        l, sl = self.expr(n.left)
        r, sr = self.expr(n.right)
        if sl == 'Q' and sr == 'Z' and isinstance(n.op, ast.Mult):
            return f'(Qmult {l} (inject_Z {r}))', 'Q'
        if sl == 'Q' and sr == 'Z' and isinstance(n.op, ast.Div):
            return f'(Qdiv {l} (inject_Z {r}))', 'Q'
        if sl == 'Z' and sr == 'Z':
            return super().binop(n)
        raise Unsupported(n, f'operator on sorts {sl},{sr}')

    def compare_other(self, op, l, sl, r, sr, n):
        if isinstance(op, ast.Eq) and sl == 'optstr' and sr == 'str' and len(n.ops) == 1:
            return f'(optstr_eqb {l} {r})'
        raise Unsupported(n, f'comparison on sorts {sl},{sr}')

    def truth(self, v, s, node):
        if s == 'optstr':
            return f'(optstr_truth {v})'
        return super().truth(v, s, node)

    def subscript(self, n):
        if isinstance(n.value, ast.Name) and n.value.id in self.dicts:
            k, sk = self.expr(n.slice)
            if sk == 'optstr':
                self.n_cf += 1
                name = f'cf{self.n_cf}'
                self.pending.append((name, f'lookup_optstr {k} {n.value.id}'))
                return name, 'Z'
        raise Unsupported(n, 'subscript')

    def block(self, stmts, result, declare_sorts=None):
        if stmts and isinstance(stmts[0], ast.Return):
            s = stmts[0]
            if len(stmts) > 1 or s.value is None:
                raise Unsupported(s, 'return form')
            self.pending = []
            v, sort = self.expr(s.value)
            if sort != 'Z':
                raise Unsupported(s, f'returns sort {sort}, expected an int')
            out = f'Ret {v}'
            for name, lk in reversed(self.pending):
                out = f'match {lk} with Some {name} => {out} | None => Raises end'     # KeyError
            self.pending = []
            return out
        out = super().block(stmts, result, declare_sorts)
        if self.pending:
            raise Unsupported(stmts[0], 'dictionary lookup outside a return expression')
        return out


def _factors(tree):
    """Top-level items -> factor list text; groups must be exactly (1) then (2)? ."""
    out, groups = [], []
    for it in tree:
        op, av = it[0], it[1]
        if op == 'SUBPATTERN' and av[0] is not None:
            if av[1] or av[2]:
                raise TieBroken('regex-translator', 'inline flags')
            out.append(f'FGroup {int(av[0])} {tree_to_coq(av[3])}')
            groups.append(('G', int(av[0])))
        elif (op == 'MAX_REPEAT' and av[0] == 0 and av[1] == 1 and len(av[2]) == 1 and av[2][0][0] == 'SUBPATTERN'
              and av[2][0][1][0] is not None):
            sp = av[2][0][1]
            if sp[1] or sp[2]:
                raise TieBroken('regex-translator', 'inline flags')
            out.append(f'FOptGroup {int(sp[0])} {tree_to_coq(sp[3])}')
            groups.append(('O', int(sp[0])))
        else:
            out.append(f'FPlain {item_to_coq(it)}')
    if groups != [('G', 1), ('O', 2)]:
        raise TieBroken('regex-translator', f'expected the top-level groups (1)(2)? , found {groups}')
    return '[' + ';\n     '.join(out) + ']'


def _parse_function(src, fname, objs, dicts):
    fn = find_function(src, fname)
    if len(fn.args.args) != 1 or fn.args.vararg or fn.args.kwarg or fn.args.kwonlyargs:
        raise TieBroken('py-translator', f'{fname}: unexpected signature')
    arg = fn.args.args[0].arg
    body = _strip_doc(fn.body)
    if len(body) != 3:
        raise TieBroken('py-translator', f'{fname}: expected `match = R.fullmatch(s)` / `if match:` / `return None`, found {len(body)} statements')
    s0, s1, s2 = body
    ok0 = (isinstance(s0, ast.Assign) and len(s0.targets) == 1 and isinstance(s0.targets[0], ast.Name) and s0.targets[0].id == 'match'
           and isinstance(s0.value, ast.Call) and isinstance(s0.value.func, ast.Attribute) and isinstance(s0.value.func.value, ast.Name)
           and len(s0.value.args) == 1 and not s0.value.keywords and ast.unparse(s0.value.args[0]) == arg)
    if not ok0:
        raise TieBroken('py-translator', f'{fname} line {s0.lineno}: expected `match = <REGEX>.fullmatch({arg})`')
    meth = s0.value.func.attr
    if meth != 'fullmatch':
        raise TieBroken('py-translator', f'{fname} line {s0.lineno}: entry point .{meth}() (only fullmatch is modelled here)')
    robj = s0.value.func.value.id
    if robj not in objs:
        raise TieBroken('py-translator', f'{fname}: {robj} is not a module-level `re.compile(<PATTERN NAME>)`')
    if not (isinstance(s1, ast.If) and isinstance(s1.test, ast.Name) and s1.test.id == 'match' and not s1.orelse):
        raise TieBroken('py-translator', f'{fname} line {s1.lineno}: expected `if match:` without else')
    if not (isinstance(s2, ast.Return) and isinstance(s2.value, ast.Constant) and s2.value.value is None):
        raise TieBroken('py-translator', f'{fname} line {s2.lineno}: expected `return None`')
    tr = SizePyToCoq(dicts)
    code = tr.block(s1.body, '(* unreachable *) Raises')
    if 'unreachable' in code:
        raise TieBroken('py-translator', f'{fname}: a path through `if match:` does not end in return')
    return robj, code


def _resolve_server(ctx, objs):
    """Which compiled object does the job validator check resources.<key> with, and by which method?"""
    vsrc = ctx.read_repo(SRC_VALIDATE)
    tree = ast.parse(vsrc)
    imported = {}
    for st in tree.body:
        if isinstance(st, ast.ImportFrom) and st.module == 'hailtop.batch_client.parse' and st.level == 0:
            for a in st.names:
                imported[a.asname or a.name] = a.name
    regex_from = [st for st in tree.body if isinstance(st, ast.ImportFrom) and st.module == 'hailtop.utils.validate'
                  and any(a.name == 'regex' and a.asname is None for a in st.names)]
    if not regex_from:
        raise TieBroken('server-side', 'validate.py no longer imports `regex` from hailtop.utils.validate')
    assigned = {t.id for st in ast.walk(tree) if isinstance(st, ast.Assign) for t in st.targets if isinstance(t, ast.Name)}
    found = {}
    for d in ast.walk(tree):
        if not isinstance(d, ast.Dict):
            continue
        keys = [k.value if isinstance(k, ast.Constant) else None for k in d.keys]
        if not {'cpu', 'memory', 'storage'} <= set(keys):
            continue
        for k, v in zip(keys, d.values):
            if k not in ('cpu', 'memory', 'storage'):
                continue
            calls = [c for c in ast.walk(v) if isinstance(c, ast.Call) and isinstance(c.func, ast.Name) and c.func.id == 'regex']
            if len(calls) != 1 or len(calls[0].args) != 2 or calls[0].keywords:
                raise TieBroken('server-side', f'resources.{k}: expected exactly one regex(PATTERN, COMPILED) validator')
            obj = calls[0].args[1]
            if not (isinstance(obj, ast.Name) and obj.id in imported and obj.id not in assigned and imported[obj.id] in objs):
                raise TieBroken('server-side', f'resources.{k}: compiled regex `{ast.unparse(obj)}` is not an object imported from hailtop.batch_client.parse')
            wrapper = ast.unparse(v.func) if isinstance(v, ast.Call) else '?'
            if v is not calls[0] and not (k == 'memory' and wrapper == 'anyof'):
                raise TieBroken('server-side', f'resources.{k}: unexpected wrapper `{wrapper}` around the regex validator')
            if k in found:
                raise TieBroken('server-side', f'resources.{k} defined twice')
            found[k] = imported[obj.id]
    if set(found) != {'cpu', 'memory', 'storage'}:
        raise TieBroken('server-side', f'job validator entries for cpu/memory/storage not found (found {sorted(found)})')
    # RegexValidator: uses the passed object, and fullmatch
    usrc = ctx.read_repo(SRC_VALIDATORS)
    init = find_function(usrc, 'RegexValidator.__init__')
    val = find_function(usrc, 'RegexValidator.validate')
    if 'self.re_obj = re_obj if re_obj is not None else re.compile(pattern)' not in [ast.unparse(s) for s in init.body]:
        raise TieBroken('server-side', 'RegexValidator.__init__ no longer keeps the compiled object it is given')
    tests = [s for s in val.body if isinstance(s, ast.If) and 're_obj' in ast.unparse(s.test)]
    if len(tests) != 1 or ast.unparse(tests[0].test) != 'not self.re_obj.fullmatch(obj)' or not isinstance(tests[0].body[0], ast.Raise):
        raise TieBroken('server-side', 'RegexValidator.validate no longer rejects exactly on `not self.re_obj.fullmatch(obj)`')
    rx = find_function(usrc, 'regex')
    if ast.unparse(rx.body[-1]) != 'return RegexValidator(pattern, re_obj, maxlen)' or [a.arg for a in rx.args.args] != ['pattern', 're_obj', 'maxlen']:
        raise TieBroken('server-side', 'hailtop.utils.validate.regex changed')
    return found


def _strlit(s):
    return '[' + '; '.join(str(ord(c)) for c in s) + ']'


def generate(ctx):
    src = ctx.read_repo(SRC)
    pats, objs, dicts, imports = _module_tables(src)
    if 're' not in imports or 'math' not in imports:
        raise TieBroken('py-translator', '`import re` / `import math` not found in parse.py')
    bodies, used = {}, {}
    for key, fname in FUNCS:
        robj, code = _parse_function(src, fname, {k: v for k, v in objs.items() if v in pats}, dicts)
        used[key] = robj
        bodies[key] = code
        if 'frac_of_str' in code and 'fractions.Fraction' not in imports:
            raise TieBroken('py-translator', '`Fraction` is used but `from fractions import Fraction` is missing')
    names = sorted({objs[o] for o in used.values()})
    parsed = ctx.run_impl('regex_parse.py', {'patterns': [pats[n] for n in names]}, timeout=60)['parsed']
    ptree = dict(zip(names, parsed))
    server = _resolve_server(ctx, objs)
    out = [f'(* GENERATED by harness/props/C25.py from {SRC} (+ {SRC_VALIDATE}) — do not edit *)',
           'From Coq Require Import QArith Qround.',
           'From HailV Require Import Common.Prelude Regex.Regex SizeParse.Model.',
           'Open Scope N_scope.', '']
    for d, ent in dicts.items():
        out.append(f'Definition {d} : list (list N * Z) :=\n  [' + ';\n   '.join(f'({_strlit(k)}, {v}%Z)' for k, v in ent) + '].\n')
    for key, fname in FUNCS:
        pname = objs[used[key]]
        p = ptree[pname]
        pat_comment = pats[pname].replace('(*', '( *').replace('*)', '* )')
        out.append(f'(* {fname}: {used[key]} = re.compile({pname});  {pname} = r\'{pat_comment}\' *)')
        out.append(f'Definition {key}_regex : re :=\n  {parsed_to_coq(p)}.')
        out.append(f'Definition {key}_factors : list factor :=\n    {_factors(p["tree"])}.')
        out.append(f'Definition {key}_body (g1 : list N) (g2 : option (list N)) : pyres :=\n{bodies[key]}.')
        out.append(f'Definition {fname} : list N -> pyres -> Prop := parse_rel {key}_factors {key}_regex {key}_body.\n')
    out.append(f'(* {SRC_VALIDATE}: resources.<key> is checked by RegexValidator.validate = <object>.fullmatch *)')
    inv = {v: k for k, v in used.items()}
    for key in ('cpu', 'memory', 'storage'):
        obj = server[key]
        # the object the server uses, expressed through the client-side definition generated from the same module-level object
        ckey = next(k for k, _ in FUNCS if used[k] == obj) if obj in used.values() else None
        if ckey is None:
            p = ctx.run_impl('regex_parse.py', {'patterns': [pats[objs[obj]]]}, timeout=60)['parsed'][0]
            out.append(f'Definition server_{key}_regex : re := {parsed_to_coq(p)}.   (* {obj} *)')
        else:
            out.append(f'Definition server_{key}_regex : re := {ckey}_regex.   (* {obj} *)')
    out.append('Definition server_mode : mode := FullMatch.')
    ctx.write_generated('Gen.v', '\n'.join(out) + '\n')
    ctx.c25 = dict(pats=pats, objs=objs, used=used, dicts=dicts, server=server)
