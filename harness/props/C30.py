"""C30 — CI merges only fully tested, approved, current PRs (ci/ci/github.py: PR, WatchedBranch).

Tie: X + T.  coq/theories/CI/Model.v is a hand-written event-sourced model (GitHub truth, batch-service truth, CI's beliefs) of
update_from_gh_json / _update_github / _update_batch / _heal / is_mergeable / try_to_merge; CI/Lemmas1-3.v prove, for ALL
event histories, that every merge is safe and that no two merges use the same target commit.  The correspondence drives
the REAL PR / WatchedBranch objects (scripted fake GitHub, fake batch service, fake database) and the model with the same
histories and compares the full observable state after every event; a second correspondence runs the real `_update` loop
(notify_github_changed / notify_batch_changed / update) and checks that it is a composition of the model's events.

That model treats _update_github / _update_batch / _heal(+try_to_merge) as atomic events, which is sound only if at most one
coroutine is ever inside the body of `_update`.  The re-entrancy guard (`WatchedBranch.updating` + the three `*_changed`
flags) is modelled and proved on its own: harness/translate/c30_guard.py TRANSLATES the control skeleton of `_update`,
`notify_github_changed`, `notify_batch_changed`, `update` (and checks over ci/ci/*.py who writes the flags and who calls
`_update`; fails closed), CI/GuardTie.v proves the translation equal to the hand-written skeleton of CI/Guard.v (a small-step
interpreter with Python's return / exception / finally semantics, run one atomic segment at a time under an arbitrary scheduler),
and CI/GuardLemmas.v proves mutual exclusion, no lost wake-up and progress for every interleaving of any number of notifications.
A third correspondence (harness/impl/c30_guard.py) runs the real notification coroutines as OVERLAPPING tasks on the
deterministic loop (harness/aio/tickloop.py) with every fake call a suspension point, fires 2-5 notifications at every await
point, and compares flags / task positions with CI/Guard.v after every atomic segment.

Oracle: the property on the implementation only — every merge the real objects perform (sequential histories, pushes racing the
merge request, overlapping notifications) is checked against the provenance the fakes recorded (for which head commit the review
decision and each status were obtained, the batch's real state); and never two tasks inside sub-operations of `_update` at once.
"""
import json
import os

from harness.core import Corr, Disagreement, Failure, coq_eval, VERIF
from harness.translate import c30_guard, c30_guard_plug

ID = 'C30'
SRC = 'ci/ci/github.py'
COQ_PROPS = 'theories/CI/Props_C30.v'
READY = True
META = dict(
    design_ref='§5.E C30',
    technique='Coq proof by invariant over all event histories of a hand model of PR/WatchedBranch; step-by-step state correspondence '
              'with the real objects driven by the same histories against scripted fakes; the re-entrancy guard of _update: control '
              'skeleton translated from the source (T, fail closed), interpreted by a small-step semantics under an arbitrary scheduler, '
              'invariant proof over all schedules, and a segment-by-segment correspondence with the real coroutines run as overlapping '
              'tasks on the deterministic event loop',
    level_text='Machine-checked (Coq 8.16, no axioms): for EVERY history of Open / Push / Review / Label / Status / TargetMove / BatchComplete / '
               'Fetch (complete or failing after k pull requests) / UpdateBatch / Heal(+TryMerge) events, every merge the model performs has: '
               'review approved and fetched for the merged head, no do-not-merge label, a non-empty set of statuses that are all success and '
               'all obtained for the merged head, a test batch built from the merged head against the target commit CI holds as current '
               'that really completed successfully, and GitHub\'s head equal to the merged commit; and no two merges use the same target '
               'commit. The model is of the code with fixes/C30.diff; the unfixed code is shown to merge with a review decision and '
               'statuses fetched for the previous head. '
               'The atomicity of those events is no longer assumed: for the control skeleton of WatchedBranch._update / notify_github_changed / '
               'notify_batch_changed / update translated from the source on every run (C30_guard_skeleton_is_source), and for EVERY schedule - any '
               'number of notification tasks created at any time and interleaved in any order at the await points, sub-operations that suspend any '
               'number of times, set any *_changed flag, return or raise - at most one task is inside _update_github / _update_batch / _heal / '
               'try_to_merge and `updating` is True exactly then (C30_guard_mutual_exclusion); a set *_changed flag always has a task that will '
               're-test it, and at quiescence every flag written True (also by a notification that found an update running and returned at once) '
               'has been cleared by a later loop iteration, unless an exception escaped from _update (C30_guard_set_flag_has_server, '
               'C30_guard_no_lost_wakeup, C30_guard_dropped_only_by_exception); and the loop ends within seven segments once the sub-operations '
               'stop setting flags (C30_guard_progress).',
    level_note='Partial: GitHub and the batch service are scripted fakes (GitHub accepts a merge iff the PR is open and its head is the sha '
               'sent; every push creates a commit never seen before; a Fetch sees one consistent GitHub snapshot); "current target commit" '
               'is the one CI last fetched; deploy batches, freezing, authorisation (all authors authorised) and failing checkouts are '
               'not modelled. Guard: proved for the cooperative (asyncio) scheduling model - pre-emption only at awaits, every await of a '
               'sub-operation treated as a suspension point; that the sub-operations only ever SET the *_changed flags and never write `updating`, '
               'and that `_update` is reached only through the three notification methods, is a syntactic check over ci/ci/*.py made by the '
               'translator on every run, not a theorem; the link "one task inside the sub-operations => the real sub-operations behave as the atomic '
               'events of CI/Model.v" is checked by the run (overlapping-notification schedules judged by the merge oracle), not proved; request '
               'handlers that change PR state outside _update (the developer retry endpoint) are not modelled.',
    partial=True,
)
TRUSTED = ['hand model coq/theories/CI/Model.v (tied by the step-by-step correspondence below)',
           'harness/impl/c30_ci.py: fake GitHub REST/GraphQL, fake batch client, fake database, patched check_shell / BuildConfiguration',
           'loader stubs gidgethub, zulip, prometheus_client; /global-config supplied through gear.cloud_config',
           'harness/translate/c30_guard.py (Python ast -> CI.Guard.stmt; the statement semantics of CI/Guard.v: return / raise / finally, '
           'while, if, short-circuit `or` over side-effect-free operands)',
           'harness/impl/c30_guard.py + harness/aio/tickloop.py: gated fakes (a future per fake call) on a hand-stepped CPython asyncio loop; '
           'the model events of a real segment are derived from the entry / exit records of the four wrapped sub-operations']
ASSUMPTIONS = ['one consistent GitHub snapshot per _update_github; pushes create fresh commits; GitHub rejects a merge whose sha is not the head',
               'all PR authors are authorised; the watched branch is mergeable, not deployable, not frozen',
               'REPLACES the former assumption "_update_github, _update_batch, _heal(+try_to_merge) are atomic with respect to each other '
               '(WatchedBranch.updating)", which is now the theorem C30_guard_mutual_exclusion: all notifications of a WatchedBranch run as '
               'coroutines of ONE asyncio event loop (cooperative scheduling: a task loses control only at an await that suspends)',
               'GitHub / batch-service events do not land in the middle of a sub-operation in the sequential model (Model.v); the overlapping-'
               'notification runs do interleave them (world events between segments) and are judged by the merge oracle only']

DEC = {'APPROVED': 'DApproved', 'CHANGES_REQUESTED': 'DChanges', 'REVIEW_REQUIRED': 'DRequired', 'NONE': 'DNone'}
ST = {'SUCCESS': 'SSuccess', 'PENDING': 'SPending', 'FAILURE': 'SFailure'}
HEADER = 'From HailV Require Import Common.Prelude CI.Model.'


def coq_event(ev):
    k = ev[0]
    b = lambda x: 'true' if x else 'false'  # noqa: E731
    if k == 'Open':
        return 'Open'
    if k == 'Push':
        return f'Push {ev[1]}'
    if k == 'Review':
        return f'Review {ev[1]} {DEC[ev[2]]}'
    if k == 'Label':
        return f'Label {ev[1]} (mkLabels {b(ev[2])} {b(ev[3])} {b(ev[4])})'
    if k == 'Status':
        return f'Status {ev[1]} {ev[2]} {ST[ev[3]]}'
    if k == 'TargetMove':
        return 'TargetMove'
    if k == 'BatchComplete':
        return f'BatchComplete {ev[1]} {b(ev[2])}'
    if k == 'Fetch':
        return 'Fetch None' if ev[1] is None else f'Fetch (Some {ev[1]})'
    if k == 'UpdateBatch':
        return 'UpdateBatch'
    if k == 'HealMerge':
        return f'HealMerge {b(ev[1])}'
    raise ValueError(ev)


def sha(s):
    return None if s is None else int(s[3:])


REV = {None: None, 'approved': 'RApproved', 'changes_requested': 'RChanges', 'pending': 'RPending'}
STV = {'success': 'SSuccess', 'pending': 'SPending', 'failure': 'SFailure'}
BLD = {None: None, 'success': 'BuildSuccess', 'failure': 'BuildFailure', 'error': 'BuildError'}
BST = {'running': 'BRunning', 'success': 'BSuccess', 'failure': 'BFailure', 'cancelled': 'BCancelled'}


def canon_impl(o):
    prs = []
    for p in o['prs']:
        prs.append([p['n'], sha(p['src']), REV[p['review']], p['labels'], sorted([c, STV[s]] for c, s in p['statuses']),
                    None if p['batch'] is None else [sha(p['batch'][0]), sha(p['batch'][1])], BLD[p['build']], STV[p['intended']]])
    return {'wb_sha': sha(o['wb_sha']), 'prs': prs, 'target': sha(o['target']),
            'gh': [[n, sha(h), op, sorted([int(c), ST[s]] for c, s in sts)] for n, h, op, sts in o['gh']],
            'batches': sorted([i, int(pr), sha(s), sha(t), BST[st]] for i, pr, s, t, st in o['batches']),
            'n_merges': o['n_merges']}


def unsome(x):
    return x[1] if isinstance(x, tuple) and len(x) == 2 and x[0] == 'Some' else x


def canon_model(v):
    wb, cprs, target, gprs, batches, nm = v
    prs = []
    for c in cprs:
        num, src, rv, (dnm, hp, dnt), sts, batch, bld, intended = c
        b = unsome(batch)
        prs.append([num, src, unsome(rv), [dnm, hp, dnt], sorted([a, s] for a, s in sts), None if b is None else [b[0], b[1]], unsome(bld), intended])
    return {'wb_sha': unsome(wb), 'prs': sorted(prs), 'target': target,
            'gh': sorted([n, h, op, sorted([a, s] for a, s in sts)] for n, h, op, sts in gprs),
            'batches': sorted([i, pr, s, t, st] for i, pr, s, t, st in batches), 'n_merges': nm}


# ---------------------------------------------------------------------------------------------------- histories

SEED_HISTORY = [["Open", 1], ["Open", 2], ["Review", 2, "APPROVED"], ["Status", 2, 1, "SUCCESS"], ["Fetch", None], ["UpdateBatch"],
                ["HealMerge", True], ["BatchComplete", 2, True], ["UpdateBatch"], ["HealMerge", False], ["Push", 2],
                ["Review", 2, "REVIEW_REQUIRED"], ["Fetch", 1], ["UpdateBatch"], ["HealMerge", True], ["BatchComplete", 2, True],
                ["UpdateBatch"], ["HealMerge", True]]


def gen_history(rng, length, max_prs=3):
    """Random history made of rounds: a few GitHub / batch events, then CI actions (often a whole refresh-update-heal cycle),
    biased towards PRs that become mergeable so that the gating conditions are exercised one at a time."""
    evs = [['Open', 1]]
    n_prs = 1
    while len(evs) < length:
        for _ in range(rng.randint(0, 3)):
            r = rng.random()
            n = rng.randint(1, n_prs)
            if n_prs < max_prs and r < 0.08:
                n_prs += 1
                evs.append(['Open', n_prs])
            elif r < 0.18:
                evs.append(['Push', n])
            elif r < 0.42:
                evs.append(['Review', n, rng.choice(['APPROVED'] * 7 + ['CHANGES_REQUESTED', 'REVIEW_REQUIRED', 'NONE'])])
            elif r < 0.50:
                evs.append(['Label', n, rng.random() < 0.25, rng.random() < 0.3, rng.random() < 0.1])
            elif r < 0.62:
                evs.append(['Status', n, rng.choice([1, 1, 2]), rng.choice(['SUCCESS'] * 7 + ['PENDING', 'FAILURE', 'FAILURE'])])
                if rng.random() < 0.06:      # a PR with more checks than one page of the status query
                    evs += [['Status', n, c, 'SUCCESS'] for c in range(3, rng.randint(11, 14))]
                    evs.append(['Status', n, rng.randint(9, 13), rng.choice(['SUCCESS', 'FAILURE', 'PENDING'])])
            elif r < 0.70:
                evs.append(['TargetMove'])
            else:
                evs.append(['BatchComplete', n, rng.random() < 0.7])
        r = rng.random()
        if r < 0.55:
            evs.append(['Fetch', None if rng.random() < 0.7 else rng.randint(0, n_prs)])
            evs.append(['UpdateBatch'])
            evs.append(['HealMerge', True])
        elif r < 0.70:
            evs.append(['UpdateBatch'])
            evs.append(['HealMerge', rng.random() < 0.85])
        elif r < 0.82:
            evs.append(['Fetch', None if rng.random() < 0.5 else rng.randint(0, n_prs)])
        elif r < 0.91:
            evs.append(['HealMerge', rng.random() < 0.85])
        else:
            evs.append(['UpdateBatch'])
    return evs


def small_scope():
    """Hand-enumerated family around the delicate points: head change + failing refresh, target move + rebuild, assert."""
    out = [SEED_HISTORY]
    base = [["Open", 1], ["Review", 1, "APPROVED"], ["Fetch", None], ["UpdateBatch"], ["HealMerge", True], ["BatchComplete", 1, True],
            ["UpdateBatch"], ["HealMerge", True]]
    out.append(base)
    for mid in ([["TargetMove"], ["Fetch", None]], [["Push", 1], ["Fetch", 0]], [["Push", 1], ["Fetch", None]],
                [["Label", 1, True, False, False], ["Fetch", None]], [["Review", 1, "CHANGES_REQUESTED"], ["Fetch", None]],
                [["Status", 1, 1, "FAILURE"], ["Fetch", None]], [["Status", 1, 1, "SUCCESS"], ["Fetch", None]], [["TargetMove"]],
                [["Push", 1]]):
        for tail in ([["HealMerge", True]], [["UpdateBatch"], ["HealMerge", True]],
                     [["UpdateBatch"], ["HealMerge", True], ["BatchComplete", 1, True], ["UpdateBatch"], ["HealMerge", True]],
                     [["HealMerge", True], ["BatchComplete", 1, True], ["UpdateBatch"], ["HealMerge", True], ["Fetch", None], ["HealMerge", True]]):
            out.append(base[:7] + mid + tail)
    two = [["Open", 1], ["Open", 2], ["Review", 1, "APPROVED"], ["Review", 2, "APPROVED"], ["Fetch", None], ["UpdateBatch"], ["HealMerge", True],
           ["BatchComplete", 1, True], ["BatchComplete", 2, True], ["UpdateBatch"], ["HealMerge", True], ["HealMerge", True], ["UpdateBatch"],
           ["HealMerge", True], ["Fetch", None], ["UpdateBatch"], ["HealMerge", True], ["BatchComplete", 2, True], ["UpdateBatch"], ["HealMerge", True]]
    # every gating condition violated on its own: none of these may merge
    pre = [["Open", 1], ["Status", 1, 1, "SUCCESS"]]
    cyc = [["Fetch", None], ["UpdateBatch"], ["HealMerge", True]]
    for gate in ([["Review", 1, "APPROVED"]], [], [["Review", 1, "CHANGES_REQUESTED"]], [["Review", 1, "REVIEW_REQUIRED"]],
                 [["Review", 1, "APPROVED"], ["Label", 1, True, False, False]], [["Review", 1, "APPROVED"], ["Status", 1, 2, "PENDING"]],
                 [["Review", 1, "APPROVED"], ["Status", 1, 2, "FAILURE"]], [["Review", 1, "APPROVED"], ["Label", 1, False, False, True]]):
        for ok in (True, False):
            out.append(pre + gate + cyc + [["BatchComplete", 1, ok]] + cyc + cyc)
            out.append(pre + gate + cyc + [["BatchComplete", 1, ok], ["UpdateBatch"], ["TargetMove"]] + cyc + [["BatchComplete", 1, ok]] + cyc)
            out.append(pre + gate + cyc + [["BatchComplete", 1, ok], ["UpdateBatch"], ["Push", 1], ["Fetch", 0], ["HealMerge", True], ["BatchComplete", 1, ok],
                                           ["UpdateBatch"], ["HealMerge", True]])
    # more status checks than one GraphQL page holds (the query asks for 10 per page): a failing / pending check on a later page
    many = [["Status", 1, c, "SUCCESS"] for c in range(1, 14)]
    for bad_ctx, st in ((11, "FAILURE"), (13, "PENDING"), (12, "FAILURE"), (10, "FAILURE"), (None, None)):
        bad = [["Status", 1, bad_ctx, st]] if bad_ctx else []
        out.append([["Open", 1], ["Review", 1, "APPROVED"]] + many + bad + cyc + [["BatchComplete", 1, True]] + cyc + cyc)
    out.append(two)
    out.append(two[:11] + [["Label", 2, False, True, False], ["Fetch", None]] + two[11:])
    return out


def histories(ctx, n_random, length):
    hs = []
    cdir = os.path.join(VERIF, 'corpus', ID)
    if os.path.isdir(cdir):
        for f in sorted(os.listdir(cdir)):
            if f.endswith('.json'):
                d = json.load(open(os.path.join(cdir, f)))
                h = (d.get('case') or {}).get('history')
                if h:
                    hs.append(h)
    hs += small_scope()
    for _ in range(n_random):
        hs.append(gen_history(ctx.rng, ctx.rng.choice([length // 2, length, length * 2])))
    return hs


def _impl(ctx, hs, mode='steps'):
    return ctx.run_impl('c30_ci.py', {'histories': hs, 'mode': mode}, timeout=600)['results']


def _model_traces(ctx, hs):
    exprs = ['trace_from init [' + '; '.join(coq_event(e) for e in h) + ']' for h in hs]
    return coq_eval(ctx, HEADER, exprs, shard=40, label='trace')


def generate(ctx):
    """T for the re-entrancy guard: control skeleton of _update / notify_* / update -> coq/generated/C30/GuardGen.v (fails closed)."""
    info = c30_guard.generate(ctx)
    ctx.notes.append('guard skeleton translated: %d top-level statements in _update' % len(info['update_body']))


def correspond(ctx):
    hs = histories(ctx, ctx.scale(100, 1500), 30)
    ctx._c30_hs = hs
    impl = _impl(ctx, hs)
    ctx._c30_impl = impl
    model = _model_traces(ctx, hs)
    dis = []
    n_steps = 0
    n_merge_hist = 0
    ev_hist = {}
    err_hist = {}
    for h, ir, mt in zip(hs, impl, model):
        if ir['merges']:
            n_merge_hist += 1
        for i, (ev, io, mo) in enumerate(zip(h, ir['trace'], mt)):
            n_steps += 1
            ev_hist[ev[0]] = ev_hist.get(ev[0], 0) + 1
            if io['error']:
                err_hist[io['error'].split(':')[0]] = err_hist.get(io['error'].split(':')[0], 0) + 1
            a, b = canon_impl(io), canon_model(mo)
            if a != b:
                diff = {k: {'model': b[k], 'impl': a[k]} for k in a if a[k] != b[k]}
                dis.append(Disagreement('state-after-event: real PR/WatchedBranch ~ CI.Model.step', {'history': h[:i + 1], 'event': ev, 'index': i},
                                        {k: v['model'] for k, v in diff.items()}, {**{k: v['impl'] for k, v in diff.items()}, 'error': io['error']}))
                break
    corr = Corr(evaluations=n_steps, distinct_nontrivial=n_merge_hist,
                rule=f'{len(hs)} histories (corpus + hand-enumerated family + seeded random), full observable state compared after every event '
                     f'({n_steps} steps); non-trivial = histories in which the real objects perform at least one merge',
                samples=[{'history': hs[0][:8], 'merges': impl[0]['merges'][:1]}],
                disagreements=dis, histograms={'events': dict(sorted(ev_hist.items())), 'impl_errors': err_hist,
                                               'merges_per_history': _hist([len(r['merges']) for r in impl])},
                names=['state-after-event'])
    corr.merge(_correspond_loop(ctx))
    corr.merge(c30_guard_plug.correspond_guard(ctx))
    return corr


def _hist(xs):
    d = {}
    for x in xs:
        d[str(x)] = d.get(str(x), 0) + 1
    return dict(sorted(d.items()))


def gen_loop_history(rng, length, max_prs=3):
    evs = []
    n_prs = 0
    for _ in range(length):
        r = rng.random()
        if n_prs == 0 or (n_prs < max_prs and r < 0.08):
            n_prs += 1
            evs.append(['Open', n_prs])
            continue
        n = rng.randint(1, n_prs)
        if r < 0.16:
            evs.append(['Push', n])
        elif r < 0.30:
            evs.append(['Review', n, rng.choice(['APPROVED', 'APPROVED', 'CHANGES_REQUESTED', 'NONE'])])
        elif r < 0.34:
            evs.append(['Label', n, rng.random() < 0.3, rng.random() < 0.3, rng.random() < 0.15])
        elif r < 0.42:
            evs.append(['Status', n, 1, rng.choice(['SUCCESS', 'SUCCESS', 'FAILURE'])])
        elif r < 0.47:
            evs.append(['TargetMove'])
        elif r < 0.62:
            evs.append(['BatchComplete', n, rng.random() < 0.8])
        else:
            evs.append(['Notify', rng.choice(['github', 'batch', 'batch', 'all']), None if rng.random() < 0.7 else rng.randint(0, n_prs)])
    return evs


def _correspond_loop(ctx):
    """The real `_update` loop = a sequence of the model's events, with try_to_merge only directly after _heal."""
    hs = [gen_loop_history(ctx.rng, 25) for _ in range(ctx.scale(40, 600))]
    impl = _impl(ctx, hs, 'loop')
    dis = []
    expanded = []
    for h, ir in zip(hs, impl):
        evs = []
        marks = []       # index in evs after which the i-th original event is complete
        bad = None
        for ev, o in zip(h, ir['trace']):
            if ev[0] != 'Notify':
                evs.append(ev)
            else:
                calls = (o.get('extra') or {}).get('calls', [])
                i = 0
                while i < len(calls):
                    c = calls[i]
                    if c == '_update_github':
                        evs.append(['Fetch', ev[2]])
                    elif c == '_update_batch':
                        evs.append(['UpdateBatch'])
                    elif c == '_heal':
                        dm = i + 1 < len(calls) and calls[i + 1] == 'try_to_merge'
                        evs.append(['HealMerge', dm])
                        if dm:
                            i += 1
                    else:
                        bad = calls
                    i += 1
            marks.append(len(evs))
        if bad is not None:
            dis.append(Disagreement('update-loop: try_to_merge only directly after _heal', {'history': h}, 'heal;try_to_merge', bad))
        expanded.append((evs, marks))
    model = _model_traces(ctx, [e for e, _ in expanded])
    n = 0
    for h, ir, (evs, marks), mt in zip(hs, impl, expanded, model):
        for i, (ev, io, mk) in enumerate(zip(h, ir['trace'], marks)):
            n += 1
            if mk == 0:
                continue
            a, b = canon_impl(io), canon_model(mt[mk - 1])
            if a != b:
                diff = {k: {'model': b[k], 'impl': a[k]} for k in a if a[k] != b[k]}
                dis.append(Disagreement('update-loop: real WatchedBranch._update ~ composition of model events',
                                        {'history': h[:i + 1], 'decomposed': evs[:mk]}, {k: v['model'] for k, v in diff.items()},
                                        {**{k: v['impl'] for k, v in diff.items()}, 'error': io['error'], 'extra': io.get('extra')}))
                break
    return Corr(evaluations=n, distinct_nontrivial=sum(1 for r in impl if r['merges']),
                rule=f'{len(hs)} histories whose CI actions are the real notify_github_changed / notify_batch_changed / update; sub-steps recorded and replayed on the model',
                disagreements=dis, names=['update-loop'])


# ---------------------------------------------------------------------------------------------------- oracle

def check_merges(merges):
    """Property on the implementation: list of (key, detail) for the merges of one history."""
    bad = []
    seen_targets = []
    for m in merges:
        v = []
        if m['review_state'] != 'approved':
            v.append('not-approved')
        elif m['review_for'] != m['sha']:
            v.append('review-of-previous-head')
        if 'WIP' in m['labels'] or 'stacked PR' in m['labels']:
            v.append('do-not-merge-label')
        if not m['statuses']:
            v.append('no-status')
        if any(s != 'success' for s, _ in m['statuses'].values()):
            v.append('status-not-success')
        if any(f != m['sha'] for _, f in m['statuses'].values()):
            v.append('status-of-previous-head')
        if any(st != 'SUCCESS' for st in (m.get('unseen_statuses') or {}).values()):
            v.append('unrecorded-status-not-success')
        b = m['batch']
        if b is None or b['source_sha'] != m['sha']:
            v.append('no-batch-for-head')
        else:
            if b['target_sha'] != m['ci_target_sha'] or m['ci_target_sha'] is None:
                v.append('batch-against-old-target')
            if b['state'] != 'success':
                v.append('batch-not-success')
        if m['github_head'] != m['sha']:
            v.append('head-moved')
        if m['ci_target_sha'] in seen_targets:
            v.append('second-merge-for-same-target')
        seen_targets.append(m['ci_target_sha'])
        if v:
            bad.append(('+'.join(v), m))
    return bad


def oracle(ctx, budget):
    hs = getattr(ctx, '_c30_hs', None)
    impl = getattr(ctx, '_c30_impl', None)
    if hs is None or budget > 1:
        hs = histories(ctx, ctx.scale(100, 1500) * budget, 30)
        impl = _impl(ctx, hs)
    # implementation-only histories with a push that lands between CI's last look at GitHub and its merge request (GitHub refuses the
    # merge because the `sha` CI sends no longer matches the head); these have no model counterpart and are judged by check_merges alone
    racing = []
    for h in (hs[:400] if budget <= 1 else hs):
        idx = [i for i, e in enumerate(h) if e[0] == 'HealMerge' and e[1]]
        if idx:
            i = idx[ctx.rng.randrange(len(idx))]
            prs = sorted({e[1] for e in h[:i] if e[0] == 'Open'})
            if prs:
                racing.append(h[:i] + [['RacingPush', ctx.rng.choice(prs)]] + h[i:])
    if racing:
        hs = list(hs) + racing
        impl = list(impl) + _impl(ctx, racing)
    n_merges = 0
    shortest = {}
    for h, ir in zip(hs, impl):
        n_merges += len(ir['merges'])
        for key, m in check_merges(ir['merges']):
            if key not in shortest or len(h) < len(shortest[key][0]):
                shortest[key] = (h, m)
    fails = []
    for key, (h, m) in sorted(shortest.items()):
        h2, m2 = _shrink(ctx, h, key, m)
        fails.append(Failure(key, f'CI merged PR {m2["pr"]} at {m2["sha"]} with: {key}', {'history': h2},
                             'every merge: approved for this head, no DNM label, statuses non-empty / all success / for this head, '
                             'batch for this head against the current target and successful; one merge per target commit', m2))
    gfails, gstats = c30_guard_plug.oracle_guard(ctx, budget, check_merges)
    fails += gfails
    return fails, {'evaluations': len(hs) + gstats['evaluations'], 'distinct_nontrivial': n_merges + gstats['distinct_nontrivial'],
                   'rule': 'oracle: histories run on the real objects; non-trivial = merges performed and checked against the recorded provenance; '
                           'plus schedules of overlapping notifications on the real _update (never two tasks inside its sub-operations; merges checked '
                           'the same way); non-trivial = schedules with at least two notification tasks',
                   'histograms': {'oracle_merges': n_merges, 'oracle_merges_under_overlap': gstats['merges']}}


def _shrink(ctx, h, key, m):
    """Greedy one-event removal keeping the same violation class; one subprocess per round."""
    cur, cur_m = list(h), m
    for _ in range(len(h)):
        cands = []
        for i in range(len(cur)):
            cand = cur[:i] + cur[i + 1:]
            opens = [e[1] for e in cand if e[0] == 'Open']
            if opens == list(range(1, len(opens) + 1)):
                cands.append(cand)
        if not cands:
            break
        try:
            res = _impl(ctx, cands)
        except Exception:  # noqa
            break
        nxt = None
        for cand, r in zip(cands, res):
            hit = [mm for k, mm in check_merges(r['merges']) if k == key]
            if hit:
                nxt = (cand, hit[0])
                break
        if nxt is None:
            break
        cur, cur_m = nxt
    return cur, cur_m


def replay(ctx, doc):
    case = doc.get('case') or doc
    if 'schedule' in case:
        return c30_guard_plug.replay_guard(ctx, case, check_merges)
    h = case['history']
    r = _impl(ctx, [h])[0]
    return {'history': h, 'merges': r['merges'], 'violations': [[k, m] for k, m in check_merges(r['merges'])],
            'final_state': r['trace'][-1] if r['trace'] else None}
