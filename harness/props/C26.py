"""C26 — TimeLimitedMaxSizeCache is bounded, fresh, single-flight and fails a lookup only for its own reasons
(gear/gear/time_limited_max_size_cache.py, used by gear/gear/auth.py and gear/gear/k8s_cache.py).

Tie: X (schedules).  coq/theories/Cache/Model.v is a hand-written step model (one constructor per harness action,
`step : config -> state -> action -> state * list event`); Lemmas.v proves the four properties for ALL action lists by
invariant induction.  The correspondence runs the REAL class on the deterministic asyncio loop (harness/aio/detloop.py,
virtual clock) and the model (vm_compute) on the same schedules - an exhaustive small scope plus seeded random schedules -
and compares what is observable after every action: the status of every caller, the cache content in eviction order with
expiry times, the keys with a load in flight, the calls of the load function and the clock.

The model has a `shield` switch.  `shield = false` is the code before fixes/C26.diff (committed to /repo as 2caecb82a; lookups await
the shared load task directly, so asyncio's rule "cancelling a task cancels the future it awaits" kills the load and fails
every other lookup waiting for it: theorem C26_unshielded_refuted).  `shield = true` is the code after fixes/C26.diff, which
is what the property theorems and this check target.
"""
import glob
import json
import os

from harness.core import Corr, Disagreement, Failure, coq_eval, listlit, zlit

ID = 'C26'
SRC = 'gear/gear/time_limited_max_size_cache.py'
COQ_PROPS = 'theories/Cache/Props_C26.v'
READY = True
META = dict(
    design_ref='§5.C C26, §6',
    technique='Coq proof (invariant induction over all schedules) about a hand-written step model; model tied to the real class by a '
              'differential run on a deterministic asyncio loop with a virtual clock (exhaustive small scope + seeded random schedules)',
    level_text='Machine-checked theorems (Coq 8.16, closed under the global context) over ALL lists of harness actions (lookup k / load of k '
               'returns / load of k raises e / cancel caller c / advance clock) and all capacities and lifetimes > 0: the cache never holds '
               'more than num_slots entries; every value a lookup returns was produced by a load of the key that lookup asked for and is '
               'younger than the lifetime; at no time are two loads of one key running and a lookup starts a load only when none is in flight '
               'and no fresh entry exists; a lookup raises an error only when the load it waited for raised that error and raises '
               'CancelledError only when it was itself cancelled; a waiting lookup is always attached to a running load. The theorems are about '
               'the code after fixes/C26.diff (shared load awaited through asyncio.shield); for the code without the shield the model proves '
               'the refutation (cancelling one lookup cancels the shared load and every other waiter).',
    level_note='Modelled, not verified: the granularity "one harness action, then the event loop runs until idle" (no interleaving inside a '
               'settle), the load function as an opaque coroutine completed by the harness, CPython asyncio task/shield/cancel semantics as '
               'encoded in the step function. The tie between model and class is a test (differential run), not a proof. shutdown() is not modelled. '
               'Trusted: DetLoop (private CPython 3.12 loop attributes), the prometheus_async.aio.time shim (awaits the awaitable it is given, as '
               'the real helper does), the prometheus_client stub (counters are no-ops).',
    partial=True,
)
TRUSTED = ['harness/aio/detloop.py (deterministic stepping of a real asyncio loop, virtual clock, time.monotonic_ns patched)',
           'loader shim prometheus_async.aio.time (awaits the given awaitable; same cancellation propagation as the real helper)',
           'loader stub prometheus_client (metrics are no-ops)',
           'CPython 3.12 asyncio (Task.cancel, shield, Future callbacks FIFO) and sortedcontainers.SortedSet as the semantics of the implementation']
ASSUMPTIONS = ['a step is one harness action followed by running the event loop until no callback is ready',
               'the load function is an opaque coroutine that finishes only when the schedule says so (returns a fresh value or raises ErrA/ErrB); '
               'it does not raise CancelledError by itself',
               'clock steps are whole seconds so that nanosecond arithmetic is exact',
               'shutdown() / _shutting_down is outside the property and not exercised']

ERRN = ['ErrA', 'ErrB']


# ------------------------------------------------------------------------------------------------ schedules

def _enumerate(keys, maxlen, dts):
    """All schedules up to maxlen, pruned by bookkeeping that does not need a model: D/F k only after a lookup of k that no
    D/F k has followed yet; C c only for an existing caller, at most once per caller; no two Advance in a row."""
    out = []

    def rec(prefix, nlook, maybe_inflight, cancelled):
        if prefix:
            out.append(list(prefix))
        if len(prefix) == maxlen:
            return
        for k in keys:
            rec(prefix + [['L', k]], nlook + 1, maybe_inflight | {k}, cancelled)
            if k in maybe_inflight:
                rec(prefix + [['D', k]], nlook, maybe_inflight - {k}, cancelled)
                rec(prefix + [['F', k, k % 2]], nlook, maybe_inflight - {k}, cancelled)
        for c in range(nlook):
            if c not in cancelled:
                rec(prefix + [['C', c]], nlook, maybe_inflight, cancelled | {c})
        if prefix and prefix[-1][0] != 'A':
            for d in dts:
                rec(prefix + [['A', d]], nlook, maybe_inflight, cancelled)

    rec([], 0, frozenset(), frozenset())
    return out


def _random_schedule(rng, keys, n, dts):
    acts = []
    nlook = 0
    for _ in range(n):
        r = rng.random()
        if r < 0.35 or nlook == 0:
            acts.append(['L', rng.choice(keys)])
            nlook += 1
        elif r < 0.60:
            acts.append(['D', rng.choice(keys)])
        elif r < 0.70:
            acts.append(['F', rng.choice(keys), rng.randint(0, 1)])
        elif r < 0.85:
            acts.append(['C', rng.randrange(nlook + 1)])     # sometimes a caller that does not exist yet
        else:
            acts.append(['A', rng.choice(dts)])
    return acts


def _corpus_cases():
    out = []
    for p in sorted(glob.glob(os.path.join(os.path.dirname(__file__), '..', '..', 'corpus', ID, '*.json'))):
        doc = json.load(open(p))
        out.append(doc['case'] if 'case' in doc else doc)
    return out


def _cases(ctx, budget=1):
    cases = _corpus_cases()
    n_corpus = len(cases)
    for acts in _enumerate([0, 1], ctx.scale(4, 6), [1, 2]):
        cases.append({'slots': 1, 'life': 2, 'acts': acts})
    for acts in _enumerate([0, 1, 2], ctx.scale(4, 5), [2]):
        cases.append({'slots': 2, 'life': 2, 'acts': acts})
    n_exh = len(cases) - n_corpus
    rng = ctx.rng
    for _ in range(ctx.scale(300, 6000) * budget):
        slots = rng.choice([1, 2, 3])
        keys = list(range(rng.choice([2, 3, 4, 5])))
        cases.append({'slots': slots, 'life': rng.choice([1, 2, 3, 5]),
                      'acts': _random_schedule(rng, keys, rng.randint(4, 24), [1, 2, 3])})
    return cases, n_corpus, n_exh


# ------------------------------------------------------------------------------------------------ model side

HEADER = ('From HailV Require Import Common.Prelude Cache.Model.\nOpen Scope Z_scope.\n')


def _act_lit(a):
    if a[0] == 'L':
        return f'Lookup {zlit(a[1])}'
    if a[0] == 'D':
        return f'LoadDone {zlit(a[1])}'
    if a[0] == 'F':
        return f'LoadFail {zlit(a[1])} {zlit(a[2])}'
    if a[0] == 'C':
        return f'Cancel {a[1]}%nat'
    if a[0] == 'A':
        return f'Advance {zlit(a[1])}'
    raise ValueError(a)


def _model_expr(case, shield=True):
    cf = f'{{| slots := {zlit(case["slots"])}; life := {zlit(case["life"])}; shield := {"true" if shield else "false"} |}}'
    return f'observe {cf} init {listlit([_act_lit(a) for a in case["acts"]])}'


def _fold_model(case, val):
    """Turn the model's per-action (events, state) into the observation format of harness/impl/c26_cache.py."""
    callers = []
    starts = []
    out = []
    for a, (events, (cache, inflight, now, nloads)) in zip(case['acts'], val):
        if a[0] == 'L':
            callers.append('P')
        for ev in events:
            tag = ev[0] if isinstance(ev, tuple) else ev
            if tag == 'EvStart':
                starts.append([ev[1], ev[2]])
            elif tag == 'EvReturn':
                callers[ev[1]] = ['V', ev[2]]
            elif tag == 'EvFail':
                callers[ev[1]] = ['E', ERRN[ev[2]]]
            elif tag == 'EvCancelled':
                callers[ev[1]] = 'X'
        out.append({'callers': [c if isinstance(c, str) else list(c) for c in callers],
                    'cache': [list(e) for e in cache], 'inflight': list(inflight),
                    'starts': [list(s) for s in starts], 'now': now, 'nloads': nloads})
    return out


def _run_model(ctx, cases, shield=True, label='model'):
    vals = coq_eval(ctx, HEADER, [_model_expr(c, shield) for c in cases], shard=max(150, -(-len(cases) // 8)), label=label)
    return [_fold_model(c, v) for c, v in zip(cases, vals)]


def _run_impl(ctx, cases):
    res = ctx.run_impl('c26_cache.py', {'cases': cases}, timeout=900)['results']
    for r in res:
        if isinstance(r, dict) and 'harness_error' in r:
            raise RuntimeError('c26_cache.py harness error: ' + r['harness_error'])
    return res


CMP_FIELDS = ['callers', 'cache', 'inflight', 'starts', 'now']


def _first_diff(model, impl):
    for i, (m, o) in enumerate(zip(model, impl)):
        for f in CMP_FIELDS:
            if m[f] != o[f]:
                return i, f, m[f], o[f]
    return None


def correspond(ctx):
    cases, n_corpus, n_exh = _cases(ctx)
    impl = _run_impl(ctx, cases)
    model = _run_model(ctx, cases)
    dis = []
    kinds = {}
    distinct = set()
    nontrivial = 0
    for c, m, o in zip(cases, model, impl):
        key = json.dumps(c, sort_keys=True)
        if key not in distinct:
            distinct.add(key)
            last = o[-1] if o else {}
            # non-trivial: at least two lookups shared one load, or an entry was evicted/expired, or a caller was cancelled while waiting
            shared = len(last.get('callers', [])) > len(last.get('starts', []))
            if shared or any(x == 'X' for x in last.get('callers', [])) or len(last.get('starts', [])) > c['slots']:
                nontrivial += 1
        for a in c['acts']:
            kinds[a[0]] = kinds.get(a[0], 0) + 1
        d = _first_diff(m, o)
        if d is not None:
            i, f, mv, ov = d
            dis.append(Disagreement('Cache.Model.step(shield=true)~TimeLimitedMaxSizeCache', {'case': c, 'action_index': i, 'field': f},
                                    mv, ov))
    dis.sort(key=lambda d: len(d.case['case']['acts']))
    return Corr(evaluations=len(cases), distinct_nontrivial=nontrivial,
                rule='schedule = (num_slots, lifetime, action list); corpus, then every schedule of the pruned small scope (2 keys/1 slot to length '
                     f'{ctx.scale(4, 6)}, 3 keys/2 slots to length {ctx.scale(4, 5)}), then seeded random schedules of 4..24 actions over 2..5 keys, 1..3 slots; '
                     'non-trivial = a load was shared by several lookups, or a lookup ended cancelled, or more loads than slots were started; '
                     'after EVERY action the caller statuses, cache (eviction order, values, expiry), in-flight keys, load calls and clock are compared',
                samples=[{'case': c, 'final': o[-1]} for c, o in list(zip(cases, impl))[-3:]],
                disagreements=dis, histograms={'actions': kinds, 'corpus': n_corpus, 'exhaustive_small_scope': n_exh,
                                               'random': len(cases) - n_corpus - n_exh},
                exhaustive=False, names=['Cache.Model.step(shield=true)~TimeLimitedMaxSizeCache'])


# ------------------------------------------------------------------------------------------------ oracle (implementation only)

def _check_case(case, obs):
    """The statement of C26 evaluated on what the REAL class did under one schedule.  Returns [(key, what, detail)]."""
    bad = []
    acts = case['acts']
    life, slots = case['life'], case['slots']
    lookup_key = [a[1] for a in acts if a[0] == 'L']
    prev_callers = []
    prev_starts = []
    load_key = {}
    for i, (a, o) in enumerate(zip(acts, obs)):
        callers, starts, now = o['callers'], o['starts'], o['now']
        for k, lid in starts[len(prev_starts):]:
            load_key[lid] = k
        # bounded
        if len(o['cache']) > slots or not o['coherent']:
            bad.append(('bounded', f'cache holds {len(o["cache"])} entries with num_slots={slots} (or its maps disagree)', {'action_index': i, 'cache': o['cache']}))
        # single flight
        if o['peak'] > 1:
            bad.append(('single-flight', 'two loads of one key were running at the same time', {'action_index': i, 'starts': starts}))
        if len(starts) > len(prev_starts):
            if a[0] != 'L' or len(starts) > len(prev_starts) + 1 or starts[-1][0] != a[1]:
                bad.append(('single-flight', 'a load was started by something else than a lookup of its key', {'action_index': i, 'starts': starts}))
        done_at = {lid: t for lid, t in o['produced']}
        for c, st in enumerate(callers):
            before = prev_callers[c] if c < len(prev_callers) else 'P'
            if st == before:
                continue
            if before != 'P':
                bad.append(('status-changed', f'caller {c} changed from {before} to {st}', {'action_index': i}))
                continue
            k = lookup_key[c]
            if isinstance(st, list) and st[0] == 'V':
                v = st[1]
                if load_key.get(v) != k:
                    bad.append(('wrong-value', f'caller {c} asked for key {k} and got the value of load {v} (key {load_key.get(v)})', {'action_index': i}))
                elif v not in done_at or not (done_at[v] <= now <= done_at[v] + life):     # 'older than its lifetime' = age > lifetime
                    bad.append(('stale', f'caller {c} got value {v} produced at {done_at.get(v)} at time {now}, lifetime {life}', {'action_index': i}))
            elif isinstance(st, list) and st[0] == 'E':
                own = a[0] == 'F' and a[1] == k and ERRN[a[2]] == st[1]
                if not own:
                    bad.append(('failed-not-own:' + st[1], f'caller {c} (key {k}) raised {st[1]} although the action was {a}', {'action_index': i}))
            elif st == 'X':
                if not (a[0] == 'C' and a[1] == c):
                    who = 'leader' if a[0] == 'C' and _is_leader(acts, obs, a[1]) else ('follower' if a[0] == 'C' else 'none')
                    bad.append((f'cancelled-not-own:{who}-cancelled',
                                f'caller {c} (key {k}) got CancelledError although it was not cancelled (action {a})', {'action_index': i}))
        prev_callers, prev_starts = callers, starts
    return bad


def _is_leader(acts, obs, c):
    """Was caller c the one whose lookup started a load?"""
    n = -1
    prev = 0
    for a, o in zip(acts, obs):
        if a[0] == 'L':
            n += 1
            if n == c:
                return len(o['starts']) > prev
        prev = len(o['starts'])
    return False


def oracle(ctx, budget):
    cases, n_corpus, n_exh = _cases(ctx, budget)
    impl = _run_impl(ctx, cases)
    fails = []
    seen = {}
    for c, o in zip(cases, impl):
        for key, what, detail in _check_case(c, o):
            old = seen.get(key)
            if old is None or len(c['acts']) < len(old.case['acts']):
                seen[key] = Failure(key, what, c, expected='C26 statement holds after every action', observed=detail)
    fails = list(seen.values())
    return fails, {'evaluations': len(cases),
                   'distinct_nontrivial': len({json.dumps(c, sort_keys=True) for c in cases if sum(1 for a in c['acts'] if a[0] == 'L') >= 2}),
                   'rule': 'oracle: bounded / right key / fresh / single-flight / failure-only-own evaluated on the observations of the real class '
                           '(no model); non-trivial = at least two lookups'}


def replay(ctx, doc):
    case = doc['case']
    if 'case' in case and 'acts' not in case:
        case = case['case']
    impl = _run_impl(ctx, [case])[0]
    out = {'case': case, 'impl': impl, 'oracle': [list(x) for x in _check_case(case, impl)]}
    try:
        out['model_shield_true'] = _run_model(ctx, [case], True, 'rp1')[0]
        out['model_shield_false'] = _run_model(ctx, [case], False, 'rp2')[0]
        out['first_difference_from_fixed_model'] = _first_diff(out['model_shield_true'], impl)
    except Exception as e:  # the model may not build while a proof is broken
        out['model_error'] = str(e)[-500:]
    return out
