"""C08 — accepted job graphs can always finish (batch database family)."""
from harness.batchdb import family

ID = 'C08'
COQ_PROPS = 'theories/BatchDB/Props_C08.v'
READY = True
META = dict(
    design_ref='§5.A C08',
    technique='Coq invariant proof (DInv, incl. a pigeonhole argument at commit) over all histories of an executable model of the batch '
              'database + correspondence of the model (validation included) with the real front-end handlers and SQL on a MySQL-subset interpreter',
    level_text='Machine-checked theorems over EVERY good history: every dependency of a job of a committed update names an existing job of a '
               'committed update with a smaller id; every job id lies in the range reserved by its update; a Pending committed job always '
               'waits for a live committed parent with a smaller id, so the least non-terminal job is never Pending (no deadlock: the batch '
               'completes once jobs finish); a bunch with a self/later/missing dependency, a dependency in an uncommitted earlier update or an '
               'id outside the reserved range is rejected, and every rejected bunch leaves the database unchanged. The validation the theorems '
               'rely on is the one added by the fix commit 658457514; the model mirrors it and is compared with the real handler (corpus/C08 '
               'holds the formerly accepted bad graphs).',
    level_note='Trusted: Coq kernel; minisql; runner substitutions; the job-spec schema validation is taken from the real validate_and_clean_jobs '
               'run by the runner (the model assumes schema-valid specs: contiguous ids, integer fields). Liveness of the real driver loops is C39.',
    partial=False,
)
TRUSTED = family.COMMON_TRUSTED
ASSUMPTIONS = family.COMMON_ASSUMPTIONS
correspond = family.correspond
oracle = family.oracle_for(ID)
replay = family.replay
