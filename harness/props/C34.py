"""C34 — genotype call packing agrees with the engine.

Anchors: hail/python/hail/expr/types.py (_tcall._convert_to_encoding/_convert_from_encoding, allele_pair, allele_pair_sqrt,
small_allele_pair), hail/python/hail/genetics/call.py (Call.__init__, unphased_diploid_gt_index),
hail/hail/src/is/hail/variant/Call.scala (Call, Call0, Call1, Call2), Genotype.scala (AllelePair, Genotype).

Tie: T on both sides. The Scala `def`s (arithmetic one-liners and small blocks) are re-parsed from the current source text and
translated to Gallina with explicit 32-bit wrap-around and exceptions as `None`; the Python functions are translated from their
AST. Both land in coq/generated/C34/Gen.v; CallPacking/LemmasScala.v and LemmasPy.v prove that every generated function meets its
arithmetic specification on the engine's range (so a semantic edit of a source breaks a lemma) and Lemmas.v derives the property theorems. The Python half is additionally run (real hail.expr.types.tcall under the loader)
against the generated definitions as a smoke test; the Scala half cannot be executed here (no Scala toolchain): it is
MODELLED from its source text, never run.
"""
import ast
import os

from harness.core import Corr, Disagreement, Failure, TieBroken, coq_eval, listlit, zlit
from harness.translate.c34_monadic import PyFront, PyUnsupported, ScalaFront
from harness.translate.pyast import find_function

ID = 'C34'
SRC_TYPES = 'hail/python/hail/expr/types.py'
SRC_CALL = 'hail/python/hail/genetics/call.py'
SRC_SCALA_CALL = 'hail/hail/src/is/hail/variant/Call.scala'
SRC_SCALA_GT = 'hail/hail/src/is/hail/variant/Genotype.scala'
SRC_RICHBOOL = 'hail/hail/utils/src/is/hail/utils/implicits/RichBoolean.scala'
COQ_PROPS = 'theories/CallPacking/Props_C34.v'
READY = True
META = dict(
    design_ref='§5.F C34',
    technique='Coq proofs about Gallina definitions regenerated on every run from the Scala source text (fail-closed expression '
              'translator with explicit 32-bit wrap-around) and from the Python AST; integer square root via Z.sqrt',
    level_text='Machine-checked (Coq 8.16, closed under the global context), about definitions regenerated on every run from the current '
               'sources: for EVERY call with ploidy 0-2, alleles >= 0 (unphased diploid normalised as hail.genetics.Call does) and allele '
               'representation < 2^29 (the engine\'s bound; diploid representation k(k+1)/2 + j with k = a0 + a1 when phased): '
               '_tcall._convert_to_encoding produces exactly the int32 word that Call0/Call1/Call2.apply produce (bits phased | ploidy<<1 | '
               'repr<<3, with 32-bit wrap-around made explicit); _convert_from_encoding and the engine accessors (ploidy, isPhased, alleleRepr, '
               'allelePair, AllelePair.j/k) recover the call from that word; Genotype.diploidGtIndex / allelePair (cached table and sqrt branch) '
               'and their Python counterparts are mutually inverse bijections between indices below 2^29 and pairs j <= k, strictly monotone '
               'for the VCF order k(k+1)/2 + j.',
    level_note='Partial: the Scala sources are MODELLED from their text by my translator and never executed (no Scala toolchain); the two '
               '`match` dispatches CallN.apply and Call.alleles are hand-modelled; the model\'s 32-bit primitives are validated against the JVM '
               '(java) on operand pairs. The float sqrt step of both implementations is replaced by exact integer square root: checked against the '
               'Python floats (all triangular boundaries in quick, every index below 2^29 in thorough), assumed for the JVM. Beyond the bound both '
               'sides misbehave silently (Python: Call([2^29]) encodes as Call([0]); engine model: Call2(0, 65536) wraps) - outside the statement.',
    partial=True,
)
TRUSTED = ['harness/translate/c34_monadic.py: Scala def-body parser/translator (Int = 32-bit two\'s complement, exceptions = None, '
           'Scala operator precedence by first character) and Python AST translator (unbounded ints)',
           'coq/theories/CallPacking/Model.v: the primitive operations the translators target (wrap32, i_shl/i_ushr..., py_get, write_int32)']
ASSUMPTIONS = ['(Math.sqrt(8*i.toDouble+1)/2-0.5).toInt and int(math.sqrt(8*float(i)+1)/2-0.5) equal (isqrt(8i+1)-1) div 2 for 0 <= i < 2^29 '
               '(validated against the Python floats by the harness - boundaries in quick, every i in thorough; assumed for the JVM)',
               'the Scala sources are modelled from their text, not executed (no Scala toolchain in the sandbox)']

SCALA_DEFS = [   # (object, def, arity) in dependency order
    ('AllelePair', 'apply', 2), ('AllelePair', 'j', 1), ('AllelePair', 'k', 1),
    ('Genotype', 'diploidGtIndex', 2), ('Genotype', 'diploidGtIndexWithSwap', 2),
    ('Genotype', '@smallAllelePair', 0), ('Genotype', 'allelePairSqrt', 1), ('Genotype', 'allelePair', 1),
    ('Call', 'apply', 4), ('Call', 'isPhased', 1), ('Call', 'ploidy', 1), ('Call', 'isDiploid', 1), ('Call', 'alleleRepr', 1),
    ('Call', 'allelePairUnchecked', 1), ('Call', 'allelePair', 1), ('Call', 'unphasedDiploidGtIndex', 1),
    ('Call0', 'apply', 1), ('Call1', 'apply', 2), ('Call2', 'fromUnphasedDiploidGtIndex', 1), ('Call2', 'apply', 3),
]

PY_ATTRS = {'ploidy': ('call_ploidy', 'call', 'int'), 'phased': ('call_phased', 'call', 'bool'), 'alleles': ('call_alleles', 'call', 'list'),
            '_alleles': ('call_alleles', 'call', 'list'), '_phased': ('call_phased', 'call', 'bool')}
ANNOT = {'int': 'int', 'bool': 'bool', 'genetics.Call': 'call'}


class _Py(PyFront):
    def function(self, fn, outer_env, nested=False, param_types=None, skip_params=(), fallthrough=None):
        pt = dict(param_types or {})
        for a in fn.args.args:
            if a.annotation is not None and a.arg not in pt:
                t = ANNOT.get(ast.unparse(a.annotation))
                if t is None:
                    raise PyUnsupported(fn, f'annotation {ast.unparse(a.annotation)}')
                pt[a.arg] = t
        return super().function(fn, outer_env, nested, pt, skip_params, fallthrough)


def _gen_scala(ctx):
    gt = ctx.read_repo(SRC_SCALA_GT)
    call = ctx.read_repo(SRC_SCALA_CALL)
    rb = ctx.read_repo(SRC_RICHBOOL)
    if 'def toInt: Int = if (b) 1 else 0' not in rb:
        raise TieBroken('scala-translator', 'RichBoolean.toInt is no longer `if (b) 1 else 0`')
    if 'type Call = Int' not in ctx.read_repo('hail/hail/src/is/hail/variant/package.scala'):
        raise TieBroken('scala-translator', '`type Call = Int` not found in is/hail/variant/package.scala')
    f = ScalaFront(gt + '\n' + call, 'is/hail/variant/{Genotype,Call}.scala')
    out = []
    for obj, name, ar in SCALA_DEFS:
        if name.startswith('@'):
            out.append(f.translate_array_val(obj, name[1:], f'{obj}_{name[1:]}'))
        else:
            out.append(f.translate_def(obj, name, ar, f'{obj}_{name}'))
    return '\n\n'.join(out)


def _gen_python(ctx):
    src = ctx.read_repo(SRC_TYPES)
    csrc = ctx.read_repo(SRC_CALL)
    pf = _Py(attrs=PY_ATTRS)
    out = []

    def top(fn, coq_name, key, extra_binder='', **kw):
        (binder, body), ptys, rty = pf.function(fn, kw.pop('outer_env', {}), **kw)
        if key:
            pf.funcs[key] = (coq_name, ptys, rty)
        out.append(f'Definition {coq_name} {extra_binder}{binder} : option {pf.coq_ty(rty)} :=\n{body}.')
        return ptys, rty

    top(find_function(src, 'allele_pair'), 'allele_pair', 'allele_pair')
    top(find_function(src, 'allele_pair_sqrt'), 'allele_pair_sqrt', 'allele_pair_sqrt')
    # the table  small_allele_pair = [allele_pair(0, 0), ...]
    tree = ast.parse(src)
    tab = [s for s in tree.body if isinstance(s, ast.Assign) and len(s.targets) == 1 and isinstance(s.targets[0], ast.Name)
           and s.targets[0].id == 'small_allele_pair']
    if len(tab) != 1 or not isinstance(tab[0].value, ast.List):
        raise TieBroken('py-translator', 'small_allele_pair is no longer a list literal')
    elems = []
    for e in tab[0].value.elts:
        v, t = pf.expr(e, {})
        if t != 'int':
            raise PyUnsupported(e, 'table element')
        elems.append(v)
    out.append('Definition small_allele_pair_opt : list (option Z) :=\n  [' + ';\n   '.join(elems) + '].\n'
               'Definition small_allele_pair : list Z := somes small_allele_pair_opt.')
    pf.consts['small_allele_pair'] = ('(ret small_allele_pair)', 'list')
    # hail.genetics.Call.__init__  ->  (alleles, phased) after normalisation
    init = find_function(csrc, 'Call.__init__')
    if [a.arg for a in init.args.args] != ['self', 'alleles', 'phased']:
        raise TieBroken('py-translator', 'Call.__init__ parameters changed')
    top(init, 'Call_init', None, skip_params=('self',), param_types={'alleles': 'list', 'phased': 'bool'},
        fallthrough=lambda env: ('(ret (self__alleles, self__phased))', 'call')
        if env.get('self__alleles') == 'list' and env.get('self__phased') == 'bool' else (_ for _ in ()).throw(
            TieBroken('py-translator', 'Call.__init__ does not set _alleles/_phased on every path')))
    # the properties of Call must still be plain field reads
    for prop, body in (('alleles', 'return self._alleles'), ('phased', 'return self._phased'), ('ploidy', 'return len(self._alleles)')):
        p = find_function(csrc, f'Call.{prop}')
        stm = [s for s in p.body if not (isinstance(s, ast.Expr) and isinstance(s.value, ast.Constant))]
        if len(stm) != 1 or ast.unparse(stm[0]) != body:
            raise TieBroken('py-translator', f'Call.{prop} is no longer `{body}`')
    pf.special_calls['genetics.Call'] = lambda self, n, env: _call_ctor(self, n, env)
    pf.special_calls['byte_reader.read_int32'] = lambda self, n, env: ('(ret read_int32)', 'int') if not n.args else (_ for _ in ()).throw(PyUnsupported(n))
    pf.special_calls['byte_writer.write_int32'] = lambda self, n, env: _write(self, n, env)
    dec = find_function(src, '_tcall._convert_from_encoding')
    if [a.arg for a in dec.args.args] != ['self', 'byte_reader', '_should_freeze']:
        raise TieBroken('py-translator', '_convert_from_encoding parameters changed')
    top(dec, 'convert_from_encoding', None, extra_binder='(read_int32 : Z)', skip_params=('self', 'byte_reader', '_should_freeze'),
        outer_env={'read_int32': 'int'})
    enc = find_function(src, '_tcall._convert_to_encoding')
    if [a.arg for a in enc.args.args] != ['self', 'byte_writer', 'value']:
        raise TieBroken('py-translator', '_convert_to_encoding parameters changed')
    top(enc, 'convert_to_encoding', None, skip_params=('self', 'byte_writer'), param_types={'value': 'call'})
    gi = find_function(csrc, 'Call.unphased_diploid_gt_index')
    pf.true_div_exact = True
    top(gi, 'unphased_diploid_gt_index', None, param_types={'self': 'call'})
    pf.true_div_exact = False
    return '\n\n'.join(out)


def _call_ctor(pf, n, env):
    if n.keywords or len(n.args) != 2:
        raise PyUnsupported(n, 'Call(...) form')
    a, ta = pf.expr(n.args[0], env)
    b, tb = pf.expr(n.args[1], env)
    if ta != 'list' or tb != 'bool':
        raise PyUnsupported(n, f'Call({ta}, {tb})')
    return f'(call2 Call_init {a} {b})', 'call'


def _write(pf, n, env):
    if n.keywords or len(n.args) != 1:
        raise PyUnsupported(n)
    v, t = pf.expr(n.args[0], env)
    if t != 'int':
        raise PyUnsupported(n)
    return f'(call1 write_int32 {v})', 'int'


def generate(ctx):
    scala = _gen_scala(ctx)
    py = _gen_python(ctx)
    text = f'''(* GENERATED by harness/props/C34.py - do not edit.
   Module Scala: from {SRC_SCALA_GT} and {SRC_SCALA_CALL} (source text; Int = 32-bit, exceptions = None).
   Module Py   : from {SRC_TYPES} and {SRC_CALL} (AST; unbounded ints, exceptions = None). *)
From HailV Require Import Common.Prelude CallPacking.Model.
Open Scope Z_scope.

Module Scala.
{scala}
End Scala.

Module Py.
{py}
End Py.
'''
    ctx.write_generated('Gen.v', text)


# ------------------------------------------------------------------------------------------------
# cases

LIM = 1 << 29


def tri(k):
    return k * (k + 1) // 2


def ref_repr(c):
    al, ph = c
    if len(al) == 0:
        return 0
    if len(al) == 1:
        return al[0]
    a0, a1 = al
    return tri(a0 + a1) + a0 if ph else tri(a1) + a0


def is_valid(c):
    al, ph = c
    if len(al) > 2 or any(a < 0 for a in al):
        return False
    if len(al) == 2 and not ph and al[0] > al[1]:
        return False
    return ref_repr(c) < LIM


def ref_word(c):
    """the engine's documented layout, computed independently of model and implementation"""
    al, ph = c
    w = (1 if ph else 0) | (len(al) << 1) | (ref_repr(c) << 3)
    return w - (1 << 32) if w >= (1 << 31) else w


def _valid_calls(ctx, n):
    rng = ctx.rng
    out = [([], False), ([], True)]
    edge1 = [0, 1, 2, 7, 255, 65535, 65536, (1 << 28) - 1, 1 << 28, (1 << 28) + 1, LIM - 2, LIM - 1]
    for a in edge1:
        out += [([a], False), ([a], True)]
    # diploid: rows around the cached table (k <= 7), 16-bit boundaries, and the last representable row
    for k in [0, 1, 2, 7, 8, 9, 100, 255, 256, 4095, 23169, 23170, 23171, 32766, 32767]:
        for j in sorted({0, 1, k // 2, max(0, k - 1), k}):
            if j <= k and tri(k) + j < LIM:
                out.append(([j, k], False))
                if tri(k) + j < LIM:
                    out.append(([j, k - j], True))       # phased (a0, a1) with a0 + a1 = k
                    out.append(([k - j, j], True))
    out.append(([16383, 32767], False))                   # the largest representable unphased diploid call
    while len(out) < n:
        t = rng.random()
        if t < 0.2:
            out.append(([rng.choice([rng.randrange(0, 100), rng.randrange(0, LIM)])], rng.random() < 0.5))
        else:
            k = rng.choice([rng.randrange(0, 12), rng.randrange(0, 400), rng.randrange(0, 32768)])
            j = rng.randrange(0, k + 1)
            if tri(k) + j >= LIM:
                continue
            if rng.random() < 0.5:
                out.append(([j, k], False))
            else:
                out.append(([j, k - j], True))
    return [c for c in out if is_valid(c)]


def _invalid_calls(ctx, n):
    rng = ctx.rng
    out = [([LIM], False), ([LIM + 5], True), ([16384, 32767], False), ([0, 32768], False), ([32767, 1], True), ([0, 65535], False),
           ([0, 65536], False), ([70000, 70000], True), ([-1], False), ([-1, 3], True), ([1 << 31], False), ([1 << 32], True)]
    while len(out) < n:
        k = rng.randrange(32768, 140000)
        j = rng.randrange(0, k + 1)
        out.append(([j, k], False) if rng.random() < 0.5 else ([j, k - j], True))
    return out


def _coq_call(c):
    al, ph = c
    return f'({listlit([zlit(a) for a in al])}, {"true" if ph else "false"})'


HEADER = ('From HailV Require Import Common.Prelude CallPacking.Model.\nFrom HailG Require Import C34.Gen.\n'
          'From HailV Require CallPacking.Lemmas.\nOpen Scope Z_scope.')
HEADER_NOLEMMAS = ('From HailV Require Import Common.Prelude CallPacking.Model.\nFrom HailG Require Import C34.Gen.\nOpen Scope Z_scope.')

# engine dispatch (same text as CallPacking/Lemmas.v, repeated here so that the comparison still runs when a proof is broken)
ENGINE_DEFS = r"""
Definition engine_pack (c : pycall) : option Z :=
  match c with ([], ph) => Scala.Call0_apply ph | ([a], ph) => Scala.Call1_apply a ph | ([a0; a1], ph) => Scala.Call2_apply a0 a1 ph | _ => None end.
Definition engine_unpack (w : Z) : option pycall :=
  bind (Scala.Call_ploidy w) (fun pl => bind (Scala.Call_isPhased w) (fun ph =>
    if pl =? 0 then Some ([], ph) else if pl =? 1 then bind (Scala.Call_alleleRepr w) (fun a => Some ([a], ph))
    else if pl =? 2 then bind (Scala.Call_allelePair w) (fun p => bind (Scala.AllelePair_j p) (fun j => bind (Scala.AllelePair_k p) (fun k => Some ([j; k], ph))))
    else None)).
"""


def _opt(v):
    """model value: None | ('Some', x) -> x or 'error'"""
    if v is None:
        return 'error'
    if isinstance(v, tuple) and v and v[0] == 'Some':
        return v[1]
    return v


def _norm_call(v):
    if v == 'error':
        return v
    al, ph = v
    return [list(al), bool(ph)]


def _impl_err(v):
    return 'error' if isinstance(v, str) and v.startswith('error:') else v


JAVA_SRC = """
import java.util.*;
public class P { public static void main(String[] z) { Scanner s = new Scanner(System.in); StringBuilder o = new StringBuilder();
  while (s.hasNextInt()) { int a = s.nextInt(); int b = s.nextInt();
    o.append(a + b).append(' ').append(a - b).append(' ').append(a * b).append(' ').append(b != 0 ? String.valueOf(a / b) : "E").append(' ')
     .append(a << b).append(' ').append(a >> b).append(' ').append(a >>> b).append(' ').append(a & b).append(' ').append(a | b).append(' ')
     .append(a ^ b).append(' ').append(-a).append('\\n'); }
  System.out.print(o); } }
"""


def _jvm_primitives(ctx, n):
    """The 32-bit primitives of Model.v against the JVM's int arithmetic (Scala Int = JVM int). Returns Corr."""
    import shutil
    import subprocess
    if not shutil.which('java'):
        ctx.notes.append('java not found: JVM check of the Int primitives skipped')
        return Corr()
    rng = ctx.rng
    edges = [0, 1, -1, 2, 3, 7, 8, 16, 29, 31, 32, 33, 65535, 65536, (1 << 28), (1 << 29) - 1, (1 << 29), (1 << 31) - 1, -(1 << 31), -(1 << 31) + 1, 46341, 46340]
    pairs = [(a, b) for a in edges for b in edges[:14]]
    while len(pairs) < n:
        pairs.append((rng.choice([rng.randrange(-(1 << 31), 1 << 31), rng.randrange(-70000, 70000)]),
                      rng.choice([rng.randrange(-(1 << 31), 1 << 31), rng.randrange(-40, 70), rng.randrange(-70000, 70000)])))
    src = os.path.join(ctx.work, 'P.java')
    with open(src, 'w') as f:
        f.write(JAVA_SRC)
    p = subprocess.run(['timeout', '120', 'java', src], input='\n'.join(f'{a} {b}' for a, b in pairs), capture_output=True, text=True, cwd=ctx.work)
    if p.returncode != 0:
        ctx.notes.append('java run failed: JVM check of the Int primitives skipped: ' + p.stderr[-300:])
        return Corr()
    jv = [ln.split() for ln in p.stdout.strip().split('\n')]
    exprs = [f'[Some (i_add {zlit(a)} {zlit(b)}); Some (i_sub {zlit(a)} {zlit(b)}); Some (i_mul {zlit(a)} {zlit(b)}); i_div {zlit(a)} {zlit(b)}; '
             f'Some (i_shl {zlit(a)} {zlit(b)}); Some (i_shr {zlit(a)} {zlit(b)}); Some (i_ushr {zlit(a)} {zlit(b)}); Some (i_and {zlit(a)} {zlit(b)}); '
             f'Some (i_or {zlit(a)} {zlit(b)}); Some (i_xor {zlit(a)} {zlit(b)}); Some (i_neg {zlit(a)})]' for a, b in pairs]
    mv = coq_eval(ctx, HEADER_NOLEMMAS, exprs, shard=200, label='jvm')
    dis = []
    for (a, b), j, m in zip(pairs, jv, mv):
        mm = ['E' if x is None else str(_opt(x)) for x in m]
        if mm != j:
            dis.append(Disagreement('Model.i_*~JVM int', {'kind': 'jvm', 'a': a, 'b': b}, mm, j))
    return Corr(evaluations=len(pairs) * 11, distinct_nontrivial=len(set(pairs)),
                rule='JVM: (a, b) operand pairs (edge grid + seeded random); + - * / << >> >>> & | ^ unary- of Model.v (vm_compute) vs the same '
                     'operators on Java int executed by the JVM; non-trivial = distinct pairs',
                samples=[{'a': pairs[-1][0], 'b': pairs[-1][1], 'jvm': jv[-1]}], disagreements=dis, names=['Model.i_*~JVM int'])


def correspond(ctx):
    corr = _jvm_primitives(ctx, ctx.scale(400, 4000))
    valid = _valid_calls(ctx, ctx.scale(260, 3000))
    invalid = _invalid_calls(ctx, ctx.scale(40, 400))
    calls = valid + invalid
    unnorm = [([a1, a0], False) for (al, ph) in valid[:60] if len(al) == 2 and not ph for a0, a1 in [al]] + [([1, 2, 3], False), ([1, 2, 3], True)]
    rng = ctx.rng
    ints = [ref_word(c) for c in valid] + [rng.randrange(-(1 << 31), 1 << 31) for _ in range(ctx.scale(60, 600))] + [6, 7, 14, 15, -1, -2, 0x7FFFFFFF, -(1 << 31)]
    sq = sorted({tri(k) + d for k in [8, 9, 10, 255, 256, 4095, 4096, 23170, 32766, 32767] for d in (-1, 0, 1, k) if 36 <= tri(k) + d < LIM} |
                {rng.randrange(36, LIM) for _ in range(ctx.scale(40, 400))} | {36, LIM - 1})
    gtc = [c for c in calls if len(c[0]) == 2 and not c[1] and c[0][0] <= c[0][1] and c[0][1] < (1 << 26)][:ctx.scale(80, 800)] + [([1], False), ([1, 2], True), ([], False)]
    res = ctx.run_impl('c34_calls.py', {'ops': [{'op': 'encode', 'calls': calls}, {'op': 'decode', 'ints': ints}, {'op': 'sqrt', 'is': sq},
                                                 {'op': 'gtindex', 'calls': gtc}, {'op': 'init', 'calls': unnorm + calls[:40]}]})['results']
    enc_i, dec_i, sq_i, gt_i, init_i = res
    exprs = ([f'Py.convert_to_encoding {_coq_call(c)}' for c in calls] + [f'Py.convert_from_encoding {zlit(v)}' for v in ints] +
             [f'Py.allele_pair_sqrt {zlit(i)}' for i in sq] + [f'Py.unphased_diploid_gt_index {_coq_call(c)}' for c in gtc] +
             [f'Py.Call_init {listlit([zlit(a) for a in c[0]])} {"true" if c[1] else "false"}' for c in unnorm + calls[:40]])
    mv = coq_eval(ctx, HEADER_NOLEMMAS, exprs, shard=150, label='py')
    dis = []
    pos = 0
    for c, iv in zip(calls, enc_i):
        m = _opt(mv[pos]); pos += 1
        if m != _impl_err(iv):
            dis.append(Disagreement('Gen.Py.convert_to_encoding~_tcall._convert_to_encoding', {'kind': 'call', 'call': [c[0], c[1]]}, m, iv))
    for v, iv in zip(ints, dec_i):
        m = _norm_call(_opt(mv[pos])); pos += 1
        if m != _impl_err(iv):
            dis.append(Disagreement('Gen.Py.convert_from_encoding~_tcall._convert_from_encoding', {'kind': 'int', 'int': v}, m, iv))
    for i, iv in zip(sq, sq_i):
        m = _opt(mv[pos]); pos += 1
        got = _impl_err(iv)
        if (got if got == 'error' else got[2]) != m:
            dis.append(Disagreement('Gen.Py.allele_pair_sqrt~allele_pair_sqrt', {'kind': 'sqrt', 'i': i}, m, iv))
    for c, iv in zip(gtc, gt_i):
        m = _opt(mv[pos]); pos += 1
        got = _impl_err(iv)
        if (got if got == 'error' else (got[1] if got[2] else 'non-integral')) != m:
            dis.append(Disagreement('Gen.Py.unphased_diploid_gt_index~Call.unphased_diploid_gt_index', {'kind': 'gtindex', 'call': [c[0], c[1]]}, m, iv))
    for c, iv in zip(unnorm + calls[:40], init_i):
        m = _norm_call(_opt(mv[pos])); pos += 1
        got = _impl_err(iv)
        if (got if got == 'error' else [got[0], got[1]]) != m:
            dis.append(Disagreement('Gen.Py.Call_init~hail.genetics.Call.__init__', {'kind': 'init', 'call': [c[0], c[1]]}, m, iv))
    corr.merge(Corr(evaluations=len(exprs), distinct_nontrivial=len({str(c) for c in calls if len(c[0]) == 2}) + len(set(ints)) + len(sq),
                    rule='Python smoke test: (call | int32 word | genotype index) inputs, valid edge grid + seeded random + calls beyond the engine bound; '
                         'non-trivial = diploid calls, distinct words, sqrt indices; generated Gallina (vm_compute) vs the real tcall / Call methods under the loader',
                    samples=[{'call': [calls[5][0], calls[5][1]], 'word': enc_i[5]}, {'word': ints[3], 'call': dec_i[3]}],
                    disagreements=dis, histograms={'ploidy': {str(k): sum(1 for c in calls if len(c[0]) == k) for k in (0, 1, 2)},
                                                   'phased': {str(b): sum(1 for c in calls if c[1] == b) for b in (True, False)}},
                    names=['Gen.Py.convert_to_encoding~_tcall._convert_to_encoding', 'Gen.Py.convert_from_encoding~_tcall._convert_from_encoding',
                           'Gen.Py.allele_pair_sqrt~allele_pair_sqrt', 'Gen.Py.unphased_diploid_gt_index~Call.unphased_diploid_gt_index',
                           'Gen.Py.Call_init~hail.genetics.Call.__init__']))
    corr.exhaustive = False
    return corr


def oracle(ctx, budget):
    """The property on the IMPLEMENTATION: the real Python packs each valid call into the engine's documented word layout and unpacks it
    back; index <-> pair is the VCF order; the float sqrt agrees with integer arithmetic. The Scala side cannot be executed: the words of the
    engine MODEL regenerated from Call.scala are compared with the real Python's words as additional (labelled) evidence."""
    valid = _valid_calls(ctx, ctx.scale(600, 6000) * budget)
    rng = ctx.rng
    idx = sorted({tri(k) + d for k in range(0, 32768, ctx.scale(257, 17)) for d in (-1, 0, 1) if 0 <= tri(k) + d < LIM} |
                 {rng.randrange(0, LIM) for _ in range(ctx.scale(300, 3000) * budget)} | set(range(0, 60)) | {LIM - 1})
    words_for_idx = [ref_word(([0], False)) * 0 + (((2 << 1) | (i << 3)) - ((1 << 32) if ((2 << 1) | (i << 3)) >= (1 << 31) else 0)) for i in idx]
    ops = [{'op': 'encode', 'calls': valid}, {'op': 'decode', 'ints': [ref_word(c) for c in valid]}, {'op': 'decode', 'ints': words_for_idx},
           {'op': 'sqrt_boundaries', 'kmax': 32767}]
    if ctx.thorough:
        ops.append({'op': 'sqrt_sweep', 'lo': 0, 'hi': LIM})
    res = ctx.run_impl('c34_calls.py', {'ops': ops}, timeout=1500)['results']
    enc, dec, dec_idx, sqb = res[:4]
    fails = []
    for c, e, d in zip(valid, enc, dec):
        case = {'kind': 'call', 'call': [c[0], c[1]]}
        shape = f'ploidy {len(c[0])}, {"phased" if c[1] else "unphased"}'
        if isinstance(e, str):
            fails.append(Failure(f'pack:raises:{shape}', f'_convert_to_encoding raised {e} for the representable call {c}', case, ref_word(c), e))
        elif e != ref_word(c):
            fails.append(Failure(f'pack:wrong-word:{shape}', f'_convert_to_encoding({c}) = {e}, the engine word is {ref_word(c)}', case, ref_word(c), e))
        if d != [c[0], c[1]]:
            fails.append(Failure(f'unpack:not-inverse:{shape}', f'_convert_from_encoding(engine word of {c}) = {d}', case, [c[0], c[1]], d))
    gt_calls = []
    for i, d in zip(idx, dec_idx):
        case = {'kind': 'gt', 'i': i}
        if isinstance(d, str) or d[1] is not False or len(d[0]) != 2:
            fails.append(Failure('gtindex:decode-fails', f'genotype index {i} does not decode to an unphased pair: {d}', case, None, d))
            continue
        j, k = d[0]
        if not (0 <= j <= k and tri(k) + j == i):
            fails.append(Failure('gtindex:not-vcf-order', f'genotype index {i} decodes to ({j},{k}) but k(k+1)/2+j = {tri(k) + j}', case, i, d))
        else:
            gt_calls.append(([j, k], False, i))
    gi = ctx.run_impl('c34_calls.py', {'ops': [{'op': 'gtindex', 'calls': [[c[0], c[1]] for c in gt_calls]}]})['results'][0]
    for (al, ph, i), g in zip(gt_calls, gi):
        if isinstance(g, str) or not g[2] or g[1] != i:
            fails.append(Failure('gtindex:py-index-wrong', f'Call({al}).unphased_diploid_gt_index() = {g}, expected {i}', {'kind': 'gt', 'i': i}, i, g))
    if sqb['bad']:
        i0 = sqb['bad'][0]
        fails.append(Failure('sqrt:float-mismatch', f'allele_pair_sqrt({i0[0]}) = {i0[2]}, integer arithmetic gives {i0[1]}', {'kind': 'sqrt', 'i': i0[0]}, i0[1], i0[2]))
    n_sweep = 0
    if ctx.thorough:
        sw = res[4]
        n_sweep = sw['n']
        if sw['bad']:
            fails.append(Failure('sqrt:float-mismatch', f'float row index wrong at i={sw["bad"][0]}', {'kind': 'sqrt', 'i': sw['bad'][0][0]}, None, sw['bad'][0]))
    # engine MODEL (regenerated from the Scala text) against the real Python words
    try:
        sample = valid[: ctx.scale(250, 2500)]
        exprs = [f'(engine_pack {_coq_call(c)}, bind (engine_pack {_coq_call(c)}) engine_unpack)' for c in sample]
        mv = coq_eval(ctx, HEADER_NOLEMMAS + ENGINE_DEFS, exprs, shard=150, label='engine')
        for c, e, m in zip(sample, enc, mv):
            mp, mu = _opt(m[0]), _norm_call(_opt(m[1]))
            case = {'kind': 'call', 'call': [c[0], c[1]]}
            shape = f'ploidy {len(c[0])}, {"phased" if c[1] else "unphased"}'
            if mp != e:
                fails.append(Failure(f'engine-model:pack-differs:{shape}', f'the engine MODEL regenerated from Call.scala/Genotype.scala (not executed) packs {c} '
                                     f'as {mp}, the real Python as {e}', case, mp, e))
            elif mu != [c[0], c[1]]:
                fails.append(Failure(f'engine-model:unpack-differs:{shape}', f'the engine MODEL regenerated from Call.scala/Genotype.scala (not executed) unpacks '
                                     f'the word of {c} as {mu}', case, [c[0], c[1]], mu))
    except Exception as ex:  # noqa: BLE001 - the generated file may not exist when the translator failed closed
        ctx.notes.append(f'engine-model comparison not available: {str(ex)[:200]}')
    stats = {'evaluations': 2 * len(valid) + len(idx) + len(gt_calls) + sqb['n'] + n_sweep,
             'distinct_nontrivial': len({str(c) for c in valid if len(c[0]) == 2}) + len(idx),
             'rule': 'oracle: real Python pack/unpack of representable calls vs the documented word layout (phased | ploidy<<1 | repr<<3, int32); '
                     'index->pair->index in VCF order; allele_pair_sqrt at every triangular boundary below 2^29'
                     + (' and the float expression at EVERY index below 2^29 (numpy sweep)' if ctx.thorough else '')
                     + '; non-trivial = diploid calls + genotype indices',
             'samples': [{'call': [valid[10][0], valid[10][1]], 'word': enc[10]}]}
    if ctx.thorough and not fails:
        stats['exhaustive_note'] = f'float sqrt row index verified for all {n_sweep} indices below 2^29'
    return fails, stats


def replay(ctx, doc):
    case = doc.get('case') or {}
    kind = case.get('kind')
    if kind == 'call':
        c = case['call']
        r = ctx.run_impl('c34_calls.py', {'ops': [{'op': 'encode', 'calls': [c]}, {'op': 'init', 'calls': [c]}]})['results']
        out = {'case': case, 'impl_word': r[0][0], 'impl_call': r[1][0], 'engine_word_by_layout': ref_word((c[0], c[1])) if is_valid((c[0], c[1])) else 'outside the engine range'}
        if not isinstance(r[0][0], str):
            out['impl_decode'] = ctx.run_impl('c34_calls.py', {'ops': [{'op': 'decode', 'ints': [r[0][0]]}]})['results'][0][0]
        try:
            m = coq_eval(ctx, HEADER_NOLEMMAS + ENGINE_DEFS, [f'(Py.convert_to_encoding {_coq_call((c[0], c[1]))}, engine_pack {_coq_call((c[0], c[1]))})'])[0]
            out['model_py_word'], out['model_engine_word'] = _opt(m[0]), _opt(m[1])
        except Exception as ex:  # noqa: BLE001
            out['model'] = f'not available: {str(ex)[:200]}'
        return out
    if kind in ('gt', 'sqrt'):
        i = case['i']
        w = (2 << 1) | (i << 3)
        w = w - (1 << 32) if w >= (1 << 31) else w
        r = ctx.run_impl('c34_calls.py', {'ops': [{'op': 'decode', 'ints': [w]}, {'op': 'sqrt', 'is': [i]}]})['results']
        return {'case': case, 'impl_decode': r[0][0], 'impl_allele_pair_sqrt': r[1][0]}
    if kind == 'int':
        r = ctx.run_impl('c34_calls.py', {'ops': [{'op': 'decode', 'ints': [case['int']]}]})['results']
        return {'case': case, 'impl_decode': r[0][0]}
    return {'case': case, 'note': 'no implementation-side replay for this kind'}
