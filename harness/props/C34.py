"""C34 — genotype call packing agrees with the engine.

Anchors: hail/python/hail/expr/types.py (_tcall._convert_to_encoding/_convert_from_encoding, allele_pair, allele_pair_sqrt,
small_allele_pair), hail/python/hail/genetics/call.py (Call.__init__, unphased_diploid_gt_index),
hail/hail/src/is/hail/variant/Call.scala (Call, Call0, Call1, Call2), Genotype.scala (AllelePair, Genotype).

Tie: T on both sides. The Scala `def`s (arithmetic one-liners and small blocks) are re-parsed from the current source text and
translated to Gallina with explicit 32-bit wrap-around and exceptions as `None`; the Python functions are translated from their
AST. Both land in coq/generated/C34/Gen.v; CallPacking/Lemmas.v proves each generated function equal to a hand model and the
property theorems about the hand models. The Python half is additionally run (real hail.expr.types.tcall under the loader)
against the generated definitions as a smoke test; the Scala half cannot be executed here (no Scala toolchain): it is
MODELLED from its source text, never run.
"""
import ast
import os

from harness.core import Corr, Disagreement, Failure, TieBroken, coq_eval, listlit, zlit
from harness.translate.c34_monadic import PyFront, PyUnsupported, ScalaFront
from harness.translate.pyast import find_function

ID = 'C34'
SRC_TYPES = 'hail/python/hail/expr/types.py'
SRC_CALL = 'hail/python/hail/genetics/call.py'
SRC_SCALA_CALL = 'hail/hail/src/is/hail/variant/Call.scala'
SRC_SCALA_GT = 'hail/hail/src/is/hail/variant/Genotype.scala'
SRC_RICHBOOL = 'hail/hail/utils/src/is/hail/utils/implicits/RichBoolean.scala'
COQ_PROPS = 'theories/CallPacking/Props_C34.v'
READY = False
META = dict(
    design_ref='§5.F C34',
    technique='Coq proofs about Gallina definitions regenerated on every run from the Scala source text (fail-closed expression '
              'translator with explicit 32-bit wrap-around) and from the Python AST; integer square root via Z.sqrt',
    level_text='',
    level_note='',
    partial=True,
)
TRUSTED = ['harness/translate/c34_monadic.py: Scala def-body parser/translator (Int = 32-bit two\'s complement, exceptions = None, '
           'Scala operator precedence by first character) and Python AST translator (unbounded ints)',
           'coq/theories/CallPacking/Model.v: the primitive operations the translators target (wrap32, i_shl/i_ushr..., py_get, write_int32)']
ASSUMPTIONS = ['(Math.sqrt(8*i.toDouble+1)/2-0.5).toInt and int(math.sqrt(8*float(i)+1)/2-0.5) equal (isqrt(8i+1)-1) div 2 for 0 <= i < 2^29 '
               '(validated against the Python floats by the harness - boundaries in quick, every i in thorough; assumed for the JVM)',
               'the Scala sources are modelled from their text, not executed (no Scala toolchain in the sandbox)']

SCALA_DEFS = [   # (object, def, arity) in dependency order
    ('AllelePair', 'apply', 2), ('AllelePair', 'j', 1), ('AllelePair', 'k', 1),
    ('Genotype', 'diploidGtIndex', 2), ('Genotype', 'diploidGtIndexWithSwap', 2),
    ('Genotype', '@smallAllelePair', 0), ('Genotype', 'allelePairSqrt', 1), ('Genotype', 'allelePair', 1),
    ('Call', 'apply', 4), ('Call', 'isPhased', 1), ('Call', 'ploidy', 1), ('Call', 'isDiploid', 1), ('Call', 'alleleRepr', 1),
    ('Call', 'allelePairUnchecked', 1), ('Call', 'allelePair', 1), ('Call', 'unphasedDiploidGtIndex', 1),
    ('Call0', 'apply', 1), ('Call1', 'apply', 2), ('Call2', 'fromUnphasedDiploidGtIndex', 1), ('Call2', 'apply', 3),
]

PY_ATTRS = {'ploidy': ('call_ploidy', 'call', 'int'), 'phased': ('call_phased', 'call', 'bool'), 'alleles': ('call_alleles', 'call', 'list'),
            '_alleles': ('call_alleles', 'call', 'list'), '_phased': ('call_phased', 'call', 'bool')}
ANNOT = {'int': 'int', 'bool': 'bool', 'genetics.Call': 'call'}


class _Py(PyFront):
    def function(self, fn, outer_env, nested=False, param_types=None, skip_params=(), fallthrough=None):
        pt = dict(param_types or {})
        for a in fn.args.args:
            if a.annotation is not None and a.arg not in pt:
                t = ANNOT.get(ast.unparse(a.annotation))
                if t is None:
                    raise PyUnsupported(fn, f'annotation {ast.unparse(a.annotation)}')
                pt[a.arg] = t
        return super().function(fn, outer_env, nested, pt, skip_params, fallthrough)


def _gen_scala(ctx):
    gt = ctx.read_repo(SRC_SCALA_GT)
    call = ctx.read_repo(SRC_SCALA_CALL)
    rb = ctx.read_repo(SRC_RICHBOOL)
    if 'def toInt: Int = if (b) 1 else 0' not in rb:
        raise TieBroken('scala-translator', 'RichBoolean.toInt is no longer `if (b) 1 else 0`')
    if 'type Call = Int' not in ctx.read_repo('hail/hail/src/is/hail/variant/package.scala'):
        raise TieBroken('scala-translator', '`type Call = Int` not found in is/hail/variant/package.scala')
    f = ScalaFront(gt + '\n' + call, 'is/hail/variant/{Genotype,Call}.scala')
    out = []
    for obj, name, ar in SCALA_DEFS:
        if name.startswith('@'):
            out.append(f.translate_array_val(obj, name[1:], f'{obj}_{name[1:]}'))
        else:
            out.append(f.translate_def(obj, name, ar, f'{obj}_{name}'))
    return '\n\n'.join(out)


def _gen_python(ctx):
    src = ctx.read_repo(SRC_TYPES)
    csrc = ctx.read_repo(SRC_CALL)
    pf = _Py(attrs=PY_ATTRS)
    out = []

    def top(fn, coq_name, key, extra_binder='', **kw):
        (binder, body), ptys, rty = pf.function(fn, kw.pop('outer_env', {}), **kw)
        if key:
            pf.funcs[key] = (coq_name, ptys, rty)
        out.append(f'Definition {coq_name} {extra_binder}{binder} : option {pf.coq_ty(rty)} :=\n{body}.')
        return ptys, rty

    top(find_function(src, 'allele_pair'), 'allele_pair', 'allele_pair')
    top(find_function(src, 'allele_pair_sqrt'), 'allele_pair_sqrt', 'allele_pair_sqrt')
    # the table  small_allele_pair = [allele_pair(0, 0), ...]
    tree = ast.parse(src)
    tab = [s for s in tree.body if isinstance(s, ast.Assign) and len(s.targets) == 1 and isinstance(s.targets[0], ast.Name)
           and s.targets[0].id == 'small_allele_pair']
    if len(tab) != 1 or not isinstance(tab[0].value, ast.List):
        raise TieBroken('py-translator', 'small_allele_pair is no longer a list literal')
    elems = []
    for e in tab[0].value.elts:
        v, t = pf.expr(e, {})
        if t != 'int':
            raise PyUnsupported(e, 'table element')
        elems.append(v)
    out.append('Definition small_allele_pair_opt : list (option Z) :=\n  [' + ';\n   '.join(elems) + '].\n'
               'Definition small_allele_pair : list Z := somes small_allele_pair_opt.')
    pf.consts['small_allele_pair'] = ('(ret small_allele_pair)', 'list')
    # hail.genetics.Call.__init__  ->  (alleles, phased) after normalisation
    init = find_function(csrc, 'Call.__init__')
    if [a.arg for a in init.args.args] != ['self', 'alleles', 'phased']:
        raise TieBroken('py-translator', 'Call.__init__ parameters changed')
    top(init, 'Call_init', None, skip_params=('self',), param_types={'alleles': 'list', 'phased': 'bool'},
        fallthrough=lambda env: ('(ret (self__alleles, self__phased))', 'call')
        if env.get('self__alleles') == 'list' and env.get('self__phased') == 'bool' else (_ for _ in ()).throw(
            TieBroken('py-translator', 'Call.__init__ does not set _alleles/_phased on every path')))
    # the properties of Call must still be plain field reads
    for prop, body in (('alleles', 'return self._alleles'), ('phased', 'return self._phased'), ('ploidy', 'return len(self._alleles)')):
        p = find_function(csrc, f'Call.{prop}')
        stm = [s for s in p.body if not (isinstance(s, ast.Expr) and isinstance(s.value, ast.Constant))]
        if len(stm) != 1 or ast.unparse(stm[0]) != body:
            raise TieBroken('py-translator', f'Call.{prop} is no longer `{body}`')
    pf.special_calls['genetics.Call'] = lambda self, n, env: _call_ctor(self, n, env)
    pf.special_calls['byte_reader.read_int32'] = lambda self, n, env: ('(ret read_int32)', 'int') if not n.args else (_ for _ in ()).throw(PyUnsupported(n))
    pf.special_calls['byte_writer.write_int32'] = lambda self, n, env: _write(self, n, env)
    dec = find_function(src, '_tcall._convert_from_encoding')
    if [a.arg for a in dec.args.args] != ['self', 'byte_reader', '_should_freeze']:
        raise TieBroken('py-translator', '_convert_from_encoding parameters changed')
    top(dec, 'convert_from_encoding', None, extra_binder='(read_int32 : Z)', skip_params=('self', 'byte_reader', '_should_freeze'),
        outer_env={'read_int32': 'int'})
    enc = find_function(src, '_tcall._convert_to_encoding')
    if [a.arg for a in enc.args.args] != ['self', 'byte_writer', 'value']:
        raise TieBroken('py-translator', '_convert_to_encoding parameters changed')
    top(enc, 'convert_to_encoding', None, skip_params=('self', 'byte_writer'), param_types={'value': 'call'})
    gi = find_function(csrc, 'Call.unphased_diploid_gt_index')
    pf.true_div_exact = True
    top(gi, 'unphased_diploid_gt_index', None, param_types={'self': 'call'})
    pf.true_div_exact = False
    return '\n\n'.join(out)


def _call_ctor(pf, n, env):
    if n.keywords or len(n.args) != 2:
        raise PyUnsupported(n, 'Call(...) form')
    a, ta = pf.expr(n.args[0], env)
    b, tb = pf.expr(n.args[1], env)
    if ta != 'list' or tb != 'bool':
        raise PyUnsupported(n, f'Call({ta}, {tb})')
    return f'(call2 Call_init {a} {b})', 'call'


def _write(pf, n, env):
    if n.keywords or len(n.args) != 1:
        raise PyUnsupported(n)
    v, t = pf.expr(n.args[0], env)
    if t != 'int':
        raise PyUnsupported(n)
    return f'(call1 write_int32 {v})', 'int'


def generate(ctx):
    scala = _gen_scala(ctx)
    py = _gen_python(ctx)
    text = f'''(* GENERATED by harness/props/C34.py - do not edit.
   Module Scala: from {SRC_SCALA_GT} and {SRC_SCALA_CALL} (source text; Int = 32-bit, exceptions = None).
   Module Py   : from {SRC_TYPES} and {SRC_CALL} (AST; unbounded ints, exceptions = None). *)
From HailV Require Import Common.Prelude CallPacking.Model.
Open Scope Z_scope.

Module Scala.
{scala}
End Scala.

Module Py.
{py}
End Py.
'''
    ctx.write_generated('Gen.v', text)


def correspond(ctx):
    return Corr()


def oracle(ctx, budget):
    return [], {}
