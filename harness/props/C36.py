"""C36 — front-end types agree with the IR it emits (hail/python/hail/expr/expressions/*.py, expr/functions.py, ir/ir.py,
expr/types.py).

Model: coq/theories/Typing/Model.v — [elab]: what the expression API reports as dtype and which IR it builds (numeric
promotion with bool counted as int32, the argument coercions of the comparison operators, unify_exprs for == / if_else /
arrays, the field-access shortcuts of StructExpression, annotate / select / drop, to_stream's ToArray peephole, fold's body
coercion); [ir_type]: the IR's typing rules read strictly; [impute] / [has_type]: impute_type with holes and unification, and
what a literal value must satisfy.  Theorems (Props_C36.v): for ALL programs / environments the reported type is the type
of the emitted IR; for ALL Python values an imputed type is satisfied by the value.
Tie: X — generated programs and values go through the REAL front end of $VERIF_REPO (no backend) and through the model:
accepted/rejected, dtype, IR (up to numbering of generated names) and IR type (cached and deep-recomputed) must coincide;
imputed types must coincide.  Oracle: implementation only (dtype = strict type of the emitted IR, computed by an independent
checker; literals can be built, encoded, decoded and pass HailType.typecheck).
The model of values is the code as repaired by fixes/C36.diff (see findings/C36.json).

Table / MatrixTable level: coq/theories/Typing/TableModel.v — [telab]: what the Table / MatrixTable methods report (row / key /
globals / col / entry types, built from the dtypes they DECLARE, among them the dtype Table._index declares for a lookup) and
which relational IR they emit (TableRange, TableKeyBy, TableMapRows, TableMapGlobals, TableFilter, TableOrderBy, TableUnion, TableLeftJoinRightDistinct,
TableIntervalJoin with its product flag, MatrixRows/Cols/EntriesTable, MatrixRead of a range, MatrixMapRows/Cols/Entries/Globals,
MatrixKeyRowsBy, MatrixAnnotateRowsTable with its product flag); [strict_type]: the engine's typ of these nodes (TableIR.scala /
MatrixIR.scala, the assertions of TypeCheck.scala and of the TableType / MatrixType constructors), every value IR re-typed from
scratch in the environment its node binds.  Theorems (TableSound.v / Props_C36.v): for ALL programs of the modelled table
language under the guard [simple_interval_keys], the reported type is the strict type of the emitted IR; without the guard the
statement is refuted by two concrete programs (open findings).  Tie: X on generated table programs through the real front end
with a fake context (harness/impl/c36_tables.py; nothing is executed).  Oracle: reported dtypes = tir.typ = type recomputed with
deep_typecheck on an unshared copy = type under an independent Python checker of the strict relational rules, and every lookup
dtype = the type its join node gives the joined field.
"""
import glob
import json
import os
import sys

from harness.core import Corr, Disagreement, Failure, HarnessError, coq_eval

sys.path.insert(0, os.path.join(os.path.dirname(os.path.dirname(os.path.abspath(__file__))), 'impl'))
import c36_lang as L  # noqa: E402
import c36_tlang as TL  # noqa: E402

ID = 'C36'
SRC = ['hail/python/hail/expr/expressions/base_expression.py', 'hail/python/hail/expr/expressions/typed_expressions.py',
       'hail/python/hail/expr/expressions/expression_typecheck.py', 'hail/python/hail/expr/functions.py',
       'hail/python/hail/expr/types.py', 'hail/python/hail/ir/ir.py', 'hail/python/hail/table.py', 'hail/python/hail/matrixtable.py',
       'hail/python/hail/ir/table_ir.py', 'hail/python/hail/ir/matrix_ir.py', 'hail/python/hail/utils/misc.py']
COQ_PROPS = 'theories/Typing/Props_C36.v'
READY = True
META = dict(
    design_ref='§5.F C36',
    technique='Coq proofs (structural induction over front-end programs / Python values with nested lists) about a hand model of the '
              'expression API\'s typing and IR emission and of impute_type; model tied to the real front end by a differential run '
              '(dtype, emitted IR, IR type; imputed types) that needs no backend',
    level_text='Machine-checked theorems (Coq 8.16, closed under the global context): (1) for EVERY program over literals, + - * // / and '
               'unary - with numeric promotion (bool as int32), ~, the six comparisons, if_else, bind, struct/field access/annotate/select/'
               'drop, array/len/index, map/filter/fold lambdas, tuple/indexing, int32/int64/float32/float64/str conversions and string '
               'concatenation, in every typing environment: if the front end accepts it with type t, the IR it emits has type t under the '
               'strict IR typing rules (all operand types agree: the front end inserted every conversion); (2) for EVERY Python value '
               'built from None/bool/int/float/str/list/tuple/Struct: if impute_type gives a type, the value satisfies it (ranges, '
               'struct fields, tuple lengths, recursively); (3) for EVERY Table / MatrixTable program over range_table, key_by(names), '
               'annotate, select(names), drop(names), annotate_globals, filter, order_by(names, ascending / descending), union of two tables '
               '(unify=False; unify=True on tables with the same value field names: re-ordering and numeric promotion), annotate with ONE lookup r.index(k1.., all_matches) by '
               'non-key expressions (TableLeftJoinRightDistinct on exact key types; TableIntervalJoin with product = all_matches for an '
               'interval key indexed by a point), rows()/cols()/entries(), range_matrix_table, annotate_rows/_cols/_entries/_globals, '
               'key_rows_by/key_cols_by(names), annotate_rows with ONE lookup into an interval-keyed table (MatrixAnnotateRowsTable with '
               'product = all_matches), with expressions of (1) plus hl.interval and field references: under the guard '
               'simple_interval_keys, if the front end accepts and reports the table / matrix-table type t (globals, row, key, col, col key, '
               'entry; built from the dtypes it declares, among them the lookup dtype), the relational IR it emits has type t under the '
               'engine-side rules (TableIR/MatrixIR.scala typ + TypeCheck.scala + type-constructor assertions), every value IR re-typed '
               'from scratch in the environment its node binds (C36_table_type_agreement_partial, C36_telab_sound); the unguarded '
               'statement is refuted by two concrete programs (C36_table_type_agreement_refuted, C36_table_type_agreement_full_fails). '
               'The models agree with the real front end on every generated case they cover.',
    level_note='Partial. Table level: the model of Table.union is the code as repaired by fixes/C36-union.diff (e910686b1: the no-select shortcut '
               'compares whole row types). The theorem is guarded (two open findings: a matrix-row lookup into a table whose compound key starts '
               'with an interval, or whose point type is not the type of the matrix\'s first row key field, is accepted and typed by the '
               'front end but its MatrixAnnotateRowsTable fails the engine\'s TypeCheck). In [telab] the facts the front end has by '
               'construction (generated names are fresh; key fields survive annotate/select/drop; the re-keyed join table\'s key fields have '
               'the key expressions\' dtypes) are boolean tests on the computed types, not proved invariants: the run reports a '
               'disagreement if the model rejects a program the real front end accepts. Checked on the implementation only (oracle: real '
               'tir.typ, deep recomputation, independent Python strict checker, lookup dtype = join field type; NOT in the Coq model): '
               'order_by with computed sort expressions, union of three or more tables and union(unify=True) with fields missing from a table '
               '(NA), Table.join inner/left/right/outer (TableJoin), semi_join / anti_join (filter over a TableLeftJoinRightDistinct with IsNA), '
               'a downstream aggregation group_by(key).aggregate(s = hl.agg.sum(field)) (TableKeyByAndAggregate, ApplyAggOp Sum) whose dtype '
               'must be the strict type of the aggregated field; in PUnion the equality of the two selected row types is a boolean test '
               'of the model (true by construction of unify_exprs), not a proved fact; '
               'lookups by the key fields themselves (no re-keying, key prefixes), MatrixTable row/col lookups into point-keyed tables '
               '(MatrixAnnotateRowsTable/ColsTable by key), index_rows/index_cols/index_entries from a table, Table.join (TableJoin), '
               'key_by with computed keys, filter with a lookup, several lookups in one operation. Outside both: all_matches on a point '
               'key (collect_by_key), foreign-key joins from MatrixTable rows, index_entries from a MatrixTable, index_globals '
               '(aggregations / TableGetGlobals / localized entries are not exported: counted as outside), tuple/struct unpacking of '
               'index arguments, Table.parallelize and every source that needs a backend. Lookups by scalar-only expressions are rejected '
               'by the front end before typing and are not modelled. Expression level, outside the '
               'model and named as such by the run: compound coercions (arrays/structs/tuples of different numeric element types in '
               'if_else, ==, hl.array), array broadcasting in arithmetic, fold whose zero must be converted to the body type, '
               'annotate with two fields read from the same struct (Let-deduplication), dict/set/float32/locus/call/ndarray values, '
               'Structs with different field sets in one list (the real union has an unspecified order; covered by the oracle only). '
               'The IR typing rules are a strict reading of ir.py (_compute_type) standing in for the engine\'s checker: modelled, not run.',
    strict_rules='Relational nodes the table language can emit, each with an independent strict rule transcribed from the SCALA side (file:line '
                 'in the header comment of Typing/TableModel.v), never from the Python _compute_type. In Coq (strict_type) AND in the Python '
                 'checker (c36_tlang.strict_rel): TableRange, TableKeyBy, TableMapRows, TableMapGlobals, TableFilter, TableOrderBy (key = [], '
                 'TableIR.scala:2593), TableUnion (two children in Coq, n-ary in Python; TypeCheck.scala:686-688), TableLeftJoinRightDistinct, TableIntervalJoin (product), MatrixRowsTable, MatrixColsTable, '
                 'MatrixEntriesTable, MatrixRead(MatrixRangeReader), MatrixMapRows, MatrixMapCols (new key), MatrixMapEntries, MatrixMapGlobals, '
                 'MatrixKeyRowsBy, MatrixAnnotateRowsTable (product). Python checker only: TableJoin (TableIR.scala:2267, TypeCheck:621), TableKeyByAndAggregate (TableIR.scala:2542-2545), '
                 'MatrixAnnotateColsTable (MatrixIR.scala:760, TypeCheck:698, LowerMatrixIR.scala:236). Emitted by some programs of the '
                 'language but NOT exported / typed (such programs are counted as outside, never judged by the Python tir.typ alone): '
                 'TableAggregateByKey and aggregators other than Sum (collect_by_key, foreign-key matrix joins), MatrixUnionRows (needs a backend) / MatrixUnionCols, the localize-entries pipeline of '
                 'MatrixTable-to-MatrixTable index_entries (CastMatrixToTable, TableRename, ...), TableGetGlobals (index_globals), is_sorted key_by.',
    partial=True,
)
TRUSTED = ['hand model coq/theories/Typing/Model.v tied to the front end only by the correspondence run (X)',
           'hand model coq/theories/Typing/TableModel.v ([telab] transcribed from table.py / matrixtable.py / utils/misc.py, [strict_type] '
           'from TableIR.scala / MatrixIR.scala / TypeCheck.scala / MatrixType.scala / TStruct.scala by reading), tied to the front end only by X',
           'harness/impl/c36_tables.py (fake HailContext so Tables can be BUILT without a backend; builds table programs through the hail API; '
           'exports reported types, relational IR, tir.typ, and the deep-recomputed type of an UNSHARED copy of the IR: the front end shares '
           'reference nodes between binders, on which compute_type(deep) raises a spurious assertion; the copy re-implements copy() for the three '
           'top-level reference classes whose own copy() reads a non-existent attribute) and harness/impl/c36_tlang.py (generator, converter to '
           'Gallina incl. the syntactic decisions is_key / interval-keyed / outside-the-model, independent strict checker of the relational IR)',
           'harness/impl/c36_types.py (builds programs/values through the hail API, exports dtype / IR / IR type) and '
           'harness/impl/c36_lang.py (generators, conversions to/from Gallina, independent strict IR type checker used by the oracle)',
           'loader: numpy from /verif/.deps, functional shims decorator/parsimonious, stubbed pandas (pd.NA / pd.isna are stubs: pandas '
           'missing values are outside the model); no JVM/backend is started']
ASSUMPTIONS = ['generated variable names are compared up to renumbering in order of first occurrence (the front end draws them from a counter)',
               'float and string literals are tokens (five fixed values each): their content never influences typing',
               'the strict IR typing rules stand in for the engine (Scala TypeCheck), which cannot run here',
               'generated field names (__uid_N) are compared up to renumbering in order of first occurrence; top-level references '
               '(row / global / va / sa / g) are untyped in the real IR and typed by their binder: the model gives them the declared type',
               'TableIntervalJoin has no TypeCheck case; its rule here (first right key field is an interval of the type of the first left '
               'key field; root is a new field) is read off LowerTableIR / TStruct.appendKey']

HEADER = ('From HailV Require Import Common.Prelude Typing.Model.\n'
          'Open Scope N_scope.\n'
          'Definition oute (e : fe) := match elab [] e with Some (t, x) => Some (t, x, ir_type [] x) | None => None end.\n'
          'Definition outv (v : pv) := match impute v with Some t => Some (t, has_type t v) | None => None end.\n')
THEADER = ('From HailV Require Import Common.Prelude Typing.Model Typing.TableModel.\n'
           'Open Scope N_scope.\n'
           'Definition outt (p : prog) := match telab p with Some (t, x) => Some (t, x, strict_type x, simple_interval_keys p) | None => None end.\n')


def _corpus():
    out = []
    here = os.path.dirname(os.path.dirname(os.path.dirname(os.path.abspath(__file__))))
    for p in sorted(glob.glob(os.path.join(here, 'corpus', ID, '*.json'))):
        out.append(json.load(open(p))['case'])
    return out


def _cases(ctx, n_expr, n_val, n_tab=0):
    rng = ctx.rng
    cases = _corpus()
    if not n_tab:
        cases = [c for c in cases if c['kind'] != 'table']
    tg = TL.TGen(rng)
    for _ in range(n_tab):
        cases.append({'kind': 'table', 'prog': tg.program()})
    for _ in range(n_expr):
        cases.append({'kind': 'expr', 'prog': L.Gen(rng, budget=rng.choice([4, 6, 8, 12])).program()})
    for i in range(n_val):
        cases.append({'kind': 'value', 'v': L.gen_value(rng, 3, same_fields=(i % 3 != 0))})
    return cases


def _run_impl(ctx, cases):
    ti = [i for i, c in enumerate(cases) if c['kind'] == 'table']
    oi = [i for i, c in enumerate(cases) if c['kind'] != 'table']
    res = [None] * len(cases)
    if oi:
        for i, r in zip(oi, ctx.run_impl('c36_types.py', {'cases': [cases[i] for i in oi]}, timeout=1200)['results']):
            res[i] = r
    if ti:
        for i, r in zip(ti, ctx.run_impl('c36_tables.py', {'cases': [cases[i] for i in ti]}, timeout=1200)['results']):
            res[i] = r
    for c, r in zip(cases, res):
        if 'harness_exc' in r:
            raise HarnessError(f'c36_types.py failed on {json.dumps(c)[:300]}: {r["harness_exc"]}')
    return res


# ------------------------------------------------------------------------------------------------ correspondence

def correspond(ctx):
    sys.setrecursionlimit(100000)
    allcases = _cases(ctx, ctx.scale(700, 12000), ctx.scale(700, 12000), ctx.scale(350, 4000))
    allres = _run_impl(ctx, allcases)
    tcases = [(c, r) for c, r in zip(allcases, allres) if c['kind'] == 'table']
    cases = [c for c in allcases if c['kind'] != 'table']
    res = [r for c, r in zip(allcases, allres) if c['kind'] != 'table']
    exprs, namess = [], []
    for c in cases:
        n = L.Names()
        exprs.append(('oute ' + L.fe_to_coq(c['prog'], n)) if c['kind'] == 'expr' else ('outv ' + L.pv_to_coq(c['v'], n)))
        namess.append(n)
    model = coq_eval(ctx, HEADER, exprs, shard=250, label='corr')
    dis, hist, samples, distinct = [], {}, [], set()

    def bump(k):
        hist[k] = hist.get(k, 0) + 1

    for c, r, m, n in zip(cases, res, model, namess):
        if c['kind'] == 'expr':
            if 'outside' in r:
                bump('expr: real IR outside the exported subset' if m is None else 'expr: MODEL covers, exporter does not')
                if m is not None:
                    dis.append(Disagreement('elab~front end', c, 'model covers the program', r))
                continue
            if 'rejected' in r:
                if m is None:
                    bump('expr: both reject')
                else:
                    bump('expr: model accepts, front end rejects')
                    dis.append(Disagreement('elab~front end', c, 'accepted with ' + str(L.coq_to_ty(m[1][0], n)), r))
                continue
            if m is None:
                bump('expr: accepted by the front end, outside the model')
                continue
            t_, x_, it = m[1]
            mt, mir = L.coq_to_ty(t_, n), L.renumber(L.coq_to_ir(x_, n))
            mit = None if it is None else L.coq_to_ty(it[1], n)
            if mit != mt:
                raise HarnessError(f'model contradicts its own theorem on {json.dumps(c)[:300]}')
            if mt != r['dtype']:
                dis.append(Disagreement('fe_type~dtype', c, mt, r['dtype']))
            elif mir != r['ir']:
                dis.append(Disagreement('to_ir~emitted IR', c, mir, r['ir']))
            elif r.get('irtyp') != mt or r.get('deep') != mt:
                dis.append(Disagreement('ir_type~IR.typ', c, mt, {'typ': r.get('irtyp'), 'deep': r.get('deep'), 'deep_exc': r.get('deep_exc')}))
            else:
                bump('expr: agree')
                if 'Apply' in json.dumps(r['ir']):
                    distinct.add(json.dumps(r['ir']))
                if len(samples) < 3 and 'ToFloat64' in json.dumps(r['ir']) and len(r['text']) < 300:
                    samples.append({'program': c['prog'], 'dtype': r['dtype'], 'ir': r['text']})
        else:
            agree = L.struct_fields_agree(c['v'])
            if 'outside' in r:
                bump('value: type outside the exported subset')
                continue
            if 'impute_rejected' in r:
                if m is None or not agree:
                    bump('value: both reject' if m is None else 'value: union of struct fields (outside the model)')
                else:
                    dis.append(Disagreement('impute~impute_type', c, L.coq_to_ty(m[1][0], n), r))
                continue
            if not agree:
                bump('value: union of struct fields (outside the model)')
                continue
            if m is None:
                dis.append(Disagreement('impute~impute_type', c, 'rejected', r['imputed']))
                continue
            mt, ok = L.coq_to_ty(m[1][0], n), m[1][1]
            if ok is not True:
                raise HarnessError(f'model contradicts its own theorem on {json.dumps(c)[:300]}')
            if mt != r['imputed'] or r.get('literal_dtype') != mt:
                dis.append(Disagreement('impute~impute_type', c, mt, {'imputed': r['imputed'], 'literal': r.get('literal_dtype'), 'exc': r.get('literal_exc')}))
            elif r.get('typecheck') is not True or not r.get('encoded') or not r.get('decoded'):
                dis.append(Disagreement('has_type~typecheck/encode', c, 'value satisfies ' + json.dumps(mt),
                                        {k: r.get(k) for k in ('typecheck', 'encode_exc', 'decode_exc')}))
            else:
                bump('value: agree')
                if isinstance(mt, list):
                    distinct.add(json.dumps([c['v'], mt]))
                if len(samples) < 6 and isinstance(mt, list) and len(json.dumps(c['v'])) < 160 and 'int64' in json.dumps(mt):
                    samples.append({'value': c['v'], 'imputed': mt})
    _correspond_tables(ctx, tcases, dis, bump, samples, distinct)
    return Corr(evaluations=len(allcases), distinct_nontrivial=len(distinct),
                rule='corpus + seeded random typed programs (a fraction deliberately mixing numeric types / ill-typed) and Python values '
                     '(nested lists/tuples/Structs with None, bools, ints at the int32/int64 borders, floats, strs); compared with the '
                     'model: accepted or rejected, dtype, emitted IR up to renumbering of generated names, IR type cached and recomputed '
                     'with deep_typecheck=True; imputed type, literal dtype, typecheck, encodability; Table / MatrixTable programs '
                     '(structured families: chains of annotate/select/drop/key_by/filter/globals, MatrixTable axes, lookups by point '
                     'keys, multi-field keys, key prefixes, interval keys with all_matches both ways, MatrixTable rows/cols/entries as '
                     'source or target, joins): accepted or rejected, reported table type, emitted relational IR up to the numbering '
                     'of generated names, Coq strict type vs the independent Python strict checker; non-trivial = distinct emitted IRs '
                     'containing a conversion or a join node, or distinct compound values with their imputed type',
                samples=samples, disagreements=dis, histograms={'outcome': dict(sorted(hist.items()))},
                names=['elab~front end', 'fe_type~dtype', 'to_ir~emitted IR', 'ir_type~IR.typ', 'impute~impute_type', 'has_type~typecheck/encode',
                       'telab~front end (tables)', 'reported~Table/MatrixTable types', 'emitted~relational IR', 'strict_type~strict_rel'])


JOINS = ('TableLeftJoinRightDistinct', 'TableIntervalJoin', 'MatrixAnnotateRowsTable', 'MatrixAnnotateColsTable', 'TableJoin')


def _has_join(term):
    return term[0][0] in JOINS or any(_has_join(c) for c in term[1])


def _py_strict(term):
    try:
        return TL.strict_rel(term), None
    except TL.IllTyped as ex:
        return None, ex.why


def _correspond_tables(ctx, tcases, dis, bump, samples, distinct):
    exprs, idx, namess = [], [], []
    for i, (c, r) in enumerate(tcases):
        n = TL.TNames()
        try:
            exprs.append('outt ' + TL.to_coq(c['prog'], n))
            idx.append(i)
            namess.append(n)
        except TL.OutsideModel as ex:
            bump('table: outside the model (' + str(ex) + ')')
    model = coq_eval(ctx, THEADER, exprs, shard=120, label='corrtab') if exprs else []
    shown = 0
    for i, m, n in zip(idx, model, namess):
        c, r = tcases[i]
        if 'outside' in r or 'ir_outside' in r:
            if m is not None:
                dis.append(Disagreement('telab~front end (tables)', c, 'model covers the program', {k: r.get(k) for k in ('outside', 'ir_outside')}))
            else:
                bump('table: outside the exported subset')
            continue
        if 'rejected' in r:
            if m is None:
                bump('table: both reject')
            else:
                dis.append(Disagreement('telab~front end (tables)', c, 'model accepts with ' + json.dumps(TL.coq_to_rty(m[1][0], n)), r))
            continue
        if m is None:
            dis.append(Disagreement('telab~front end (tables)', c, 'model rejects', {'reported': r.get('reported')}))
            continue
        t_, x_, st, guard = m[1]
        mt = TL.coq_to_rty(t_, n)
        mir = TL.canon_uids(TL.coq_to_rir(x_, n))
        rir = TL.canon_uids(r['ir'])
        mst = None if st is None else TL.coq_to_rty(st[1], n)
        if guard is True and mst != mt:
            raise HarnessError(f'model contradicts its own theorem on {json.dumps(c)[:300]}')
        pst, why = _py_strict(rir)
        if mt != r['reported']:
            dis.append(Disagreement('reported~Table/MatrixTable types', c, mt, r['reported']))
        elif mir != rir:
            dis.append(Disagreement('emitted~relational IR', c, mir, rir))
        elif mst != pst:
            dis.append(Disagreement('strict_type~strict_rel', c, mst, {'python': pst, 'why': why}))
        else:
            bump('table: agree' if guard is True else 'table: agree (model and checker both find the emitted IR ill-typed: known finding)')
            if _has_join(rir) or 'Apply' in json.dumps(rir):
                distinct.add(json.dumps(rir))
            if shown < 3 and _has_join(rir) and len(r['text']) < 900:
                shown += 1
                samples.append({'program': c['prog'], 'reported': r['reported'], 'ir': r['text']})


# ------------------------------------------------------------------------------------------------ oracle (implementation only)

def _join_root_types(term, acc):
    """The type each join node gives its root field, by the independent strict rules."""
    h, cs = term
    if h[0] in JOINS[:4]:
        t, _ = _py_strict(term)
        if t is not None:
            fs = dict((f, x) for f, x in (t['col'] if h[0] == 'MatrixAnnotateColsTable' else t['row']))
            acc.append(fs.get(h[1]))
    for c in cs:
        if c and isinstance(c[0], list) and c[0] and isinstance(c[0][0], str) and (c[0][0].startswith('Table') or c[0][0].startswith('Matrix')):
            _join_root_types(c, acc)
    return acc


def _judge_table(c, r):
    if 'outside' in r:
        return None
    if 'rejected' in r:
        if r['rejected'] == 'AssertionError' and any(w in ('assign_type', 'compute_type', '_compute_type') for w in r.get('where', [])):
            return Failure('table-frontend-type-assertion', 'the front end computed a type its own IR typing contradicts', c, 'reported type = IR type', r)
        return None
    rep_ = r['reported']
    if r.get('typ') != rep_:
        return Failure('table-reported-differs-from-ir-typ', 'the dtypes the Table / MatrixTable hands out are not the type of its IR', c, rep_, r.get('typ'))
    if 'deep_exc' in r:
        return Failure(f'table-deep-typecheck-fails:{r["deep_exc"]["type"]}',
                       'recomputing the relational IR\'s type from scratch (deep_typecheck: every value IR re-typed in the environment '
                       'its node binds, every declared reference type checked) fails', c, rep_, {**r['deep_exc'], 'lookups': r.get('lookups'), 'ir': r.get('text')})
    if 'deep' in r and r['deep'] != rep_:
        return Failure('table-reported-differs-from-deep-type', 'the reported type is not the type recomputed from the emitted IR', c, rep_, r['deep'])
    if 'ir' not in r:
        return None
    term = TL.canon_uids(r['ir'])
    st, why = _py_strict(term)
    if st is None:
        return Failure('table-ir-ill-typed:' + why, 'the front end accepts the program and reports a type, but the relational IR it emits has '
                       'no type under the engine\'s rules (TypeCheck / type constructors would reject it)', c, rep_, {'why': why, 'ir': r.get('text')})
    if st != rep_:
        return Failure('table-reported-differs-from-strict-ir-type', 'the reported type is not the type of the emitted IR under the independent strict rules',
                       c, rep_, {'strict': st, 'ir': r.get('text')})
    roots = _join_root_types(term, [])
    for d in r.get('lookups', []):
        if d != 'outside' and d not in roots:
            return Failure('lookup-dtype-differs-from-join-field-type', 'the dtype of a lookup expression is not the type the join node gives its field',
                           c, d, {'join fields': roots, 'ir': r.get('text')})
    return None


def _judge(c, r):
    if c['kind'] == 'table':
        return _judge_table(c, r)
    if c['kind'] == 'expr':
        if 'outside' in r:
            if r.get('deep_equal') is False:
                return Failure('dtype-differs-from-ir-type:outside-model', 'a program outside the modelled subset: the type the front end reports is not the '
                               'type recomputed from the IR it emitted', c, (r.get('types') or [None])[0], {'types': r.get('types'), 'ir': r.get('text')})
            if 'deep_exc' in r and any(w in ('compute_type', '_compute_type', 'assign_type') for w in r['deep_exc'].get('where', [])):
                return Failure('deep-typecheck-fails:outside-model', 'a program outside the modelled subset: recomputing the IR\'s type from scratch fails',
                               c, None, {**r['deep_exc'], 'ir': r.get('text')})
            return None
        if 'rejected' in r:
            if r['rejected'] == 'AssertionError' and any(w in ('assign_type', 'compute_type') for w in r.get('where', [])):
                return Failure('frontend-type-assertion', 'the front end computed a type its own IR typing contradicts (assertion in assign_type)',
                               c, 'dtype = IR type', r)
            return None
        if 'deep_exc' in r:
            return Failure(f'deep-typecheck-fails:{r["deep_exc"]["type"]}', 'recomputing the IR\'s type from scratch (deep_typecheck) fails',
                           c, r['dtype'], r['deep_exc'])
        st = L.strict_ir_type(r['ir'])
        if st != r['dtype'] or r.get('irtyp') != r['dtype'] or r.get('deep') != r['dtype']:
            return Failure('dtype-differs-from-ir-type', 'the type the front end reports is not the type of the IR it emitted',
                           c, r['dtype'], {'strict': st, 'typ': r.get('irtyp'), 'deep': r.get('deep'), 'ir': r.get('text')})
        return None
    if 'impute_rejected' in r or 'outside' in r:
        return None
    if 'literal_exc' in r:
        return Failure(f'literal-rejects-imputed-type:{r["literal_exc"]["type"]}', 'hl.literal fails on a value whose type impute_type produced',
                       c, r['imputed'], r['literal_exc'])
    if r.get('literal_dtype') != r['imputed']:
        return Failure('literal-dtype-differs', 'hl.literal carries another type than impute_type returned', c, r['imputed'], r.get('literal_dtype'))
    if 'encode_exc' in r:
        return Failure(f'literal-not-encodable:{r["encode_exc"]["type"]}', 'a literal the front end accepted cannot be encoded as its own type',
                       c, r['imputed'], r['encode_exc'])
    if 'decode_exc' in r or r.get('reencode_same') is False:
        return Failure('literal-encoding-does-not-round-trip', 'encoded literal does not decode to a value of the type', c, r['imputed'],
                       r.get('decode_exc', 're-encoding differs'))
    if r.get('typecheck') is not True:
        return Failure('typecheck-rejects-accepted-literal', 'HailType.typecheck fails on a value hl.literal accepts with that type',
                       c, r['imputed'], r.get('typecheck'))
    return None


def oracle(ctx, budget):
    sys.setrecursionlimit(100000)
    cases = _cases(ctx, ctx.scale(800, 15000) * budget, ctx.scale(800, 15000) * budget, ctx.scale(500, 6000) * budget)
    res = _run_impl(ctx, cases)
    fails, nontrivial = [], set()
    for c, r in zip(cases, res):
        f = _judge(c, r)
        if f is not None:
            fails.append(f)
        elif 'ir' in r and ('Apply' in json.dumps(r['ir']) or (c['kind'] == 'table' and _has_join(r['ir']))):
            nontrivial.add(json.dumps(r['ir']))
        elif isinstance(r.get('imputed'), list):
            nontrivial.add(json.dumps([c['v'], r['imputed']]))
    fails.sort(key=lambda f: len(json.dumps(f.case)))
    return fails, {'evaluations': len(cases), 'distinct_nontrivial': len(nontrivial),
                   'rule': 'oracle: dtype = IR.typ = deep-recomputed type = type under an independent strict IR checker; literals build, '
                           'encode, decode, re-encode identically and pass HailType.typecheck; tables / matrix tables: reported dtypes = '
                           'tir.typ = type recomputed with deep_typecheck = type under the independent strict relational rules, and the dtype '
                           'of every lookup expression = the type its join node gives the joined field'}


def replay(ctx, doc):
    case = doc['case']
    r = _run_impl(ctx, [case])[0]
    f = _judge(case, r)
    return {'case': case, 'front_end': r, 'verdict': None if f is None else {'key': f.key, 'what': f.what, 'observed': f.observed}}
