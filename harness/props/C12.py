"""C12 — resource requests are never under-provisioned.

Tie: T + X.
  T  coq/generated/C12/Gen.v: the arithmetic helpers of batch/batch/cloud/resource_utils.py, cloud/{gcp,azure}/resource_utils.py
     and PoolConfig.convert_requests_to_resources (specialised per cloud) translated by harness/translate/c12_arith.py with
     floats read as exact rationals; the memory-per-core / worker-core / machine tables read from the imported modules.
     Resources/Lemmas.v proves the properties of the generated definitions.
  X  * float-vs-exact: the real helpers against the generated definitions, EXHAUSTIVELY for adjust_cores_for_packability over
       [-5, 2^21] (checked on the implementation side against the same integer formula, and by vm_compute on a grid), at all
       packable boundaries for the memory adjustment, at GiB boundaries for storage;
     * InstanceCollectionConfigs.select_inst_coll (hand model Resources/Select.v) against the real class built from generated
       pool configurations (both clouds, labels, preemptibility, worker types, job-private).
"""
import ast

from harness.core import Corr, Disagreement, Failure, TieBroken, coq_eval, zlit, listlit
from harness.translate import c12_arith as A

ID = 'C12'
SRC_COMMON = 'batch/batch/cloud/resource_utils.py'
SRC_GCP = 'batch/batch/cloud/gcp/resource_utils.py'
SRC_AZURE = 'batch/batch/cloud/azure/resource_utils.py'
SRC_ICC = 'batch/batch/inst_coll_config.py'
COQ_PROPS = 'theories/Resources/Props_C12.v'
READY = True
META = dict(
    design_ref='§5.B C12',
    technique='Coq proofs about the resource-arithmetic helpers translated from the Python source (floats read as exact rationals, fail-closed '
              'translator) and about a hand model of select_inst_coll; the float-vs-exact step validated exhaustively over the finite core-count '
              'domain and at all packable / GiB boundaries; select_inst_coll tied by differential execution of the real class',
    level_text='Machine-checked theorems (Coq 8.16, closed under the global context): adjust_cores_for_packability returns the LEAST packable core '
               'count (250 mcpu * 2^k) covering the request, for all integers; what PoolConfig.convert_requests_to_resources (regenerated from '
               'source, both clouds) grants is >= the requested cores, memory and storage and fits on one worker (cores <= worker cores, memory <= '
               'worker cores x memory per core), for all requests and all pools with positive memory per core; a pool refuses only if the disk is '
               'beyond the cloud maximum or NO packable grant covering cores and memory fits on its workers; for all pool lists, select_inst_coll '
               '(hand model) places a request only in a collection matching cloud / preemptibility / label (and named worker type; job-private '
               'collection of the same cloud with exactly the machine type\'s cores and memory), and rejects only if no matching collection could '
               'satisfy it; the pool chosen without a named worker type is a cheapest candidate.',
    level_note='Trusted: Coq kernel; translator harness/translate/c12_arith.py (floats -> exact rationals); the hand model of the three select_* '
               'loops (tied by execution, not proved equal); request strings are taken as already parsed (parse_* is property C25). The check '
               'targets the tree with fixes/C12.diff applied: pools with a non-power-of-two worker core count make select_inst_coll raise.',
    partial=False,
)
TRUSTED = ['translator harness/translate/c12_arith.py (Python floats read as exact rationals: a/b, math.ceil, math.log2, 2**p, int())',
           'hand model coq/theories/Resources/Model.v of select_inst_coll / select_pool_from_worker_type / select_cheapest_price_pool / '
           'select_job_private, tied by differential execution of the real class',
           'loader; ProductVersions and resource rates replaced by deterministic tables (they only influence which candidate is cheapest)']
ASSUMPTIONS = ['float exactness: on the inputs that occur, float evaluation of the helpers equals their exact rational meaning — validated '
               'EXHAUSTIVELY for adjust_cores_for_packability over [-5, 2^21] mcpu, and at every packable / GiB / cloud-maximum boundary for the '
               'memory and storage helpers on every run; not proved for binary64',
               'requests arrive parsed: cores in mcpu, memory and storage in bytes (non-negative); symbolic memory (lowmem/standard/highmem) has been '
               'turned into a worker type by the front end',
               'pool configurations are those the configuration form accepts (worker cores from possible_cores_from_worker_type, positive memory per core)']


def _generate_defs(ctx):
    common = ast.parse(ctx.read_repo(SRC_COMMON))
    gcp = ast.parse(ctx.read_repo(SRC_GCP))
    azure = ast.parse(ctx.read_repo(SRC_AZURE))
    icc = ast.parse(ctx.read_repo(SRC_ICC))
    fns = []

    def P(*names):
        return [(n, 'Z') for n in names]

    # ---- cloud specific helpers (the memory-per-core lookup is a parameter `mpc_mib`, its values come from the tables)
    for cloud, tree in (('gcp', gcp), ('azure', azure)):
        consts = A.int_constants(tree)
        mpc_fn = f'{cloud}_worker_memory_per_core_mib'
        mpc_params = [('machine_family', None), ('worker_type', None)] if cloud == 'gcp' else [('worker_type', None)]
        known = {mpc_fn: ('mpc_mib', mpc_params, 'Z')}
        tr = A.Translator(known, consts)
        extra = [('machine_family', None), ('worker_type', None)] if cloud == 'gcp' else [('worker_type', None)]
        fns.append(tr.function(A.find_def(tree, f'{cloud}_requested_to_actual_storage_bytes'), f'{cloud}_requested_to_actual_storage_bytes',
                               [('storage_bytes', 'Z'), ('allow_zero_storage', 'bool')], 'optZ', {}, f'{cloud}/resource_utils.py'))
        pre = {'mpc_mib': ('mpc_mib', 'Z')}
        f = tr.function(A.find_def(tree, f'{cloud}_cores_mcpu_to_memory_bytes'), f'{cloud}_cores_mcpu_to_memory_bytes',
                        [('mpc_mib', 'Z'), ('mcpu', 'Z')] + extra, 'Z', {}, f'{cloud}/resource_utils.py', pre_env=pre)
        fns.append(f)
        f = tr.function(A.find_def(tree, f'{cloud}_adjust_cores_for_memory_request'), f'{cloud}_adjust_cores_for_memory_request',
                        [('mpc_mib', 'Z'), ('cores_in_mcpu', 'Z'), ('memory_in_bytes', 'Z')] + extra, 'Z', {}, f'{cloud}/resource_utils.py', pre_env=pre)
        fns.append(f)
    # ---- common helpers
    cconsts = A.int_constants(common)
    tr = A.Translator({}, cconsts)
    fns.append(tr.function(A.find_def(common, 'adjust_cores_for_packability'), 'adjust_cores_for_packability', P('cores_in_mcpu'), 'Z', {},
                           'cloud/resource_utils.py'))
    fns.append(tr.function(A.find_def(common, 'round_storage_bytes_to_gib'), 'round_storage_bytes_to_gib', P('storage_bytes'), 'Z', {},
                           'cloud/resource_utils.py'))
    for cloud in ('gcp', 'azure'):
        known = {f'{c}_requested_to_actual_storage_bytes': (f'{c}_requested_to_actual_storage_bytes',
                                                             [('storage_bytes', 'Z'), ('allow_zero_storage', 'bool')], 'optZ') for c in ('gcp', 'azure')}
        known['round_storage_bytes_to_gib'] = ('round_storage_bytes_to_gib', [('storage_bytes', 'Z')], 'Z')
        tr = A.Translator(known, cconsts)
        fns.append(tr.function(A.find_def(common, 'requested_storage_bytes_to_actual_storage_gib'),
                               f'requested_storage_bytes_to_actual_storage_gib_{cloud}',
                               [('cloud', None), ('storage_bytes', 'Z'), ('allow_zero_storage', 'bool')], 'optZ', {'cloud': cloud},
                               f'cloud/resource_utils.py specialised to cloud = {cloud}'))
    # ---- PoolConfig.convert_requests_to_resources, per cloud
    for cloud in ('gcp', 'azure'):
        fam = [('machine_family', None), ('worker_type', None)] if cloud == 'gcp' else [('worker_type', None)]
        known = {
            'requested_storage_bytes_to_actual_storage_gib': (f'requested_storage_bytes_to_actual_storage_gib_{cloud}',
                                                              [('cloud', None), ('storage_bytes', 'Z'), ('allow_zero_storage', 'bool')], 'optZ'),
            f'{cloud}_adjust_cores_for_memory_request': (f'{cloud}_adjust_cores_for_memory_request mpc_mib',
                                                          [('cores_in_mcpu', 'Z'), ('memory_in_bytes', 'Z')] + fam, 'Z'),
            f'{cloud}_cores_mcpu_to_memory_bytes': (f'{cloud}_cores_mcpu_to_memory_bytes mpc_mib', [('mcpu', 'Z')] + fam, 'Z'),
            'adjust_cores_for_packability': ('adjust_cores_for_packability', [('cores_in_mcpu', 'Z')], 'Z'),
        }
        tr = A.Translator(known, A.int_constants(icc))
        fns.append(tr.function(A.find_def(icc, 'PoolConfig.convert_requests_to_resources'), f'pool_convert_{cloud}',
                               [('mpc_mib', 'Z'), ('worker_cores', 'Z'), ('self', None), ('cores_mcpu', 'Z'), ('memory_bytes', 'Z'), ('storage_bytes', 'Z')],
                               'opt_tup3', {'self.cloud': cloud}, f'inst_coll_config.py PoolConfig.convert_requests_to_resources, self.cloud = {cloud}',
                               pre_env={'self.worker_cores': ('worker_cores', 'Z'), 'mpc_mib': ('mpc_mib', 'Z'), 'worker_cores': ('worker_cores', 'Z')}))
    return fns


def _tables(ctx):
    return ctx.run_impl('c12_resources.py', {'mode': 'tables'}, timeout=120)


def _render(fns, t):
    out = ['(* GENERATED by harness/props/C12.py from batch/batch/cloud/**/resource_utils.py and batch/batch/inst_coll_config.py — do not edit *)',
           'From Coq Require Import ZArith List String Bool.', 'From HailV Require Import Resources.Arith.', 'Import ListNotations.',
           'Open Scope string_scope.', 'Open Scope Z_scope.', '']
    for f in fns:
        out.append(f.render())

    def cs(s):
        return '"' + s + '"'
    out.append('(* memory per core (MiB) by (cloud, worker type), as returned by *_worker_memory_per_core_mib *)')
    out.append('Definition mpc_table : list (string * string * Z) :=\n  [' + '; '.join(f'({cs(c)}, {cs(w)}, {m})' for c, w, m in t['mpc']) + '].\n')
    out.append('(* possible_cores_from_worker_type *)')
    out.append('Definition pool_cores_table : list (string * string * list Z) :=\n  [' +
               '; '.join(f'({cs(c)}, {cs(w)}, [{"; ".join(map(str, cores))}])' for c, w, cores in t['pool_cores']) + '].\n')
    out.append('(* machine_type_to_cores_and_memory_bytes for every valid machine type *)')
    out.append('Definition machine_table : list (string * string * Z * Z) :=\n  [' +
               ';\n   '.join(f'({cs(c)}, {cs(m)}, {cores}, {mem})' for c, m, cores, mem in t['machines']) + '].\n')
    out.append(f'Definition max_storage_gib_gcp : Z := {t["max_storage_gib"]["gcp"]}.')
    out.append(f'Definition max_storage_gib_azure : Z := {t["max_storage_gib"]["azure"]}.\n')
    return '\n'.join(out) + '\n'


def generate(ctx):
    fns = _generate_defs(ctx)
    t = _tables(ctx)
    ctx.c12_tables = t
    ctx.write_generated('Gen.v', _render(fns, t))


# ------------------------------------------------------------------------------------------------ cases

GIB = 1 << 30
MIB = 1 << 20


def _get_tables(ctx):
    if not hasattr(ctx, 'c12_tables'):
        ctx.c12_tables = _tables(ctx)
    return ctx.c12_tables


def _sweep(ctx):
    if not hasattr(ctx, 'c12_sweep'):
        ctx.c12_sweep = ctx.run_impl('c12_resources.py', {'mode': 'sweep', 'lo': -5, 'hi': 2 ** 21}, timeout=600)
    return ctx.c12_sweep


def _helper_calls(ctx, n_random):
    t = _get_tables(ctx)
    rng = ctx.rng
    calls = []
    for k in range(0, 15):
        for d in (-2, -1, 0, 1, 2):
            calls.append(['pack', [250 * 2 ** k + d]])
    calls += [['pack', [c]] for c in (-1000, -1, 0, 1, 2, 249, 333, 334, 999, 1001, 2 ** 21, 2 ** 21 + 1, 10 ** 7, 10 ** 9)]
    for cloud in ('gcp', 'azure'):
        mx = t['max_storage_gib'][cloud]
        pts = {0, 1, GIB - 1, GIB, GIB + 1, 10 * GIB - 1, 10 * GIB, 10 * GIB + 1, 11 * GIB, 375 * GIB + 5, mx * GIB - 1, mx * GIB, mx * GIB + 1, 2 ** 53 + 1}
        for _ in range(n_random // 8):
            g = rng.choice([rng.randint(0, 64), rng.randint(0, mx + 5)])
            pts.add(g * GIB + rng.choice([-1, 0, 1, rng.randint(0, GIB - 1)]))
        for b in sorted(p for p in pts if p >= 0):
            for allow in (True, False):
                calls.append(['storage_gib', [cloud, b, allow]])
    for cloud, wt, mpc in t['mpc']:
        B = mpc * MIB
        wcs = next(c for cl, w, c in t['pool_cores'] if cl == cloud and w == wt)
        for k in range(0, 11):
            c = 250 * 2 ** k
            calls.append(['mem_of', [cloud, wt, c]])
            m0 = c * B // 1000
            for dm in (-1, 0, 1):
                for c0 in (250, c):
                    calls.append(['adjust_mem', [cloud, wt, c0, m0 + dm]])
                for wc in (wcs[0], wcs[-1]):
                    calls.append(['convert', [cloud, wt, wc, rng.choice([250, 1000, c]), max(0, m0 + dm), rng.choice([0, 5 * GIB, 20 * GIB + 1])]])
        for _ in range(n_random // 6):
            c = rng.choice([250 * 2 ** rng.randint(0, 9), rng.randint(1, 70000)])
            m = rng.choice([rng.randint(0, 700 * GIB), rng.randint(0, 8 * GIB), rng.randint(1, 400) * 10 ** rng.randint(6, 9), rng.randint(1, 500) * MIB])
            s = rng.choice([0, rng.randint(0, 100 * GIB), rng.randint(0, 2 ** 47)])
            calls.append(['adjust_mem', [cloud, wt, c, m]])
            calls.append(['convert', [cloud, wt, rng.choice(wcs), c, m, s]])
    return calls


def _mpc_of(t, cloud, wt):
    return next(m for c, w, m in t['mpc'] if c == cloud and w == wt)


def _helper_exprs(ctx, calls):
    t = _get_tables(ctx)
    ex = []
    for name, a in calls:
        if name == 'pack':
            ex.append(f'G.adjust_cores_for_packability {zlit(a[0])}')
        elif name == 'storage_gib':
            ex.append(f'G.requested_storage_bytes_to_actual_storage_gib_{a[0]} {zlit(a[1])} {"true" if a[2] else "false"}')
        elif name == 'adjust_mem':
            ex.append(f'G.{a[0]}_adjust_cores_for_memory_request {_mpc_of(t, a[0], a[1])} {zlit(a[2])} {zlit(a[3])}')
        elif name == 'mem_of':
            ex.append(f'G.{a[0]}_cores_mcpu_to_memory_bytes {_mpc_of(t, a[0], a[1])} {zlit(a[2])}')
        elif name == 'convert':
            ex.append(f'G.pool_convert_{a[0]} {_mpc_of(t, a[0], a[1])} {a[2]} {zlit(a[3])} {zlit(a[4])} {zlit(a[5])}')
    return ex


def _norm_model(v):
    if v is None:
        return None
    if isinstance(v, tuple) and v and v[0] == 'Some':
        x = v[1]
        return list(x) if isinstance(x, tuple) else x
    return v


def _scenarios(ctx, n_scen, n_req):
    t = _get_tables(ctx)
    rng = ctx.rng
    labels = ['', 'gpu', 'big']
    out = []
    machines = {c: [(m, cores, mem) for cl, m, cores, mem in t['machines'] if cl == c] for c in ('gcp', 'azure')}
    wts = {c: [w for cl, w, _ in t['mpc'] if cl == c] for c in ('gcp', 'azure')}
    for si in range(n_scen):
        main_cloud = rng.choice(['gcp', 'azure'])
        pools = []
        for pi in range(rng.randint(0, 6)):
            cloud = main_cloud if rng.random() < 0.85 else ('azure' if main_cloud == 'gcp' else 'gcp')
            wt = rng.choice(wts[cloud])
            cores = rng.choice(next(c for cl, w, c in t['pool_cores'] if cl == cloud and w == wt))
            pools.append(dict(name=f'pool{pi}', cloud=cloud, worker_type=wt, worker_cores=cores, preemptible=rng.random() < 0.7,
                              label=rng.choice(labels[:2] if rng.random() < 0.8 else labels), local_ssd=rng.random() < 0.5, ext_ssd=rng.choice([0, 100, 375])))
        if pools and rng.random() < 0.4:
            # two pools of one worker type (same cloud / preemptibility / label) with different worker sizes, in either order:
            # a request must be tried against EVERY matching pool
            p0 = rng.choice(pools)
            sizes = [c for c in next(c for cl, w, c in t['pool_cores'] if cl == p0['cloud'] and w == p0['worker_type']) if c != p0['worker_cores']]
            if sizes:
                twin = dict(p0, name=f'pool{len(pools)}', worker_cores=rng.choice(sizes))
                pools.insert(rng.randint(0, len(pools)), twin)
                for pi, q in enumerate(pools):
                    q['name'] = f'pool{pi}'
        reqs = []
        for _ in range(n_req):
            cloud = main_cloud if rng.random() < 0.9 else ('azure' if main_cloud == 'gcp' else 'gcp')
            kind = rng.choice(['wt', 'cheap', 'cheap', 'mt'])
            r = dict(cloud=cloud, label=rng.choice(labels[:2]), preemptible=rng.random() < 0.7,
                     storage=rng.choice([0, 0, rng.randint(0, 50) * GIB, rng.randint(0, 400 * GIB), t['max_storage_gib'][cloud] * GIB + rng.choice([0, 1]), 10 * GIB + 1]))
            if kind == 'mt':
                m, cores, mem = rng.choice(machines[cloud])
                r.update(machine_type=m, mt_cores=cores, mt_memory=mem)
            else:
                c = 250 * 2 ** rng.randint(0, 9)
                r['cores'] = c
                if kind == 'wt':
                    wt = rng.choice(wts[cloud])
                    same = [q for q in pools if q['cloud'] == cloud]
                    if same and rng.random() < 0.5:      # aim at a configured pool (its label and preemptibility too)
                        q = rng.choice(same)
                        wt = q['worker_type']
                        r['label'], r['preemptible'] = q['label'], q['preemptible']
                    r['worker_type'] = wt
                    r['memory'] = c * _mpc_of(t, cloud, wt) * MIB // 1000
                else:
                    r['memory'] = rng.choice([rng.randint(0, 8 * GIB), rng.randint(0, 700 * GIB), c * rng.choice([924, 3840, 6656, 2048, 4096, 8192]) * MIB // 1000 + rng.choice([-1, 0, 1]),
                                              rng.randint(1, 64) * GIB])
                    r['memory'] = max(0, r['memory'])
            reqs.append(r)
        out.append(dict(pools=pools, jpim_cloud=main_cloud if rng.random() < 0.9 else 'azure', salt=str(si), requests=reqs,
                        locations=rng.choice([['us-central1'], ['us-central1', 'europe-west1']])))
    return out


def _run_select(ctx, scen):
    res = []
    for i in range(0, len(scen), 50):
        res += ctx.run_impl('c12_resources.py', {'mode': 'select', 'scenarios': scen[i:i + 50]}, timeout=600)['results']
    return res


SEL_HEADER = ('From HailV Require Import Common.Prelude Resources.Arith Resources.Model Resources.GenLemmas.\nFrom HailG Require C12.Gen.\n'
              'Open Scope Z_scope.\n')


def _select_expr(ctx, sc, r, prices):
    t = _get_tables(ctx)
    labels = {'': 0, 'gpu': 1, 'big': 2}
    wt_id = {(c, w): i for i, (c, w, _) in enumerate(t['mpc'])}
    ranks = {p: i for i, p in enumerate(sorted({x for x in prices if x is not None}))}
    ps = []
    for i, p in enumerate(sc['pools']):
        pr = ranks[prices[i]] if prices and prices[i] is not None else 0
        ps.append(f'(mkPool {i} {"true" if p["cloud"] == "gcp" else "false"} {wt_id[(p["cloud"], p["worker_type"])]} {p["worker_cores"]} '
                  f'{"true" if p["preemptible"] else "false"} {labels[p["label"]]} {_mpc_of(t, p["cloud"], p["worker_type"])} {pr})')
    gcp = 'true' if r['cloud'] == 'gcp' else 'false'
    if 'machine_type' in r:
        rq = f'(ByMachineType {r["mt_cores"]} {r["mt_memory"]})'
    elif 'worker_type' in r:
        rq = f'(ByWorkerType {wt_id[(r["cloud"], r["worker_type"])]} {zlit(r["cores"])} {zlit(r["memory"])})'
    else:
        rq = f'(Cheapest {zlit(r["cores"])} {zlit(r["memory"])})'
    return (f'select {listlit(ps)} 1000 {"true" if sc["jpim_cloud"] == "gcp" else "false"} {gcp} {labels[r["label"]]} '
            f'{"true" if r["preemptible"] else "false"} {rq} {zlit(r["storage"])}')


def _impl_select_norm(sc, got):
    if got is None or isinstance(got, str):
        return got
    name = got[0]
    nid = 1000 if name == 'job-private' else next(i for i, p in enumerate(sc['pools']) if p['name'] == name)
    return [nid, got[1], got[2], got[3]]


def correspond(ctx):
    dis = []
    # (a) exhaustive: adjust_cores_for_packability against its specification (= what C12_packability_least proves of the model)
    hi = 2 ** 21
    sw = _sweep(ctx)
    for c, want, got in sw['bad']:
        dis.append(Disagreement('least-packable-spec~adjust_cores_for_packability (exhaustive sweep)', [c], want, got))
    # (b) generated helpers vs the real ones
    calls = _helper_calls(ctx, ctx.scale(300, 4000))
    impl = ctx.run_impl('c12_resources.py', {'mode': 'helpers', 'calls': calls}, timeout=600)['results']
    model = coq_eval(ctx, SEL_HEADER, _helper_exprs(ctx, calls), shard=500)
    hist = {}
    for (name, a), m, i in zip(calls, model, impl):
        hist[name] = hist.get(name, 0) + 1
        m = _norm_model(m)
        if m != i:
            dis.append(Disagreement(f'Gen.{name}~resource_utils', [name, a], m, i))
    # (c) select_inst_coll
    scen = _scenarios(ctx, ctx.scale(40, 400), 12)
    res = _run_select(ctx, scen)
    exprs, meta = [], []
    for sc, rs in zip(scen, res):
        for r, out in zip(sc['requests'], rs):
            exprs.append(_select_expr(ctx, sc, r, out['prices']))
            meta.append((sc, r, out))
    sel = coq_eval(ctx, SEL_HEADER, exprs, shard=250)
    distinct = set()
    for (sc, r, out), m in zip(meta, sel):
        m = _norm_model(m)
        i = _impl_select_norm(sc, out['result'])
        kind = 'mt' if 'machine_type' in r else 'wt' if 'worker_type' in r else 'cheap'
        hist['select:' + kind] = hist.get('select:' + kind, 0) + 1
        distinct.add(json_key((sc['pools'], r)))
        if m != i:
            dis.append(Disagreement('Select.select_inst_coll~InstanceCollectionConfigs.select_inst_coll',
                                    {'pools': sc['pools'], 'jpim_cloud': sc['jpim_cloud'], 'request': r, 'salt': sc['salt'], 'locations': sc['locations']}, m, i))
    return Corr(evaluations=sw['checked'] + len(calls) + len(exprs), distinct_nontrivial=len(distinct) + len(calls),
                rule=f'adjust_cores_for_packability swept exhaustively over [-5, {hi}] against the least-packable specification; the real helpers vs '
                     'the generated Gallina (boundaries of every packable count / GiB / cloud maximum + seeded random); select_inst_coll of the real '
                     'class (generated pool configurations, prices from the real price function) vs the hand model',
                samples=[{'request': meta[0][1], 'result': meta[0][2]['result']}] if meta else [], disagreements=dis,
                histograms={'calls': hist}, exhaustive=False,
                names=['least-packable-spec~adjust_cores_for_packability', 'Gen.helpers~resource_utils',
                       'Select.select_inst_coll~InstanceCollectionConfigs.select_inst_coll'])


def json_key(x):
    import json
    return json.dumps(x, sort_keys=True)


# ------------------------------------------------------------------------------------------------ oracle

def _packables(limit):
    g = 250
    while g <= limit:
        yield g
        g *= 2


def _check_select(t, sc, r, got):
    """the property on one answer of the real select_inst_coll"""
    case = {'pools': sc['pools'], 'jpim_cloud': sc['jpim_cloud'], 'request': {k: v for k, v in r.items()}, 'salt': sc['salt'], 'locations': sc['locations']}
    if isinstance(got, str):
        return ('select-raises', f'select_inst_coll raised {got}', case, 'a placement or None', got)
    mx = t['max_storage_gib']
    if 'machine_type' in r:
        ok_possible = sc['jpim_cloud'] == r['cloud'] and r['storage'] <= mx[sc['jpim_cloud']] * GIB
        if got is None:
            if ok_possible:
                return ('rejected-though-satisfiable', 'machine-type request rejected although the job-private collection can serve it', case, 'a placement', None)
            return None
        name, gc, gm, gs = got
        if name != 'job-private' or gc != r['mt_cores'] * 1000 or gm != r['mt_memory'] or gs * GIB < r['storage'] or sc['jpim_cloud'] != r['cloud']:
            return ('under-provisioned', 'job-private placement does not give the machine / the storage asked for', case,
                    [r['mt_cores'] * 1000, r['mt_memory'], f'>= {r["storage"]} bytes'], got)
        return None
    cands = [p for p in sc['pools'] if p['cloud'] == r['cloud'] and p['preemptible'] == r['preemptible'] and p['label'] == r['label']
             and ('worker_type' not in r or p['worker_type'] == r['worker_type'])]

    def can(p):
        B = _mpc_of(t, p['cloud'], p['worker_type']) * MIB
        if r['storage'] > mx[p['cloud']] * GIB:
            return False
        return any(g >= r['cores'] and g * B >= r['memory'] * 1000 for g in _packables(p['worker_cores'] * 1000))
    if got is None:
        able = [p['name'] for p in cands if can(p)]
        if able:
            return ('rejected-though-satisfiable', f'request rejected although {able} could serve it', case, 'a placement', None)
        return None
    name, gc, gm, gs = got
    p = next((q for q in cands if q['name'] == name), None)
    if p is None:
        return ('wrong-collection', 'placed in a collection that does not match cloud / preemptibility / label / worker type', case, [q['name'] for q in cands], name)
    B = _mpc_of(t, p['cloud'], p['worker_type']) * MIB
    if gc < r['cores'] or gm < r['memory'] or gs * GIB < r['storage']:
        return ('under-provisioned', 'granted cores / memory / storage below the request', case, [r['cores'], r['memory'], r['storage']], got)
    if gc > p['worker_cores'] * 1000 or gm > p['worker_cores'] * B:
        return ('does-not-fit', 'grant does not fit on one worker of the pool', case, [p['worker_cores'] * 1000, p['worker_cores'] * B], got)
    return None


def _check_helper(t, name, a, got):
    if isinstance(got, str):
        return ('helper-raises', f'{name}{a} raised {got}', [name, a], 'a value', got)
    if name == 'storage_gib':
        cloud, b, allow = a
        if got is None:
            if b <= t['max_storage_gib'][cloud] * GIB:
                return ('storage-rejected', 'storage within the cloud maximum rejected', [name, a], 'GiB', None)
            return None
        if got * GIB < b:
            return ('storage-under', 'granted storage below the request', [name, a], f'>= {b}', got * GIB)
        if b > t['max_storage_gib'][cloud] * GIB:
            return ('storage-over-max', 'storage above the cloud maximum accepted', [name, a], None, got)
    if name == 'adjust_mem':
        cloud, wt, c, m = a
        B = _mpc_of(t, cloud, wt) * MIB
        if got < c or got * B < m * 1000:
            return ('memory-under', 'cores after memory adjustment do not carry the requested memory', [name, a], f'>= ceil({m}*1000/{B})', got)
    if name == 'convert' and got is not None:
        cloud, wt, wc, c, m, s = a
        B = _mpc_of(t, cloud, wt) * MIB
        if got[0] < c or got[1] < m or got[2] * GIB < s or got[0] > wc * 1000 or got[1] > wc * B:
            return ('under-provisioned', 'pool grant below the request or beyond the worker', [name, a], [c, m, s], got)
    if name == 'convert' and got is None:
        cloud, wt, wc, c, m, s = a
        B = _mpc_of(t, cloud, wt) * MIB
        if s <= t['max_storage_gib'][cloud] * GIB and any(g >= c and g * B >= m * 1000 for g in _packables(wc * 1000)):
            return ('rejected-though-satisfiable', 'pool refuses a request a packable grant could serve', [name, a], 'a grant', None)
    return None


def oracle(ctx, budget):
    t = _get_tables(ctx)
    fails = []
    sw = _sweep(ctx)
    for c, want, got in sw['bad']:
        fails.append(Failure('packability-not-least', f'adjust_cores_for_packability({c}) = {got}, least packable count is {want}', ['pack', [c]], want, got))
    calls = _helper_calls(ctx, ctx.scale(200, 4000) * budget)
    impl = ctx.run_impl('c12_resources.py', {'mode': 'helpers', 'calls': calls}, timeout=600)['results']
    for (name, a), got in zip(calls, impl):
        r = _check_helper(t, name, a, got)
        if r:
            fails.append(Failure(r[0], r[1], r[2], r[3], r[4]))
    scen = _scenarios(ctx, ctx.scale(60, 600) * budget, 12)
    res = _run_select(ctx, scen)
    n = 0
    for sc, rs in zip(scen, res):
        for r, out in zip(sc['requests'], rs):
            n += 1
            x = _check_select(t, sc, r, out['result'])
            if x:
                fails.append(Failure(x[0], x[1], x[2], x[3], x[4]))
    fails.sort(key=lambda f: len(json_key(f.case)))
    return fails, {'evaluations': sw['checked'] + len(calls) + n, 'distinct_nontrivial': len(calls) + n,
                   'rule': 'oracle on the real code: least packable count (exhaustive sweep), storage / memory adjustment cover the request in exact '
                           'integer arithmetic, every answer of select_inst_coll grants >= request on a matching collection and fits, every rejection '
                           'checked by brute force over all packable grants of all matching pools'}


def replay(ctx, doc):
    t = _get_tables(ctx)
    case = doc.get('case')
    if isinstance(case, list) and len(case) == 2 and isinstance(case[0], str):
        got = ctx.run_impl('c12_resources.py', {'mode': 'helpers', 'calls': [case]})['results'][0]
        model = _norm_model(coq_eval(ctx, SEL_HEADER, _helper_exprs(ctx, [case]))[0]) if case[0] != 'pack' or True else None
        r = _check_helper(t, case[0], case[1], got)
        return {'call': case, 'impl': got, 'model': model, 'violation': None if r is None else {'key': r[0], 'what': r[1]}}
    if isinstance(case, list) and len(case) == 1:
        got = ctx.run_impl('c12_resources.py', {'mode': 'helpers', 'calls': [['pack', case]]})['results'][0]
        return {'call': ['pack', case], 'impl': got}
    sc = dict(pools=case['pools'], jpim_cloud=case['jpim_cloud'], salt=case.get('salt', ''), locations=case.get('locations', ['us-central1']), requests=[case['request']])
    out = _run_select(ctx, [sc])[0][0]
    m = _norm_model(coq_eval(ctx, SEL_HEADER, [_select_expr(ctx, sc, case['request'], out['prices'])])[0])
    x = _check_select(t, sc, case['request'], out['result'])
    return {'case': case, 'impl': out['result'], 'impl_normalised': _impl_select_norm(sc, out['result']), 'model': m,
            'violation': None if x is None else {'key': x[0], 'what': x[1]}}
