"""C12 — resource requests are never under-provisioned.

Tie: T + X.
  T  coq/generated/C12/Gen.v: the arithmetic helpers of batch/batch/cloud/resource_utils.py, cloud/{gcp,azure}/resource_utils.py
     and PoolConfig.convert_requests_to_resources (specialised per cloud) translated by harness/translate/c12_arith.py with
     floats read as exact rationals; the memory-per-core / worker-core / machine tables read from the imported modules.
     Resources/Lemmas.v proves the properties of the generated definitions.
  X  * float-vs-exact: the real helpers against the generated definitions, EXHAUSTIVELY for adjust_cores_for_packability over
       [-5, 2^21] (checked on the implementation side against the same integer formula, and by vm_compute on a grid), at all
       packable boundaries for the memory adjustment; for storage (round_storage_bytes_to_gib and
       requested_storage_bytes_to_actual_storage_gib of both clouds) at byte counts one byte / KiB / MiB either side of GiB
       boundaries, KiB- and MiB-multiples that are not GiB-multiples, decimal sizes, the clouds' maxima, the float-exact ceiling 2^53-1;
     * storage request STRINGS of the job schema (10.5Gi, 20G, 10241Mi, ...): real parse_storage_in_bytes + real conversion against
       the model fed with the exactly re-read byte count;
     * InstanceCollectionConfigs.select_inst_coll (hand model Resources/Select.v) against the real class built from generated
       pool configurations (both clouds, labels, preemptibility, worker types, job-private; storage as bytes or as strings).
Oracle (implementation only, exact Python ints / Fractions, judged by output values): least packable count (exhaustive); storage swept
     around EVERY GiB boundary of a dense range of GiB counts (_storage_sweep): granted GiB * 2^30 >= requested bytes
     [storage-rounding-under / storage-under / storage-string-under], least such whole number given the 10 GiB minimum
     [storage-rounding-not-least / storage-not-least / storage-below-minimum: more than the property text, judged only when a proof or
     the tie is already broken, see _STRICT], refused only above the cloud maximum
     [storage-rejected / storage-over-max], accepted by the worker and given at least that many bytes of disk quota
     [storage-grant-invalid / storage-quota-under]; memory adjustment; every answer of select_inst_coll.
"""
import ast

from harness.core import Corr, Disagreement, Failure, TieBroken, coq_eval, zlit, listlit
from harness.translate import c12_arith as A

ID = 'C12'
SRC_COMMON = 'batch/batch/cloud/resource_utils.py'
SRC_GCP = 'batch/batch/cloud/gcp/resource_utils.py'
SRC_AZURE = 'batch/batch/cloud/azure/resource_utils.py'
SRC_ICC = 'batch/batch/inst_coll_config.py'
COQ_PROPS = 'theories/Resources/Props_C12.v'
READY = True
META = dict(
    design_ref='§5.B C12',
    technique='Coq proofs about the resource-arithmetic helpers translated from the Python source (floats read as exact rationals, fail-closed '
              'translator) and about a hand model of select_inst_coll; the float-vs-exact step validated exhaustively over the finite core-count '
              'domain and at all packable / GiB boundaries; select_inst_coll tied by differential execution of the real class',
    level_text='Machine-checked theorems (Coq 8.16, closed under the global context): adjust_cores_for_packability returns the LEAST packable core '
               'count (250 mcpu * 2^k) covering the request, for all integers; round_storage_bytes_to_gib (regenerated from source) returns the '
               'LEAST whole number of GiB covering the byte count, for all byte counts >= 0 (C12_storage_rounding_least), and '
               'requested_storage_bytes_to_actual_storage_gib (both clouds) grants the least whole number of GiB that covers the request and '
               'the 10 GiB minimum disk, never above the cloud maximum, and refuses only above that maximum (C12_storage_grant_least); what '
               'PoolConfig.convert_requests_to_resources (regenerated from '
               'source, both clouds) grants is >= the requested cores, memory and storage and fits on one worker (cores <= worker cores, memory <= '
               'worker cores x memory per core), for all requests and all pools with positive memory per core; a pool refuses only if the disk is '
               'beyond the cloud maximum or NO packable grant covering cores and memory fits on its workers; for all pool lists, select_inst_coll '
               '(hand model) places a request only in a collection matching cloud / preemptibility / label (and named worker type; job-private '
               'collection of the same cloud with exactly the machine type\'s cores and memory), and rejects only if no matching collection could '
               'satisfy it; the pool chosen without a named worker type is a cheapest candidate. Checked by the run on the real code, not '
               'proved: the storage helpers around every GiB boundary of a dense range of GiB counts (one byte / KiB / MiB either side, '
               'KiB- and MiB-multiples that are not GiB-multiples) and storage request strings (fractional binary sizes such as 10.5Gi, decimal '
               'sizes such as 20G / 10738M, byte counts) through the real parse_storage_in_bytes -> requested_storage_bytes_to_actual_storage_gib '
               '-> is_valid_storage_request -> storage_gib_to_bytes, against the request re-read as an exact rational: granted GiB * 2^30 >= '
               'requested bytes and minimality, in exact integers.',
    level_note='Trusted: Coq kernel; translator harness/translate/c12_arith.py (floats -> exact rationals); the hand model of the three select_* '
               'loops (tied by execution, not proved equal); the theorems take requests as already parsed (parse_* is property C25) — storage '
               'strings are only driven through the real parser by the run and compared with an independent exact reading. The check '
               'targets the tree with fixes/C12.diff applied: pools with a non-power-of-two worker core count make select_inst_coll raise.',
    partial=False,
)
TRUSTED = ['translator harness/translate/c12_arith.py (Python floats read as exact rationals: a/b, math.ceil, math.log2, 2**p, int())',
           'hand model coq/theories/Resources/Model.v of select_inst_coll / select_pool_from_worker_type / select_cheapest_price_pool / '
           'select_job_private, tied by differential execution of the real class',
           'loader; ProductVersions and resource rates replaced by deterministic tables (they only influence which candidate is cheapest)']
ASSUMPTIONS = ['float exactness: on the inputs that occur, float evaluation of the helpers equals their exact rational meaning — validated '
               'EXHAUSTIVELY for adjust_cores_for_packability over [-5, 2^21] mcpu, and at every packable / GiB / cloud-maximum boundary for the '
               'memory and storage helpers on every run; not proved for binary64. For storage the float step is exact below 2^53 bytes '
               '(int -> binary64 and division by 2^30 are exact there); both callers of round_storage_bytes_to_gib refuse anything above the '
               'cloud maximum (2^46 bytes) first, so the run sweeps byte counts up to 2^53 - 1 only',
               'requests arrive parsed: cores in mcpu, memory and storage in bytes (non-negative); symbolic memory (lowmem/standard/highmem) has been '
               'turned into a worker type by the front end',
               'pool configurations are those the configuration form accepts (worker cores from possible_cores_from_worker_type, positive memory per core)']


def _generate_defs(ctx):
    common = ast.parse(ctx.read_repo(SRC_COMMON))
    gcp = ast.parse(ctx.read_repo(SRC_GCP))
    azure = ast.parse(ctx.read_repo(SRC_AZURE))
    icc = ast.parse(ctx.read_repo(SRC_ICC))
    fns = []

    def P(*names):
        return [(n, 'Z') for n in names]

    # ---- cloud specific helpers (the memory-per-core lookup is a parameter `mpc_mib`, its values come from the tables)
    for cloud, tree in (('gcp', gcp), ('azure', azure)):
        consts = A.int_constants(tree)
        mpc_fn = f'{cloud}_worker_memory_per_core_mib'
        mpc_params = [('machine_family', None), ('worker_type', None)] if cloud == 'gcp' else [('worker_type', None)]
        known = {mpc_fn: ('mpc_mib', mpc_params, 'Z')}
        tr = A.Translator(known, consts)
        extra = [('machine_family', None), ('worker_type', None)] if cloud == 'gcp' else [('worker_type', None)]
        fns.append(tr.function(A.find_def(tree, f'{cloud}_requested_to_actual_storage_bytes'), f'{cloud}_requested_to_actual_storage_bytes',
                               [('storage_bytes', 'Z'), ('allow_zero_storage', 'bool')], 'optZ', {}, f'{cloud}/resource_utils.py'))
        pre = {'mpc_mib': ('mpc_mib', 'Z')}
        f = tr.function(A.find_def(tree, f'{cloud}_cores_mcpu_to_memory_bytes'), f'{cloud}_cores_mcpu_to_memory_bytes',
                        [('mpc_mib', 'Z'), ('mcpu', 'Z')] + extra, 'Z', {}, f'{cloud}/resource_utils.py', pre_env=pre)
        fns.append(f)
        f = tr.function(A.find_def(tree, f'{cloud}_adjust_cores_for_memory_request'), f'{cloud}_adjust_cores_for_memory_request',
                        [('mpc_mib', 'Z'), ('cores_in_mcpu', 'Z'), ('memory_in_bytes', 'Z')] + extra, 'Z', {}, f'{cloud}/resource_utils.py', pre_env=pre)
        fns.append(f)
    # ---- common helpers
    cconsts = A.int_constants(common)
    tr = A.Translator({}, cconsts)
    fns.append(tr.function(A.find_def(common, 'adjust_cores_for_packability'), 'adjust_cores_for_packability', P('cores_in_mcpu'), 'Z', {},
                           'cloud/resource_utils.py'))
    fns.append(tr.function(A.find_def(common, 'round_storage_bytes_to_gib'), 'round_storage_bytes_to_gib', P('storage_bytes'), 'Z', {},
                           'cloud/resource_utils.py'))
    for cloud in ('gcp', 'azure'):
        known = {f'{c}_requested_to_actual_storage_bytes': (f'{c}_requested_to_actual_storage_bytes',
                                                             [('storage_bytes', 'Z'), ('allow_zero_storage', 'bool')], 'optZ') for c in ('gcp', 'azure')}
        known['round_storage_bytes_to_gib'] = ('round_storage_bytes_to_gib', [('storage_bytes', 'Z')], 'Z')
        tr = A.Translator(known, cconsts)
        fns.append(tr.function(A.find_def(common, 'requested_storage_bytes_to_actual_storage_gib'),
                               f'requested_storage_bytes_to_actual_storage_gib_{cloud}',
                               [('cloud', None), ('storage_bytes', 'Z'), ('allow_zero_storage', 'bool')], 'optZ', {'cloud': cloud},
                               f'cloud/resource_utils.py specialised to cloud = {cloud}'))
    # ---- PoolConfig.convert_requests_to_resources, per cloud
    for cloud in ('gcp', 'azure'):
        fam = [('machine_family', None), ('worker_type', None)] if cloud == 'gcp' else [('worker_type', None)]
        known = {
            'requested_storage_bytes_to_actual_storage_gib': (f'requested_storage_bytes_to_actual_storage_gib_{cloud}',
                                                              [('cloud', None), ('storage_bytes', 'Z'), ('allow_zero_storage', 'bool')], 'optZ'),
            f'{cloud}_adjust_cores_for_memory_request': (f'{cloud}_adjust_cores_for_memory_request mpc_mib',
                                                          [('cores_in_mcpu', 'Z'), ('memory_in_bytes', 'Z')] + fam, 'Z'),
            f'{cloud}_cores_mcpu_to_memory_bytes': (f'{cloud}_cores_mcpu_to_memory_bytes mpc_mib', [('mcpu', 'Z')] + fam, 'Z'),
            'adjust_cores_for_packability': ('adjust_cores_for_packability', [('cores_in_mcpu', 'Z')], 'Z'),
        }
        tr = A.Translator(known, A.int_constants(icc))
        fns.append(tr.function(A.find_def(icc, 'PoolConfig.convert_requests_to_resources'), f'pool_convert_{cloud}',
                               [('mpc_mib', 'Z'), ('worker_cores', 'Z'), ('self', None), ('cores_mcpu', 'Z'), ('memory_bytes', 'Z'), ('storage_bytes', 'Z')],
                               'opt_tup3', {'self.cloud': cloud}, f'inst_coll_config.py PoolConfig.convert_requests_to_resources, self.cloud = {cloud}',
                               pre_env={'self.worker_cores': ('worker_cores', 'Z'), 'mpc_mib': ('mpc_mib', 'Z'), 'worker_cores': ('worker_cores', 'Z')}))
    return fns


def _tables(ctx):
    return ctx.run_impl('c12_resources.py', {'mode': 'tables'}, timeout=120)


def _render(fns, t):
    out = ['(* GENERATED by harness/props/C12.py from batch/batch/cloud/**/resource_utils.py and batch/batch/inst_coll_config.py — do not edit *)',
           'From Coq Require Import ZArith List String Bool.', 'From HailV Require Import Resources.Arith.', 'Import ListNotations.',
           'Open Scope string_scope.', 'Open Scope Z_scope.', '']
    for f in fns:
        out.append(f.render())

    def cs(s):
        return '"' + s + '"'
    out.append('(* memory per core (MiB) by (cloud, worker type), as returned by *_worker_memory_per_core_mib *)')
    out.append('Definition mpc_table : list (string * string * Z) :=\n  [' + '; '.join(f'({cs(c)}, {cs(w)}, {m})' for c, w, m in t['mpc']) + '].\n')
    out.append('(* possible_cores_from_worker_type *)')
    out.append('Definition pool_cores_table : list (string * string * list Z) :=\n  [' +
               '; '.join(f'({cs(c)}, {cs(w)}, [{"; ".join(map(str, cores))}])' for c, w, cores in t['pool_cores']) + '].\n')
    out.append('(* machine_type_to_cores_and_memory_bytes for every valid machine type *)')
    out.append('Definition machine_table : list (string * string * Z * Z) :=\n  [' +
               ';\n   '.join(f'({cs(c)}, {cs(m)}, {cores}, {mem})' for c, m, cores, mem in t['machines']) + '].\n')
    out.append(f'Definition max_storage_gib_gcp : Z := {t["max_storage_gib"]["gcp"]}.')
    out.append(f'Definition max_storage_gib_azure : Z := {t["max_storage_gib"]["azure"]}.\n')
    return '\n'.join(out) + '\n'


def generate(ctx):
    fns = _generate_defs(ctx)
    t = _tables(ctx)
    ctx.c12_tables = t
    ctx.write_generated('Gen.v', _render(fns, t))


# ------------------------------------------------------------------------------------------------ cases

GIB = 1 << 30
MIB = 1 << 20


def _get_tables(ctx):
    if not hasattr(ctx, 'c12_tables'):
        ctx.c12_tables = _tables(ctx)
    return ctx.c12_tables


def _sweep(ctx):
    if not hasattr(ctx, 'c12_sweep'):
        ctx.c12_sweep = ctx.run_impl('c12_resources.py', {'mode': 'sweep', 'lo': -5, 'hi': 2 ** 21}, timeout=600)
    return ctx.c12_sweep


KIB = 1 << 10
FLOAT_EXACT = 1 << 53        # below this every int is a binary64 and division by 2^30 is exact; both callers of
#                              round_storage_bytes_to_gib have refused anything above the cloud maximum (2^46 bytes) before
# offsets around a GiB boundary k * 2^30: one byte / one KiB / one MiB either side, KiB- and MiB-multiples that are not GiB-multiples
GIB_OFFSETS = [-MIB, -KIB, -1, 0, 1, KIB - 1, KIB, KIB + 1, MIB, MIB + KIB, 3 * MIB + 512 * KIB, GIB // 2, GIB - MIB, GIB - KIB]
SUFFIX = {'': 1, 'K': 1000, 'Ki': 1024, 'M': 1000 ** 2, 'Mi': 1024 ** 2, 'G': 1000 ** 3, 'Gi': 1024 ** 3, 'T': 1000 ** 4, 'Ti': 1024 ** 4,
          'P': 1000 ** 5, 'Pi': 1024 ** 5}


def _exact_request(s):
    """independent exact reading of a storage string of the job schema ([+]number[K|M|G|T|P[i]][B]): the requested bytes as a Fraction"""
    from fractions import Fraction
    x = s[1:] if s.startswith('+') else s
    if x.endswith('B'):
        x = x[:-1]
    i = len(x)
    while i > 0 and not (x[i - 1].isdigit() or x[i - 1] == '.'):
        i -= 1
    num, suf = x[:i], x[i:]
    if suf not in SUFFIX or not num or num.count('.') > 1 or num.endswith('.'):
        raise ValueError('not a storage string of the job schema: ' + s)
    return Fraction(num) * SUFFIX[suf]


def _ceil(q):
    return -((-q.numerator) // q.denominator) if hasattr(q, 'numerator') else q


def _storage_ks(t):
    ks = {0, 1, 2, 9, 10, 11, 12, 18, 19, 20, 93, 99, 100, 375, 376, 931, 1023, 1024, 1536, 9999}
    for mx in t['max_storage_gib'].values():
        ks |= {mx - 1, mx, mx + 1}
    return sorted(ks)


def _storage_strings(ctx, n_random):
    """request strings as users write them: whole and fractional binary sizes, decimal sizes, plain byte counts, +/B decorations"""
    rng = ctx.rng
    out = ['0', '1', '0Gi', '0.5Gi', '1Gi', '5Gi', '10Gi', '10737418240', '10737418241', '10737419264', '11274289152', '12000000000',
           '10241Mi', '10500Mi', '10752Mi', '384000Mi', '512Mi', '10485761Ki', '11010048Ki', '10485760K', '10485761K',
           '0.5Ti', '1Ti', '1.5Ti', '31.5Ti', '32Ti', '32.0001Ti', '63.5Ti', '64Ti', '64.0001Ti', '65Ti', '1T', '2T', '35T', '35.2T', '70T', '71T',
           '0.01P', '0.03Pi', '1P', '10.5G', '0.5G', '10000M', '10738M', '11000M', '20000M', '20480M', '+10.5GiB', '20GB', '+100G', '.5Ti', '10.5GiB']
    for k in (9, 10, 11, 20, 99, 375, 1023):
        for frac in ('', '.5', '.25', '.125', '.75', '.001', '.0000001', '.999', '.0009765625'):
            out.append(f'{k}{frac}Gi')
    out += [f'{k}G' for k in list(range(9, 31)) + [100, 101, 375, 1000, 1001]]
    for _ in range(n_random):
        suf = rng.choice(['Gi', 'Gi', 'G', 'G', 'Mi', 'M', 'Ki', 'K', 'Ti', 'T', ''])
        scale = {'Gi': 1, 'G': 1, 'Mi': 1024, 'M': 1000, 'Ki': 1024 ** 2, 'K': 10 ** 6, 'Ti': 0, 'T': 0, '': 10 ** 9}[suf]
        whole = rng.choice([rng.randint(0, 70), rng.randint(0, 500)]) * scale if scale else rng.randint(0, 70)
        frac = rng.choice(['', '', '.5', '.25', f'.{rng.randint(0, 999):03d}', f'.{rng.randint(1, 10 ** 9)}']) if suf else ''
        out.append(f'{whole}{frac}{suf}')
    seen, res = set(), []
    for s in out:
        if s not in seen:
            seen.add(s)
            res.append(s)
    return res


def _corpus_calls(ctx):
    """corpus/C12/*.json: {"calls": [[helper, args], ...]} — hand-written edge cases and minimised past failures, run first"""
    import glob
    import json
    import os
    known = {'pack': 1, 'storage_gib': 3, 'round_gib': 1, 'storage_str': 3, 'adjust_mem': 4, 'mem_of': 3, 'convert': 6}
    out = []
    for f in sorted(glob.glob(os.path.join(ctx.verif, 'corpus', ID, '*.json'))):
        with open(f) as fh:
            doc = json.load(fh)
        for c in doc.get('calls', []):
            if not (isinstance(c, list) and len(c) == 2 and c[0] in known and isinstance(c[1], list) and len(c[1]) == known[c[0]]):
                raise RuntimeError(f'corpus file {f}: malformed call {c!r}')
            out.append([c[0], list(c[1])])
    return out


def _helper_calls(ctx, n_random):
    t = _get_tables(ctx)
    rng = ctx.rng
    calls = _corpus_calls(ctx)
    for k in range(0, 15):
        for d in (-2, -1, 0, 1, 2):
            calls.append(['pack', [250 * 2 ** k + d]])
    calls += [['pack', [c]] for c in (-1000, -1, 0, 1, 2, 249, 333, 334, 999, 1001, 2 ** 21, 2 ** 21 + 1, 10 ** 7, 10 ** 9)]
    # storage: every boundary class around a selection of GiB counts, decimal sizes, the float-exact ceiling
    bounds = sorted({k * GIB + off for k in _storage_ks(t) for off in GIB_OFFSETS if k * GIB + off >= 0}
                    | {k * 10 ** e for k in (1, 11, 12, 15, 20, 100, 10738, 20000) for e in (3, 6, 9, 12)}
                    | {FLOAT_EXACT - GIB, FLOAT_EXACT - KIB, FLOAT_EXACT - 1})
    calls += [['round_gib', [b]] for b in bounds]
    for cloud in ('gcp', 'azure'):
        mx = t['max_storage_gib'][cloud]
        pts = {0, 1, GIB - 1, GIB, GIB + 1, 10 * GIB - 1, 10 * GIB, 10 * GIB + 1, 11 * GIB, 375 * GIB + 5, mx * GIB - 1, mx * GIB, mx * GIB + 1, 2 ** 53 + 1}
        pts |= set(bounds)
        for _ in range(n_random // 8):
            g = rng.choice([rng.randint(0, 64), rng.randint(0, mx + 5)])
            pts.add(g * GIB + rng.choice([-1, 0, 1, rng.randint(0, GIB - 1), KIB * rng.randint(1, MIB - 1), MIB * rng.randint(1, KIB - 1)]))
        for b in sorted(p for p in pts if p >= 0):
            for allow in (True, False):
                calls.append(['storage_gib', [cloud, b, allow]])
    for s in _storage_strings(ctx, n_random // 4):
        for cloud in ('gcp', 'azure'):
            calls.append(['storage_str', [cloud, s, rng.random() < 0.7]])
    for cloud, wt, mpc in t['mpc']:
        B = mpc * MIB
        wcs = next(c for cl, w, c in t['pool_cores'] if cl == cloud and w == wt)
        for k in range(0, 11):
            c = 250 * 2 ** k
            calls.append(['mem_of', [cloud, wt, c]])
            m0 = c * B // 1000
            for dm in (-1, 0, 1):
                for c0 in (250, c):
                    calls.append(['adjust_mem', [cloud, wt, c0, m0 + dm]])
                for wc in (wcs[0], wcs[-1]):
                    calls.append(['convert', [cloud, wt, wc, rng.choice([250, 1000, c]), max(0, m0 + dm), rng.choice([0, 5 * GIB, 20 * GIB + 1])]])
        for _ in range(n_random // 6):
            c = rng.choice([250 * 2 ** rng.randint(0, 9), rng.randint(1, 70000)])
            m = rng.choice([rng.randint(0, 700 * GIB), rng.randint(0, 8 * GIB), rng.randint(1, 400) * 10 ** rng.randint(6, 9), rng.randint(1, 500) * MIB])
            s = rng.choice([0, rng.randint(0, 100 * GIB), rng.randint(0, 2 ** 47)])
            calls.append(['adjust_mem', [cloud, wt, c, m]])
            calls.append(['convert', [cloud, wt, rng.choice(wcs), c, m, s]])
    return calls


def _mpc_of(t, cloud, wt):
    return next(m for c, w, m in t['mpc'] if c == cloud and w == wt)


def _helper_exprs(ctx, calls):
    t = _get_tables(ctx)
    ex = []
    for name, a in calls:
        if name == 'pack':
            ex.append(f'G.adjust_cores_for_packability {zlit(a[0])}')
        elif name == 'storage_gib':
            ex.append(f'G.requested_storage_bytes_to_actual_storage_gib_{a[0]} {zlit(a[1])} {"true" if a[2] else "false"}')
        elif name == 'round_gib':
            ex.append(f'G.round_storage_bytes_to_gib {zlit(a[0])}')
        elif name == 'storage_str':      # the model takes the request in bytes: the string re-read exactly, rounded up to whole bytes
            ex.append(f'G.requested_storage_bytes_to_actual_storage_gib_{a[0]} {zlit(_ceil(_exact_request(a[1])))} {"true" if a[2] else "false"}')
        elif name == 'adjust_mem':
            ex.append(f'G.{a[0]}_adjust_cores_for_memory_request {_mpc_of(t, a[0], a[1])} {zlit(a[2])} {zlit(a[3])}')
        elif name == 'mem_of':
            ex.append(f'G.{a[0]}_cores_mcpu_to_memory_bytes {_mpc_of(t, a[0], a[1])} {zlit(a[2])}')
        elif name == 'convert':
            ex.append(f'G.pool_convert_{a[0]} {_mpc_of(t, a[0], a[1])} {a[2]} {zlit(a[3])} {zlit(a[4])} {zlit(a[5])}')
    return ex


def _norm_model(v):
    if v is None:
        return None
    if isinstance(v, tuple) and v and v[0] == 'Some':
        x = v[1]
        return list(x) if isinstance(x, tuple) else x
    return v


def _scenarios(ctx, n_scen, n_req):
    t = _get_tables(ctx)
    rng = ctx.rng
    labels = ['', 'gpu', 'big']
    out = []
    machines = {c: [(m, cores, mem) for cl, m, cores, mem in t['machines'] if cl == c] for c in ('gcp', 'azure')}
    wts = {c: [w for cl, w, _ in t['mpc'] if cl == c] for c in ('gcp', 'azure')}
    for si in range(n_scen):
        main_cloud = rng.choice(['gcp', 'azure'])
        pools = []
        for pi in range(rng.randint(0, 6)):
            cloud = main_cloud if rng.random() < 0.85 else ('azure' if main_cloud == 'gcp' else 'gcp')
            wt = rng.choice(wts[cloud])
            cores = rng.choice(next(c for cl, w, c in t['pool_cores'] if cl == cloud and w == wt))
            pools.append(dict(name=f'pool{pi}', cloud=cloud, worker_type=wt, worker_cores=cores, preemptible=rng.random() < 0.7,
                              label=rng.choice(labels[:2] if rng.random() < 0.8 else labels), local_ssd=rng.random() < 0.5, ext_ssd=rng.choice([0, 100, 375])))
        if pools and rng.random() < 0.4:
            # two pools of one worker type (same cloud / preemptibility / label) with different worker sizes, in either order:
            # a request must be tried against EVERY matching pool
            p0 = rng.choice(pools)
            sizes = [c for c in next(c for cl, w, c in t['pool_cores'] if cl == p0['cloud'] and w == p0['worker_type']) if c != p0['worker_cores']]
            if sizes:
                twin = dict(p0, name=f'pool{len(pools)}', worker_cores=rng.choice(sizes))
                pools.insert(rng.randint(0, len(pools)), twin)
                for pi, q in enumerate(pools):
                    q['name'] = f'pool{pi}'
        reqs = []
        for _ in range(n_req):
            cloud = main_cloud if rng.random() < 0.9 else ('azure' if main_cloud == 'gcp' else 'gcp')
            kind = rng.choice(['wt', 'cheap', 'cheap', 'mt'])
            r = dict(cloud=cloud, label=rng.choice(labels[:2]), preemptible=rng.random() < 0.7,
                     storage=rng.choice([0, 0, rng.randint(0, 50) * GIB, rng.randint(0, 400 * GIB), t['max_storage_gib'][cloud] * GIB + rng.choice([0, 1]), 10 * GIB + 1,
                                         rng.randint(0, 400) * GIB + rng.choice([-KIB, KIB, MIB, GIB // 2, KIB * rng.randint(1, MIB - 1)]),
                                         rng.randint(1, 500) * 10 ** 9]))
            r['storage'] = max(0, r['storage'])
            if rng.random() < 0.35:
                # the request as the job spec carries it: a string, read by the real parse_storage_in_bytes on the implementation side and
                # re-read exactly here (r['storage'] = the requested bytes, rounded up to whole bytes)
                s = rng.choice([f'{rng.randint(0, 400)}{rng.choice(["", ".5", ".25", ".125", ".75", ".001"])}Gi', f'{rng.randint(1, 500)}G',
                                f'{rng.randint(1, 400000)}Mi', f'{rng.randint(1, 400000)}M', f'{rng.choice(["0.5", "1", "1.5", "2", "31.5", "33", "63.5", "64"])}Ti',
                                f'{rng.randint(1, 70)}T', '10.5Gi', '20G'])
                r['storage_str'] = s
                r['storage'] = _ceil(_exact_request(s))
            if kind == 'mt':
                m, cores, mem = rng.choice(machines[cloud])
                r.update(machine_type=m, mt_cores=cores, mt_memory=mem)
            else:
                c = 250 * 2 ** rng.randint(0, 9)
                r['cores'] = c
                if kind == 'wt':
                    wt = rng.choice(wts[cloud])
                    same = [q for q in pools if q['cloud'] == cloud]
                    if same and rng.random() < 0.5:      # aim at a configured pool (its label and preemptibility too)
                        q = rng.choice(same)
                        wt = q['worker_type']
                        r['label'], r['preemptible'] = q['label'], q['preemptible']
                    r['worker_type'] = wt
                    r['memory'] = c * _mpc_of(t, cloud, wt) * MIB // 1000
                else:
                    r['memory'] = rng.choice([rng.randint(0, 8 * GIB), rng.randint(0, 700 * GIB), c * rng.choice([924, 3840, 6656, 2048, 4096, 8192]) * MIB // 1000 + rng.choice([-1, 0, 1]),
                                              rng.randint(1, 64) * GIB])
                    r['memory'] = max(0, r['memory'])
            reqs.append(r)
        out.append(dict(pools=pools, jpim_cloud=main_cloud if rng.random() < 0.9 else 'azure', salt=str(si), requests=reqs,
                        locations=rng.choice([['us-central1'], ['us-central1', 'europe-west1']])))
    return out


def _run_select(ctx, scen):
    res = []
    for i in range(0, len(scen), 50):
        res += ctx.run_impl('c12_resources.py', {'mode': 'select', 'scenarios': scen[i:i + 50]}, timeout=600)['results']
    return res


SEL_HEADER = ('From HailV Require Import Common.Prelude Resources.Arith Resources.Model Resources.GenLemmas.\nFrom HailG Require C12.Gen.\n'
              'Open Scope Z_scope.\n')


def _select_expr(ctx, sc, r, prices):
    t = _get_tables(ctx)
    labels = {'': 0, 'gpu': 1, 'big': 2}
    wt_id = {(c, w): i for i, (c, w, _) in enumerate(t['mpc'])}
    ranks = {p: i for i, p in enumerate(sorted({x for x in prices if x is not None}))}
    ps = []
    for i, p in enumerate(sc['pools']):
        pr = ranks[prices[i]] if prices and prices[i] is not None else 0
        ps.append(f'(mkPool {i} {"true" if p["cloud"] == "gcp" else "false"} {wt_id[(p["cloud"], p["worker_type"])]} {p["worker_cores"]} '
                  f'{"true" if p["preemptible"] else "false"} {labels[p["label"]]} {_mpc_of(t, p["cloud"], p["worker_type"])} {pr})')
    gcp = 'true' if r['cloud'] == 'gcp' else 'false'
    if 'machine_type' in r:
        rq = f'(ByMachineType {r["mt_cores"]} {r["mt_memory"]})'
    elif 'worker_type' in r:
        rq = f'(ByWorkerType {wt_id[(r["cloud"], r["worker_type"])]} {zlit(r["cores"])} {zlit(r["memory"])})'
    else:
        rq = f'(Cheapest {zlit(r["cores"])} {zlit(r["memory"])})'
    return (f'select {listlit(ps)} 1000 {"true" if sc["jpim_cloud"] == "gcp" else "false"} {gcp} {labels[r["label"]]} '
            f'{"true" if r["preemptible"] else "false"} {rq} {zlit(r["storage"])}')


def _impl_select_norm(sc, got):
    if got is None or isinstance(got, str):
        return got
    name = got[0]
    nid = 1000 if name == 'job-private' else next(i for i, p in enumerate(sc['pools']) if p['name'] == name)
    return [nid, got[1], got[2], got[3]]


def correspond(ctx):
    dis = []
    # (a) exhaustive: adjust_cores_for_packability against its specification (= what C12_packability_least proves of the model)
    hi = 2 ** 21
    sw = _sweep(ctx)
    for c, want, got in sw['bad']:
        dis.append(Disagreement('least-packable-spec~adjust_cores_for_packability (exhaustive sweep)', [c], want, got))
    # (b) generated helpers vs the real ones
    calls = _helper_calls(ctx, ctx.scale(300, 4000))
    impl = ctx.run_impl('c12_resources.py', {'mode': 'helpers', 'calls': calls}, timeout=600)['results']
    model = coq_eval(ctx, SEL_HEADER, _helper_exprs(ctx, calls), shard=500)
    hist = {}
    for (name, a), m, i in zip(calls, model, impl):
        hist[name] = hist.get(name, 0) + 1
        m = _norm_model(m)
        if name == 'storage_str':     # [requested bytes, granted GiB]: exact re-reading + model  vs  real parser + real conversion
            m = [_ceil(_exact_request(a[1])), m]
            i = [i.get('bytes'), i.get('gib')]
        if m != i:
            dis.append(Disagreement(f'Gen.{name}~resource_utils', [name, a], m, i))
    # (c) select_inst_coll
    scen = _scenarios(ctx, ctx.scale(40, 400), 12)
    res = _run_select(ctx, scen)
    exprs, meta = [], []
    for sc, rs in zip(scen, res):
        for r, out in zip(sc['requests'], rs):
            exprs.append(_select_expr(ctx, sc, r, out['prices']))
            meta.append((sc, r, out))
    sel = coq_eval(ctx, SEL_HEADER, exprs, shard=250)
    distinct = set()
    for (sc, r, out), m in zip(meta, sel):
        m = _norm_model(m)
        i = _impl_select_norm(sc, out['result'])
        kind = 'mt' if 'machine_type' in r else 'wt' if 'worker_type' in r else 'cheap'
        hist['select:' + kind] = hist.get('select:' + kind, 0) + 1
        distinct.add(json_key((sc['pools'], r)))
        if m != i:
            dis.append(Disagreement('Select.select_inst_coll~InstanceCollectionConfigs.select_inst_coll',
                                    {'pools': sc['pools'], 'jpim_cloud': sc['jpim_cloud'], 'request': r, 'salt': sc['salt'], 'locations': sc['locations']}, m, i))
    return Corr(evaluations=sw['checked'] + len(calls) + len(exprs), distinct_nontrivial=len(distinct) + len(calls),
                rule=f'adjust_cores_for_packability swept exhaustively over [-5, {hi}] against the least-packable specification; the real helpers vs '
                     'the generated Gallina (boundaries of every packable count / cloud maximum; storage byte counts one byte / KiB / MiB either side '
                     'of selected GiB boundaries, KiB- and MiB-multiples that are not GiB-multiples, decimal sizes, up to 2^53 - 1; storage request '
                     'strings through the real parser vs their exact re-reading fed to the model; + seeded random); select_inst_coll of the real '
                     'class (generated pool configurations, prices from the real price function, storage as bytes or as job-spec strings) vs the '
                     'hand model',
                samples=[{'request': meta[0][1], 'result': meta[0][2]['result']}] if meta else [], disagreements=dis,
                histograms={'calls': hist}, exhaustive=False,
                names=['least-packable-spec~adjust_cores_for_packability', 'Gen.helpers~resource_utils',
                       'Select.select_inst_coll~InstanceCollectionConfigs.select_inst_coll'])


def json_key(x):
    import json
    return json.dumps(x, sort_keys=True)


# ------------------------------------------------------------------------------------------------ oracle

def _packables(limit):
    g = 250
    while g <= limit:
        yield g
        g *= 2


def _check_select(t, sc, r, got):
    """the property on one answer of the real select_inst_coll"""
    case = {'pools': sc['pools'], 'jpim_cloud': sc['jpim_cloud'], 'request': {k: v for k, v in r.items()}, 'salt': sc['salt'], 'locations': sc['locations']}
    if isinstance(got, str) and got.startswith('storage-string-unparsed'):
        return ('storage-string-unparsed', f'storage string {r.get("storage_str")!r} accepted by the job schema is not read as a byte count', case, r['storage'], got)
    if isinstance(got, str):
        return ('select-raises', f'select_inst_coll raised {got}', case, 'a placement or None', got)
    mx = t['max_storage_gib']
    if 'machine_type' in r:
        ok_possible = sc['jpim_cloud'] == r['cloud'] and r['storage'] <= mx[sc['jpim_cloud']] * GIB
        if got is None:
            if ok_possible:
                return ('rejected-though-satisfiable', 'machine-type request rejected although the job-private collection can serve it', case, 'a placement', None)
            return None
        name, gc, gm, gs = got
        if name != 'job-private' or gc != r['mt_cores'] * 1000 or gm != r['mt_memory'] or gs * GIB < r['storage'] or sc['jpim_cloud'] != r['cloud']:
            return ('under-provisioned', 'job-private placement does not give the machine / the storage asked for', case,
                    [r['mt_cores'] * 1000, r['mt_memory'], f'>= {r["storage"]} bytes'], got)
        return None
    cands = [p for p in sc['pools'] if p['cloud'] == r['cloud'] and p['preemptible'] == r['preemptible'] and p['label'] == r['label']
             and ('worker_type' not in r or p['worker_type'] == r['worker_type'])]

    def can(p):
        B = _mpc_of(t, p['cloud'], p['worker_type']) * MIB
        if r['storage'] > mx[p['cloud']] * GIB:
            return False
        return any(g >= r['cores'] and g * B >= r['memory'] * 1000 for g in _packables(p['worker_cores'] * 1000))
    if got is None:
        able = [p['name'] for p in cands if can(p)]
        if able:
            return ('rejected-though-satisfiable', f'request rejected although {able} could serve it', case, 'a placement', None)
        return None
    name, gc, gm, gs = got
    p = next((q for q in cands if q['name'] == name), None)
    if p is None:
        return ('wrong-collection', 'placed in a collection that does not match cloud / preemptibility / label / worker type', case, [q['name'] for q in cands], name)
    B = _mpc_of(t, p['cloud'], p['worker_type']) * MIB
    if gc < r['cores'] or gm < r['memory'] or gs * GIB < r['storage']:
        return ('under-provisioned', 'granted cores / memory / storage below the request', case, [r['cores'], r['memory'], r['storage']], got)
    if gc > p['worker_cores'] * 1000 or gm > p['worker_cores'] * B:
        return ('does-not-fit', 'grant does not fit on one worker of the pool', case, [p['worker_cores'] * 1000, p['worker_cores'] * B], got)
    return None


def _is_int(x):
    return isinstance(x, int) and not isinstance(x, bool)


def _storage_want(t, cloud, need, allow):
    """the least admissible grant (Model.storage_grant_ok, theorem C12_storage_grant_least) for `need` requested bytes (int or
    Fraction), in exact arithmetic; None = above the cloud's largest disk"""
    if need > t['max_storage_gib'][cloud] * GIB:
        return None
    if allow and need == 0:
        return 0
    return max(10, -((-_ceil(need)) // GIB))


# The property TEXT demands "granted storage at least the request" and "rejected only if unsatisfiable"; that the grant is the LEAST whole
# number of GiB / respects the worker's 10 GiB minimum are PROVED facts about the code as it is (C12_storage_rounding_least,
# C12_storage_grant_least), i.e. more than the text.  Their run-time forms (storage-rounding-not-least, storage-not-least,
# storage-below-minimum) are judged only when a proof obligation or the tie is already broken (oracle budget > 1: they turn the broken
# theorem into a concrete input) and in replay.
_STRICT = {'on': True}


def _judge_storage(t, cloud, need, allow, got, case, under_key='storage-under'):
    """the property on one storage grant of the real code (got = granted GiB or None), judged by value in exact integers"""
    want = _storage_want(t, cloud, need, allow)
    if got is None:
        if want is not None:
            return ('storage-rejected', 'storage within the cloud maximum rejected', case, f'{want} GiB', None)
        return None
    if not _is_int(got):
        return ('helper-raises', f'storage grant is not a whole number of GiB: {got!r}', case, 'GiB', got)
    if got * GIB < need:
        return (under_key, f'granted storage {got} GiB = {got * GIB} bytes is below the {_ceil(need)} bytes requested', case,
                f'>= {_ceil(need)} bytes' + (f' ({want} GiB)' if want is not None else ''), got * GIB)
    if want is None or got > t['max_storage_gib'][cloud]:
        return ('storage-over-max', 'storage above the cloud maximum accepted / granted', case, None, got)
    if not _STRICT['on']:
        return None
    if got < want:
        return ('storage-below-minimum', f'granted {got} GiB, below the 10 GiB minimum disk the worker insists on (is_valid_storage_request)', case, want, got)
    if got > want:
        return ('storage-not-least', f'granted {got} GiB although {want} GiB is a whole number of GiB covering the request (and the 10 GiB minimum)', case, want, got)
    return None


def _check_helper(t, name, a, got):
    if isinstance(got, str):
        return ('helper-raises', f'{name}{a} raised {got}', [name, a], 'a value', got)
    if name == 'storage_gib':
        cloud, b, allow = a
        return _judge_storage(t, cloud, b, allow, got, [name, a])
    if name == 'round_gib':
        # round_storage_bytes_to_gib: the LEAST whole number of GiB covering the bytes (theorem C12_storage_rounding_least)
        b = a[0]
        if not _is_int(got):
            return ('helper-raises', f'round_storage_bytes_to_gib({b}) = {got!r} is not an int', [name, a], 'GiB', got)
        if got * GIB < b:
            return ('storage-rounding-under', f'round_storage_bytes_to_gib({b}) = {got}: {got} GiB = {got * GIB} bytes do not cover {b} bytes',
                    [name, a], -((-b) // GIB), got)
        if _STRICT['on'] and ((b == 0 and got != 0) or (b > 0 and (got - 1) * GIB >= b)):
            return ('storage-rounding-not-least', f'round_storage_bytes_to_gib({b}) = {got}: {got - 1} GiB already cover {b} bytes',
                    [name, a], -((-b) // GIB), got)
        return None
    if name == 'storage_str':
        # the storage path of a job spec: string -> bytes (front end) -> GiB (instance collection) -> accepted and turned into a disk quota (worker)
        cloud, s, allow = a
        need = _exact_request(s)
        for k in ('bytes', 'gib', 'quota', 'valid'):
            if isinstance(got.get(k), str):
                return ('helper-raises', f'storage path of {s!r}: {k} raised {got[k]}', [name, a], 'a value', got[k])
        if not _is_int(got['bytes']):
            return ('storage-string-unparsed', f'storage string {s!r} accepted by the job schema is not read as a byte count', [name, a], _ceil(need), got['bytes'])
        if got['bytes'] < need:
            return ('storage-string-under', f'storage string {s!r} read as {got["bytes"]} bytes, below the {_ceil(need)} bytes it asks for', [name, a], _ceil(need), got['bytes'])
        r = _judge_storage(t, cloud, need, allow, got['gib'], [name, a], under_key='storage-string-under')
        if r:
            return r
        if got['gib'] is not None:
            if got['valid'] is not True:
                return ('storage-grant-invalid', f'the worker refuses the granted {got["gib"]} GiB (is_valid_storage_request)', [name, a], True, got['valid'])
            if not _is_int(got['quota']) or got['quota'] < need or got['quota'] < got['gib'] * GIB:
                return ('storage-quota-under', f'disk quota {got["quota"]} bytes for the granted {got["gib"]} GiB does not give the {_ceil(need)} bytes requested',
                        [name, a], got['gib'] * GIB, got['quota'])
        return None
    if name == 'adjust_mem':
        cloud, wt, c, m = a
        B = _mpc_of(t, cloud, wt) * MIB
        if got < c or got * B < m * 1000:
            return ('memory-under', 'cores after memory adjustment do not carry the requested memory', [name, a], f'>= ceil({m}*1000/{B})', got)
    if name == 'convert' and got is not None:
        cloud, wt, wc, c, m, s = a
        B = _mpc_of(t, cloud, wt) * MIB
        if got[0] < c or got[1] < m or got[2] * GIB < s or got[0] > wc * 1000 or got[1] > wc * B:
            return ('under-provisioned', 'pool grant below the request or beyond the worker', [name, a], [c, m, s], got)
    if name == 'convert' and got is None:
        cloud, wt, wc, c, m, s = a
        B = _mpc_of(t, cloud, wt) * MIB
        if s <= t['max_storage_gib'][cloud] * GIB and any(g >= c and g * B >= m * 1000 for g in _packables(wc * 1000)):
            return ('rejected-though-satisfiable', 'pool refuses a request a packable grant could serve', [name, a], 'a grant', None)
    return None


def _storage_sweep(ctx, t):
    """the real rounding helpers around EVERY GiB boundary k * 2^30 of a dense range of k (0 .. 4096 quick / 16384 thorough), a stride
    through the rest up to beyond the clouds' largest disks, and the special counts; judged here, by value, in exact integers"""
    mx = max(t['max_storage_gib'].values())
    ks = sorted(set(range(0, ctx.scale(4096, 16384) + 1)) | set(range(0, mx + 4, ctx.scale(257, 31))) | set(_storage_ks(t))
                | {2 ** e + d for e in range(0, 18) for d in (-1, 0, 1)})
    raw = ctx.run_impl('c12_resources.py', {'mode': 'storage_sweep', 'ks': ks, 'offsets': GIB_OFFSETS}, timeout=600)
    bs = [k * GIB + off for k in ks for off in GIB_OFFSETS if k * GIB + off >= 0]
    if raw['n'] != len(bs) or any(len(raw[c]) != len(bs) for c in ('round', 'gcp:1', 'gcp:0', 'azure:1', 'azure:0')):
        raise RuntimeError('C12 storage sweep: result shape mismatch')
    found, per_key = [], {}
    for idx, b in enumerate(bs):
        cands = [('round_gib', [b], raw['round'][idx])]
        for cloud in ('gcp', 'azure'):
            for allow in (True, False):
                cands.append(('storage_gib', [cloud, b, allow], raw[f'{cloud}:{int(allow)}'][idx]))
        for name, a, got in cands:
            r = _check_helper(t, name, a, got)
            if r and per_key.get(r[0], 0) < 3:
                per_key[r[0]] = per_key.get(r[0], 0) + 1
                found.append(r)
    return found, 5 * len(bs), len(ks)


def oracle(ctx, budget):
    t = _get_tables(ctx)
    _STRICT['on'] = budget > 1
    fails = []
    sw = _sweep(ctx)
    for c, want, got in sw['bad']:
        fails.append(Failure('packability-not-least', f'adjust_cores_for_packability({c}) = {got}, least packable count is {want}', ['pack', [c]], want, got))
    st_found, st_n, st_ks = _storage_sweep(ctx, t)
    for r in st_found:
        fails.append(Failure(r[0], r[1], r[2], r[3], r[4]))
    calls = _helper_calls(ctx, ctx.scale(200, 4000) * budget)
    impl = ctx.run_impl('c12_resources.py', {'mode': 'helpers', 'calls': calls}, timeout=600)['results']
    for (name, a), got in zip(calls, impl):
        r = _check_helper(t, name, a, got)
        if r:
            fails.append(Failure(r[0], r[1], r[2], r[3], r[4]))
    scen = _scenarios(ctx, ctx.scale(60, 600) * budget, 12)
    res = _run_select(ctx, scen)
    n = 0
    for sc, rs in zip(scen, res):
        for r, out in zip(sc['requests'], rs):
            n += 1
            x = _check_select(t, sc, r, out['result'])
            if x:
                fails.append(Failure(x[0], x[1], x[2], x[3], x[4]))
    fails.sort(key=lambda f: len(json_key(f.case)))
    n_str = sum(1 for name, _ in calls if name == 'storage_str')
    return fails, {'evaluations': sw['checked'] + st_n + len(calls) + n, 'distinct_nontrivial': st_n + len(calls) + n,
                   'rule': 'oracle on the real code: least packable count (exhaustive sweep); storage rounding swept around every GiB boundary of '
                           f'{st_ks} GiB counts (one byte / KiB / MiB either side, KiB- and MiB-multiples that are not GiB-multiples) for '
                           'round_storage_bytes_to_gib and requested_storage_bytes_to_actual_storage_gib of both clouds: granted GiB * 2^30 >= requested '
                           'bytes, least such whole number (10 GiB minimum), refused only above the cloud maximum, all in exact integers; '
                           f'{n_str} storage request STRINGS (fractional binary, decimal, byte counts) through the real parse_storage_in_bytes -> GiB '
                           '-> is_valid_storage_request -> storage_gib_to_bytes, the request re-read independently as an exact rational; memory '
                           'adjustment covers the request in exact integer arithmetic; every answer of select_inst_coll (storage also given as '
                           'job-spec strings) grants >= request on a matching collection and fits, every rejection checked by brute force over all '
                           'packable grants of all matching pools',
                   'histograms': {'oracle_storage': {'sweep_evaluations': st_n, 'sweep_gib_counts': st_ks, 'request_strings': n_str}}}


def replay(ctx, doc):
    t = _get_tables(ctx)
    case = doc.get('case')
    if isinstance(case, list) and len(case) == 2 and isinstance(case[0], str):
        got = ctx.run_impl('c12_resources.py', {'mode': 'helpers', 'calls': [case]})['results'][0]
        model = _norm_model(coq_eval(ctx, SEL_HEADER, _helper_exprs(ctx, [case]))[0]) if case[0] != 'pack' or True else None
        r = _check_helper(t, case[0], case[1], got)
        return {'call': case, 'impl': got, 'model': model, 'violation': None if r is None else {'key': r[0], 'what': r[1]}}
    if isinstance(case, list) and len(case) == 1:
        got = ctx.run_impl('c12_resources.py', {'mode': 'helpers', 'calls': [['pack', case]]})['results'][0]
        return {'call': ['pack', case], 'impl': got}
    sc = dict(pools=case['pools'], jpim_cloud=case['jpim_cloud'], salt=case.get('salt', ''), locations=case.get('locations', ['us-central1']), requests=[case['request']])
    out = _run_select(ctx, [sc])[0][0]
    m = _norm_model(coq_eval(ctx, SEL_HEADER, [_select_expr(ctx, sc, case['request'], out['prices'])])[0])
    x = _check_select(t, sc, case['request'], out['result'])
    return {'case': case, 'impl': out['result'], 'impl_normalised': _impl_select_norm(sc, out['result']), 'model': m,
            'violation': None if x is None else {'key': x[0], 'what': x[1]}}
