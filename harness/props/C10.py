"""C10 — instance free-core accounting is exact (add_attempt / unschedule_job / mark_job_complete / deactivate_instance).

Tie: X (shared family correspondence: model step ~ real SQL routines + handlers on minisql, after every op).
Proof: coq/theories/BatchDB/Cores.v — one invariant over all legal histories of the frozen model (BatchDB/Model.v):
keyed tables (instances, attempts, jobs), every attempt's job exists with immutable cores, every attempt's instance exists
or is NULL, "no end time => no end reason" for attempts on real instances (so that the attempts_before_update clamp cannot
keep an attempt open when it is ended), and for every instance  free = cores - sum(cores of the jobs of its open attempts)
when live,  free = cores  otherwise.
Oracle: the statement recomputed from the implementation's tables after every op (harness/batchdb/oracles.py::c10).
"""
import json
import os

from harness import core
from harness.batchdb import family
from harness.batchdb import corr as famcorr

ID = 'C10'
COQ_PROPS = 'theories/BatchDB/Props_C10.v'
READY = True

META = dict(
    design_ref='§5.A C10',
    technique='Coq invariant proof over all histories of an executable model of the batch database + '
              'correspondence of the model with the real SQL routines/handlers on a MySQL-subset interpreter',
    level_text='Machine-checked theorems (Coq 8.16, closed under the global context) over ALL legal histories of the batch-database model '
               '(any interleaving, repetition, delay and staleness of client requests, schedule / creating / started / complete / unschedule / '
               'heartbeat messages, instance creation, activation, deactivation and deletion): every instance whose state is pending or active '
               'records free cores = total cores - sum of the cores of the jobs of the attempts placed on it whose end time is NULL, every '
               'inactive or deleted instance records free = total (C10_free_exact, C10_inactive_all_free); instance names, attempt keys and job '
               'keys are unique and every attempt refers to an existing job and to an existing instance or NULL (C10_tables_keyed); the invariant '
               'is inductive from any state satisfying it (C10_step). The model follows the repaired SQL (migration 123: pending instances give '
               'cores back like active ones). Environment assumptions: Legal.v (messages about an existing attempt name its instance, an unschedule '
               'names an existing attempt, completions that name an instance carry an end time) plus one stated in the theorem: a completion without '
               'attempt id names no instance. Both are shown NECESSARY by vm_compute witnesses (C10_needs_*), which behave identically on the real '
               'SQL (corpus/C10/forged-messages.json, re-run by the oracle for the record); the real driver never sends such messages. '
               'The driver\'s in-memory copy of the free cores: one theorem about the answers of schedule_job (C10_pool_schedule_delta_exact: '
               'old free - cores + delta = new free for every answer) + a run-time clause on the real driver bookkeeping (in-memory == database '
               'after every op; see level_note).',
    level_note='Trusted: Coq kernel; the model-vs-implementation correspondence (sampled, not proved) and the minisql engine; that the driver only '
               'unschedules attempts it read from the attempts table and passes instance NULL whenever it passes attempt NULL to mark_job_complete '
               '(canceller.cancel_cancelled_ready_jobs, job.mark_job_errored - read, not verified mechanically). -1 stands for SQL NULL and is '
               'excluded as an instance name. IN-MEMORY COPY (Instance.free_cores_mcpu, what the scheduler places jobs by): the object is NOT '
               'modelled. PROVED (MemCores.v, C10_pool_schedule_delta_exact): from any state, for every answer [rc; delta] of CALL schedule_job on a '
               'live pool instance - rc 0 and rc 1 alike - database free\' = database free - cores + delta, i.e. reservation + answered delta '
               'reproduces the database change exactly. RUN-CHECKED only (oracle clause C10:in-memory-free-cores, harness/batchdb/oracles.py '
               'c10_memory): the runner executes the REAL bookkeeping of batch/driver/job.py on the real Instance object - schedule_job '
               '(recompiled from source without its state assert / job config / worker POST, called for pool instances through the pool '
               'scheduler\'s real reservation statement and its real schedule_with_error_handling, both cut out by AST), mark_job_started, '
               'mark_job_creating, mark_job_complete, unschedule_job (for other end reasons recompiled with the constant replaced) - and after every '
               'op of every corpus and driven history the in-memory free cores of every instance that is live in the database, known to the driver '
               'under the same state and not the target of a message the service cannot deliver (worker report past active_instances_only, '
               'mark_creating to a non-pending instance) must equal instances_free_cores_mcpu; corpus/C10/in-memory-free-cores.json holds the '
               'orderings in which the CALL answers rc=1 with a positive delta (retried call, started/complete report processed first). Open finding '
               '(findings/C10.json): the in-memory copy of a PENDING instance is not given the cores back when its attempt ends.',
    partial=False,
)
TRUSTED = family.COMMON_TRUSTED + [
    'integer interning of instance names / attempt ids by harness/batchdb/corr.py (NULL = -1 is never a name)',
]
ASSUMPTIONS = family.COMMON_ASSUMPTIONS + [
    'Legal.v attempt_on / attempt_exists_on: a driver/worker message about an existing attempt names the instance the attempt was created on; '
    'unschedule_job is only called for attempts that exist (NECESSARY: Props_C10.C10_needs_unschedule_of_existing_attempt)',
    'Cores.names_attempt (not in Legal.v, hypothesis of the theorems): mark_job_complete with attempt_id NULL has instance_name NULL '
    '(NECESSARY: Props_C10.C10_needs_completions_to_name_an_attempt; true of all four call sites of mark_job_complete)',
]

correspond = family.correspond
replay = family.replay
_family_oracle = family.oracle_for(ID)


def _forged(ctx):
    """The two witnesses of Cores.v section (7) on the IMPLEMENTATION: informational (they are not legal histories)."""
    import oracles
    p = os.path.join(core.VERIF, 'corpus', ID, 'forged-messages.json')
    doc = json.load(open(p))
    names = sorted(doc['forged'])
    res = famcorr.run_impl(ctx, [doc['forged'][k] for k in names], 'all', timeout=300)
    out = {}
    for k, ents in zip(names, res['results']):
        found, _h, _l = oracles.check_history(doc['forged'][k], ents, {ID})
        out[k] = sorted({f.key for f in found}) or ['formula-holds']
    return out


def oracle(ctx, budget):
    fails, stats = _family_oracle(ctx, budget)
    try:
        stats.setdefault('histograms', {})['forged_messages_break_formula_on_implementation'] = {k: ','.join(v) for k, v in _forged(ctx).items()}
    except core.ImplCrash as e:          # informational only: never turns into a verdict
        stats.setdefault('histograms', {})['forged_messages_break_formula_on_implementation'] = {'error': str(e)[-200:]}
    return fails, stats
