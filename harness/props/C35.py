"""C35 — common-subexpression rendering preserves meaning (hail/python/hail/ir/renderer.py: CSERenderer =
CSEAnalysisPass + CSEPrintPass; binding metadata of base_ir.py / ir.py).

Model: coq/theories/CSE/Model.v — IR nodes with object identities (a DAG is a tree whose equal ids label equal subtrees, so
the tree itself is the fully inlined IR), the analysis pass (stack of frames, visited sets, lifted lets, binding sites keyed by
node id, uid counter), the print pass (bindings stack keyed by depth, visited, let bodies in completion order), a total
big-step evaluator `eval`, and the semantics WITH ERRORS `evalE` (result = value | Err: `//` and `%` by zero and array
indexing out of bounds fail; strict Let, If evaluates only the branch taken, loops evaluate their body once per element).
Theorems (Props_C35.v): for ALL consistent DAGs of the modelled IR and all environments
eval (cse d) = eval d, every free variable of the output is a free variable of the input, the analysis never reuses a name,
the print pass is correct for ANY table of binding sites with distinct names; and for the semantics with errors:
evalE (cse d) = evalE d (the rendered IR fails iff the inlined IR fails) for every DAG whose loop-invariant loop-body
subexpressions cannot fail (`loops_ok`), with a machine-checked COUNTEREXAMPLE without that side condition (a let lifted out of
a loop that runs zero times: open finding error-introduced:let-hoisted-out-of-loop-body).
Tie: X — programs are built through the real expression API (and directly as hail.ir nodes), the real object graph is
exported, rendered by the REAL CSERenderer of $VERIF_REPO, the IR text is read back and compared structurally with the
model's output for the same graph; binding metadata (new_block / bindings / free_vars) of every real node is compared
with the model's; model output, real output and inlined IR are evaluated with the model's eval AND evalE.
Oracle (implementation only): the real rendering is read back and evaluated against the inlined IR under the semantics with
errors (Python reference evaluator), on random programs, programs with one shared subtree in many positions, and programs
whose shared subexpression FAILS and sits in evaluated / unevaluated places (untaken If branches, loops over empty arrays,
guards on loop variables).
The model is the renderer as repaired by fixes/C35.diff (see findings/C35.json): on the unrepaired code the correspondence
breaks and the oracle replays the failing programs.

Aggregation / scan binding contexts (NOT in the Coq model; checked by the run only, oracle `_judge_agg`): programs with
TableAggregate / TableMapRows roots over ApplyAggOp / ApplyScanOp, AggFilter, AggExplode, AggGroupBy, AggArrayPerElement,
AggLet (nested; python-level sharing of context arguments, eval values and whole aggregations; targeted programs with one
shared expression AT the context argument and one level below it) and StreamAgg / StreamAggScan inside plain value IR are
built directly as hail.ir nodes (mode 'agg' of c35_cse.py, no backend), rendered by the REAL CSERenderer, read back
(c35_lang.parse_ir(agg=True)) and
  (1) scope-checked against the three environments (eval / agg / scan) that the node structure defines (c35_lang.scope_check,
      a hand-written table of the engine's binding structure that does not consult the python binding metadata): every Ref is
      bound in the environment in which it is evaluated — a `__cse_N` reference by a `Let eval` in the eval environment or by an
      `AggLet` with the matching is_scan flag in the agg resp. scan environment —, an AggLet / context argument never selects a
      context that does not exist at its place, and the variables of every lifted expression refer to the same binders at each
      use as at the binding;
  (2) compared, with all CSE bindings inlined, with the plain rendering of the same object graph (structural equality).
Open finding from this family: StreamAgg / StreamAggScan.free_vars drop the eval-context free variables of the body, so a
shared StreamAgg is lifted above the binder of a variable it uses (keys agg-scope:..:eval-variable-of-StreamAgg(Scan)-body).
"""
import glob
import json
import os
import re
import sys

from harness.core import Corr, Disagreement, Failure, HarnessError, TieBroken, coq_eval

sys.path.insert(0, os.path.join(os.path.dirname(os.path.dirname(os.path.abspath(__file__))), 'impl'))
import c35_lang as L  # noqa: E402

ID = 'C35'
SRC = ['hail/python/hail/ir/renderer.py', 'hail/python/hail/ir/base_ir.py', 'hail/python/hail/ir/ir.py']
COQ_PROPS = 'theories/CSE/Props_C35.v'
READY = True
META = dict(
    design_ref='§5.F C35',
    technique='Coq compiler-correctness proof (nested induction over labelled trees with a threaded bindings stack; state invariant + '
              'semantic congruence of the evaluator) about a hand model of the two-pass CSE renderer, tied to the real CSERenderer by a '
              'differential run on DAGs built through the real expression API',
    level_text='Machine-checked theorems (Coq 8.16, closed under the global context): for EVERY expression DAG over I32/True/False, '
               'ApplyBinaryPrimOp(+,-,*,//,%), ApplyUnaryPrimOp(-,!), ApplyComparisonOp, If, Let, Ref, MakeStruct/GetField, MakeArray/ArrayLen/'
               'CastToArray/ToArray/ToStream, ArrayRef / Apply indexArray and StreamMap/StreamFilter/StreamFold lambdas — arbitrary sharing '
               '(including shared lambdas), shadowing and free variables — and every environment, the IR with shared subexpressions lifted '
               'into let-bindings evaluates to the same value as the fully inlined IR (total semantics); every variable free in the output '
               '(so every variable used by a lifted binding at the place it was put, and every reference to a lifted binding) is free in the '
               'input; binding names are never reused; the print pass is correct for any table of binding sites with distinct names. '
               'Semantics WITH ERRORS (value | Err: // and % by zero and out-of-bounds indexing fail, strict Let, only the taken If branch, '
               'loop bodies once per element): C35_error_semantics_preserved_partial — for EVERY such DAG in which no loop-invariant '
               'subexpression of a loop body can fail, the rendered IR fails exactly when the inlined IR fails and otherwise has the same '
               'value (every let sits at a node below which all its uses are in strict positions: no untaken If branch in between); '
               'C35_error_semantics_refuted — without that side condition the statement is false for the renderer as it is (a let lifted '
               'out of a loop that runs zero times), replayed on the real renderer as open finding '
               'error-introduced:let-hoisted-out-of-loop-body. The model is the renderer as repaired by fixes/C35.diff; it agrees node '
               'for node with the real renderer output on every generated program, and the real output is evaluated under both semantics. '
               'RUN-CHECKED ONLY (no theorem): aggregation / scan binding contexts — on generated programs with TableAggregate / '
               'TableMapRows roots over ApplyAggOp / ApplyScanOp, AggFilter, AggExplode, AggGroupBy, AggArrayPerElement, AggLet and with '
               'StreamAgg / StreamAggScan inside value IR (shared expressions at the context argument itself, one level below it, in '
               'eval and in agg / scan positions, nested), the REAL rendering is read back and scope-checked against the eval / agg / '
               'scan environments the node structure defines (every `__cse_N` reference bound by a `Let eval` in the eval environment or '
               'by an `AggLet` with the matching is_scan flag in the agg resp. scan environment; no AggLet or context argument selecting '
               'a context that does not exist; lifted expressions see the same binders at their uses as at their binding) and, with all '
               'CSE bindings inlined, compared structurally with the plain rendering. This found the open finding '
               'agg-scope:..:eval-variable-of-StreamAgg-body (StreamAgg / StreamAggScan.free_vars ignore the eval-context variables of '
               'the body: a shared StreamAgg is lifted above the binder of a variable it uses).',
    level_note='Partial: aggregation/scan contexts (AggLet, the agg/scan halves of the binding context, StreamAgg / StreamAggScan) are '
               'outside the Coq model — for them nothing is proved, the statement is only checked on the generated programs of each run, '
               'against a hand-written table of the binding structure of those node classes (trusted; AggExplode binds its element only in '
               'the context its is_scan flag selects, MatrixIR roots with both an agg and a scan context are not generated); effectful nodes '
               '(Die), the unused '
               'memo table and the remaining IR node classes are outside the model; values are int32 with wrap-around, booleans, arrays and '
               'structs, no missing values; one kind of error (which operation failed first is not distinguished). The error-semantics '
               'theorem carries the side conditions wf_arity (arities as the front end builds them) and loops_ok (see above); that a let '
               'is never lifted out of an If branch IS proved (it is what the seeded new_block changes break), that it is not lifted out of '
               'a loop body is NOT true of the code. The model is tied to the Python code by the correspondence run, not by translation; '
               'the IR text reader, the exporter of the object graph and the Python reference evaluator of the oracle are trusted harness '
               'code.',
    partial=True,
)
TRUSTED = ['hand model coq/theories/CSE/Model.v tied to renderer.py only by the correspondence run (X)',
           'harness/impl/c35_cse.py (builds programs through the hail API / hail.ir, exports the real object graph by object identity) and '
           'harness/impl/c35_lang.py (reader of the rendered IR text, generator, reference evaluator used by the oracle)',
           'aggregation / scan family: c35_lang.scope_check (hand-written binding table of AggLet, AggFilter, AggGroupBy, AggExplode, '
           'AggArrayPerElement, ApplyAggOp / ApplyScanOp, StreamAgg / StreamAggScan, TableAggregate, TableMapRows), c35_lang.inline_cse and the '
           'plain Renderer (`str(ir)`), whose output is taken as the inlined IR',
           'loader: numpy from /verif/.deps, functional shims decorator/parsimonious; no JVM/backend is started',
           'names: `__cse_N` in the IR text is read as the model\'s C N, every other name as a program variable']
ASSUMPTIONS = ['error semantics: integer // and % by zero and ArrayRef / indexArray out of bounds are the failing operations of the modelled '
               'node set (Die is effectful and outside it); the engine evaluates Let strictly and only the taken branch of an If',
               'object graphs are consistent by construction (an id is the identity of one Python object with fixed children) and acyclic',
               'program variable names never start with `__cse_` (the front end generates `__uid_N`; the exporter rejects other inputs)',
               'CSERenderer.memo is empty (nothing in hail/python writes to it: checked textually on every run)',
               'free variables of the root evaluate in the environment U n -> VInt (n+3)']

HEADER = ('From HailV Require Import Common.Prelude CSE.Model.\n'
          'Open Scope N_scope.\n'
          'Definition env0 : env := fun v => match v with U n => VInt (Z.of_N n + 3) | C _ => VJunk end.\n'
          '(* one packaged function: a tuple written under the chain of lets makes elaboration blow up *)\n'
          'Definition out6 (r real : node) := (strip (cse r), wf_node r, fv r, eval (cse r) env0, eval r env0, eval real env0,\n'
          '  (evalE (cse r) env0, evalE r env0, evalE real env0, wf_arity r && loops_ok r)).\n')

MAX_INLINE = 2500


# ------------------------------------------------------------------------------------------------ cases

def _corpus(agg=False):
    """corpus cases of the modelled value subset (agg=False) or of the aggregation / scan family (mode 'agg', agg=True)"""
    out = []
    for p in sorted(glob.glob(os.path.join(os.path.dirname(os.path.dirname(os.path.dirname(os.path.abspath(__file__)))), 'corpus', ID, '*.json'))):
        doc = json.load(open(p))
        if (doc['case'].get('mode') == 'agg') == agg:
            out.append(doc['case'])
    return out


def _agg_cases(ctx, n_targeted, n_random, n_stream):
    """Aggregation / scan programs (TableAggregate / TableMapRows roots; StreamAgg / StreamAggScan inside plain value IR), built as
    hail.ir nodes: outside the Coq model."""
    rng = ctx.rng
    cases = _corpus(agg=True)
    for _ in range(n_targeted):
        cases.append({'mode': 'agg', 'prog': L.agg_targeted_program(rng)})
    for _ in range(n_random):
        g = L.AggGen(rng, rng.random() < 0.6, budget=rng.choice([4, 6, 8, 10, 12]))
        cases.append({'mode': 'agg', 'prog': g.program()})
    for _ in range(n_stream):
        cases.append({'mode': 'agg', 'prog': L.streamagg_program(rng)})
    return cases


def _cases(ctx, n_random, n_targeted, n_failing):
    rng = ctx.rng
    cases = _corpus()
    for i in range(n_targeted):
        mode = 'api' if i % 2 == 0 else 'ir'
        cases.append({'mode': mode, 'prog': L.targeted_program(rng, mode)})
    for i in range(n_failing):
        mode = 'api' if i % 2 == 0 else 'ir'
        cases.append({'mode': mode, 'prog': L.failing_program(rng, mode)})
    for i in range(n_random):
        mode = 'api' if i % 2 == 0 else 'ir'
        g = L.Gen(rng, mode, budget=rng.choice([6, 10, 14, 20, 30]))
        cases.append({'mode': mode, 'prog': g.program()})
    return cases


def _run_impl(ctx, cases):
    res = ctx.run_impl('c35_cse.py', {'cases': cases}, timeout=900)['results']
    for c, r in zip(cases, res):
        if 'build_exc' in r:
            raise TieBroken('build', f'the front end rejected a generated program ({r["build_exc"]}): {json.dumps(c)[:300]}')
        if 'outside' in r:
            raise TieBroken('subset', f'the front end produced an IR node outside the modelled subset ({r["outside"]}): {json.dumps(c)[:300]}')
    return res


def _inline_size(dag):
    memo = {}

    def go(i):
        if i not in memo:
            memo[i] = 1 + sum(go(c) for c in dag['nodes'][str(i)]['c'])
        return memo[i]
    return go(dag['root'])


# ------------------------------------------------------------------------------------------------ static checks on the source

_MEMO_WRITE = re.compile(r'memo\s*\[[^\]]*\]\s*=(?!=)|memo\s*\.\s*(update|setdefault|__setitem__)\s*\(')


def _static_checks(ctx):
    """Facts the model relies on that are visible in the source text."""
    for rel in ('hail/python/hail/ir', 'hail/python/hail/backend'):
        base = os.path.join(ctx.repo, rel)
        for d, _, fs in os.walk(base):
            for f in fs:
                if f.endswith('.py'):
                    src = open(os.path.join(d, f), encoding='utf-8').read()
                    for ln, line in enumerate(src.split('\n'), 1):
                        if _MEMO_WRITE.search(line):
                            raise TieBroken('memo', f'{rel}/{f}:{ln} writes to a renderer memo table: {line.strip()[:120]}')


_META_HEADS = [['I32', 1], ['True'], ['False'], ['Bin', '+'], ['Bin', '//'], ['Idx', False], ['Idx', True], ['Un', '-'], ['Cmp', '<'], ['If'], ['Let', 'x'], ['Ref', 'x'],
               ['MakeStruct', ['a']], ['GetField', 'a'], ['MakeArray'], ['ArrayLen'], ['CastToArray'], ['ToArray'], ['ToStream'],
               ['StreamMap', 'x'], ['StreamFilter', 'x'], ['StreamFold', 'x', 'y']]


def _model_meta(ctx):
    """(new_block, binds) of the model for every head kind and child index 0..3."""
    names = L.Names()
    exprs = []
    for h in _META_HEADS:
        hc = L.head_to_coq(h, names)
        exprs.append('[' + '; '.join(f'(new_block {hc} {i}%nat, binds {hc} {i}%nat)' for i in range(4)) + ']')
    vals = coq_eval(ctx, HEADER, exprs, label='meta')
    out = {}
    for h, v in zip(_META_HEADS, vals):
        out[h[0]] = [(bool(nb), sorted(names.var_back(x) for x in bs)) for nb, bs in v]   # (same table for every op of Bin / Idx)
    return out


def _check_meta(res, meta, dis):
    """Binding metadata of every real node against the model's tables (placeholders x/y stand for the node's own names)."""
    for r in res:
        if 'dag' not in r:
            continue
        for nid, n in r['dag']['nodes'].items():
            h = n['h']
            own = {'x': h[1], 'y': h[2]} if h[0] == 'StreamFold' else {'x': h[1]} if h[0] in ('Let', 'Ref', 'StreamMap', 'StreamFilter') else {}
            if n['eff'] or n['agg']:
                dis.append(Disagreement('metadata', {'node': n}, 'value IR without agg context / effects', 'effectful or agg free vars'))
            for i, (nb, bnd, ag, agb) in enumerate(n['meta']):
                m_nb, m_b = meta[h[0]][i] if i < 4 else (False, [])
                m_b = sorted({own[x] for x in m_b})
                if nb != m_nb or sorted(bnd) != m_b or ag or agb:
                    dis.append(Disagreement('metadata', {'head': h, 'child': i}, [m_nb, m_b, False, []], [nb, bnd, ag, agb]))
                    return
            if h[0] == 'Ref' and n['c']:
                dis.append(Disagreement('metadata', {'head': h}, 'Ref is a leaf', n['c']))


# ------------------------------------------------------------------------------------------------ correspondence

def _model_eval(ctx, items):
    """items: list of (dag, real_term_or_None). Returns per item dict(model term, wf, fv, values)."""
    exprs, namess = [], []
    for dag, real in items:
        names = L.Names()
        real_c = L.term_to_coq(real, names) if real is not None else '(Node 0 false HTrue [])'
        exprs.append(L.dag_to_coq(dag, names, f'out6 ROOT {real_c}'))
        namess.append(names)
    vals = coq_eval(ctx, HEADER, exprs, shard=60, label='corr')
    out = []
    for v, names in zip(vals, namess):
        term, wf, fvs, v_cse, v_in, v_real, (e_cse, e_in, e_real, side) = v
        out.append({'term': L.coq_to_term(term, names), 'wf': wf, 'fv': sorted({names.var_back(x) for x in fvs}),
                    'v_cse': L.coq_to_value(v_cse, names), 'v_in': L.coq_to_value(v_in, names),
                    'v_real': L.coq_to_value(v_real, names),
                    'e_cse': L.coq_to_result(e_cse, names), 'e_in': L.coq_to_result(e_in, names),
                    'e_real': L.coq_to_result(e_real, names), 'side': bool(side)})
    return out


def correspond(ctx):
    sys.setrecursionlimit(100000)
    _static_checks(ctx)
    cases = _cases(ctx, ctx.scale(400, 5000), ctx.scale(120, 1200), ctx.scale(160, 1600))
    res = _run_impl(ctx, cases)
    dis = []
    _check_meta(res, _model_meta(ctx), dis)
    items, idx, skipped = [], [], 0
    for k, (c, r) in enumerate(zip(cases, res)):
        if _inline_size(r['dag']) > MAX_INLINE:
            skipped += 1
            continue
        real = None
        if 'cse' in r:
            try:
                real = L.parse_ir(r['cse'])
            except L.ReadError as e:
                r['read_error'] = str(e)
        items.append((r['dag'], real))
        idx.append(k)
    model = _model_eval(ctx, items)
    distinct, heads, hist = set(), {}, {'lets_0': 0, 'lets_1-2': 0, 'lets_3+': 0, 'api': 0, 'ir': 0, 'inline_fails': 0,
                                        'side_condition_false': 0, 'model_refuted_class(let above loop fails)': 0}
    samples = []
    for k, (dag, real), m in zip(idx, items, model):
        c, r = cases[k], res[k]
        hist[c['mode']] += 1
        if not m['wf']:
            raise HarnessError(f'exported DAG is not well-formed for the model: {json.dumps(c)[:300]}')
        if sorted(dag['nodes'][str(dag['root'])]['fv']) != m['fv']:
            dis.append(Disagreement('free_vars', c, m['fv'], dag['nodes'][str(dag['root'])]['fv']))
        if m['v_cse'] != m['v_in']:
            raise HarnessError(f'model contradicts its own theorem on {json.dumps(c)[:300]}')
        hist['inline_fails'] += m['e_in'] == L.ERR
        hist['side_condition_false'] += not m['side']
        if m['e_cse'] != m['e_in']:
            if m['side']:
                raise HarnessError(f'model contradicts its own error-semantics theorem on {json.dumps(c)[:300]}')
            if not (m['e_cse'] == L.ERR):     # same value whenever neither fails (first theorem): the only difference can be an introduced Err
                raise HarnessError(f'model: rendered and inlined IR differ other than by an introduced failure on {json.dumps(c)[:300]}')
            hist['model_refuted_class(let above loop fails)'] += 1
        if 'cse' not in r:
            dis.append(Disagreement('cse~CSERenderer', c, 'model renders the DAG', {'raises': r.get('cse_exc')}))
            continue
        if real is None:
            dis.append(Disagreement('cse~CSERenderer', c, 'model output is in the subset', {'unreadable': r.get('read_error')}))
            continue
        if real != m['term']:
            dis.append(Disagreement('cse~CSERenderer', c, _show(m['term']), r['cse']))
            continue
        if m['v_real'] != m['v_in']:
            dis.append(Disagreement('eval(real output)=eval(inline)', c, m['v_in'], m['v_real']))
        if m['e_real'] != m['e_in'] and m['side']:
            dis.append(Disagreement('evalE(real output)=evalE(inline)', c, m['e_in'], m['e_real']))
        nlets = r['cse'].count('(Let eval __cse_')
        hist['lets_0' if nlets == 0 else 'lets_1-2' if nlets <= 2 else 'lets_3+'] += 1
        if nlets:
            distinct.add(r['cse'])
        for n in dag['nodes'].values():
            heads[n['h'][0]] = heads.get(n['h'][0], 0) + 1
        if nlets >= 2 and len(samples) < 4 and len(r['cse']) < 400:
            samples.append({'mode': c['mode'], 'plain': r.get('plain'), 'cse': r['cse'], 'value': m['v_in']})
    hist['skipped_too_large'] = skipped
    return Corr(evaluations=len(items), distinct_nontrivial=len(distinct),
                rule='programs: corpus + targeted (one shared subtree with inner sharing placed at several depths, in/out of If branches '
                     'and lambda bodies) + seeded random typed programs with python-level sharing, half through the hl expression API, '
                     'half as hail.ir nodes with a 3-name variable pool (shadowing, free variables); compared: model `strip (cse d)` vs the '
                     'real CSERenderer text read back (structural equality), binding metadata of every real node vs the model\'s tables, '
                     'free_vars of the root, and eval of model output / real output / inlined IR; non-trivial = distinct rendered texts '
                     'with at least one lifted let',
                samples=samples, disagreements=dis,
                histograms={'shape': hist, 'node_classes': dict(sorted(heads.items()))},
                names=['cse~CSERenderer', 'metadata', 'free_vars', 'eval(real output)=eval(inline)', 'evalE(real output)=evalE(inline)'])


def _show(t):
    h, cs = t
    return '(' + ' '.join([str(x) for x in h] + [_show(c) for c in cs]) + ')'


# ------------------------------------------------------------------------------------------------ oracle (implementation only)

def _judge(c, r):
    """The property statement on one real rendering; returns Failure or None."""
    if 'cse_exc' in r:
        e = r['cse_exc']
        return Failure(f'renderer-raises:{e["type"]}:{e["where"].split(":")[0]}',
                       f'CSERenderer raises {e["type"]} ({e["where"]}) on an expression DAG the front end built',
                       c, 'IR text', e)
    try:
        t = L.parse_ir(r['cse'])
    except L.ReadError as e:
        return Failure('unreadable-output', f'rendered IR cannot be read back: {e}', c, 'IR text in the subset', r['cse'][:500])
    inl = L.inline(r['dag'])
    fv_in, fv_out = L.free_vars(inl), L.free_vars(t)
    if not fv_out <= fv_in:
        extra = sorted(fv_out - fv_in)
        kind = 'unbound-cse-reference' if any(x.startswith('__cse_') for x in extra) else 'variable-escapes-binder'
        return Failure(kind, f'rendered IR refers to {extra} outside the scope that binds them', c, sorted(fv_in), {'free': extra, 'cse': r['cse'][:800]})
    for k in (0, 1):
        env = {v: ['int', 3 + 5 * k + i] for i, v in enumerate(sorted(fv_in))}
        a, b = L.evaluate(t, env), L.evaluate(inl, env)
        if a != b:
            return Failure('value-differs', 'rendered IR evaluates to a different value than the inlined IR', c, b, {'value': a, 'cse': r['cse'][:800]})
        (ra, name), (rb, _) = L.evaluate_err(t, env), L.evaluate_err(inl, env)
        if ra == rb:
            continue
        if rb == L.ERR:
            return Failure('error-removed', 'the inlined IR fails (division by zero / index out of bounds) but the rendered IR returns a value',
                           c, 'error', {'value': ra, 'cse': r['cse'][:800]})
        if ra != L.ERR:
            return Failure('value-differs', 'rendered IR evaluates to a different value than the inlined IR', c, rb, {'value': ra, 'cse': r['cse'][:800]})
        # the rendered IR fails, the inlined IR does not: which let was being evaluated, and where are its uses?
        where, paths = 'other', []
        let = L.find_let(t, name) if name else None
        if let is not None:
            paths = [sorted(p) for p in L.use_paths(let[1][1], name)]
            if any('if' in p for p in paths):
                where = 'let-hoisted-out-of-if-branch'
            elif paths and all('loop' in p for p in paths):
                where = 'let-hoisted-out-of-loop-body'
        what = {'let-hoisted-out-of-if-branch': f'the rendered IR evaluates `{name}` (a failing expression) before an If whose untaken branch '
                                                'holds its only uses: the rendered IR fails, the inlined IR returns a value',
                'let-hoisted-out-of-loop-body': f'the rendered IR binds `{name}` (a failing expression) outside a loop whose body holds its only uses; '
                                                'the loop runs zero times: the rendered IR fails, the inlined IR returns a value',
                'other': 'the rendered IR fails (division by zero / index out of bounds), the inlined IR returns a value'}[where]
        return Failure('error-introduced:' + where, what, c, rb, {'result': 'error', 'failing_let': name, 'uses': paths, 'cse': r['cse'][:800]})
    return None


def _judge_agg(c, r, stats=None):
    """Aggregation / scan programs: the REAL CSE rendering is read back and (1) scope-checked against the three environments
    (eval / agg / scan) the node structure defines — every `__cse_N` reference bound by a `Let eval` in the eval environment or by
    an `AggLet` with the matching is_scan flag in the agg resp. scan environment of the place where it is evaluated, the
    variables of every lifted expression referring to the same binders at each use as at the binding —, (2) compared, after
    inlining all CSE bindings, with the plain rendering of the same object graph (structural equality)."""
    if 'build_exc' in r:
        raise HarnessError(f'the front end rejected a generated aggregation program ({r["build_exc"]}): {json.dumps(c)[:300]}')
    if 'cse_exc' in r:
        e = r['cse_exc']
        return Failure(f'renderer-raises:{e["type"]}:{e["where"].split(":")[0]}:agg',
                       f'CSERenderer raises {e["type"]} ({e["where"]}) on an aggregation / scan IR', c, 'IR text', e)
    try:
        plain = L.parse_ir(r['plain'], agg=True)
        L.scope_check(plain)
    except (L.ReadError, L.ScopeError) as e:
        raise HarnessError(f'generated aggregation program is not well-scoped / readable BEFORE CSE ({e}): {json.dumps(c)[:300]}')
    try:
        t = L.parse_ir(r['cse'], agg=True)
    except L.ReadError as e:
        return Failure('unreadable-output:agg', f'rendered IR cannot be read back: {e}', c, 'IR text in the subset', r['cse'][:800])
    try:
        st = L.scope_check(t)
    except L.ScopeError as e:
        key = 'agg-scope:' + e.key
        if e.via and e.var in L.stream_agg_body_vars(plain):
            # the variable is an eval-context free variable of a StreamAgg / StreamAggScan BODY in the original IR and is used, through
            # that body, by a lifted expression that was put outside the variable's scope
            key += f':eval-variable-of-{e.via}-body'
        return Failure(key, 'the rendered IR binds or uses a lifted expression in the wrong binding context: ' + str(e),
                       c, 'every Ref bound in the environment (eval / agg / scan) in which it is evaluated, lifted expressions seeing the '
                          'same binders at their uses as at their binding', {'cse': r['cse'][:1200]})
    if L.inline_cse(t) != plain:
        return Failure('agg-inlined-differs', 'inlining the CSE bindings of the rendered IR does not give back the original IR',
                       c, r['plain'][:1200], {'cse': r['cse'][:1200]})
    if stats is not None:
        for k, v in st.items():
            stats['bindings'][k] = stats['bindings'].get(k, 0) + v
        L.context_argument_stats(t, stats['context_arguments'])
    return None


def oracle(ctx, budget):
    sys.setrecursionlimit(100000)
    agg_cases = _agg_cases(ctx, ctx.scale(300, 3000) * budget, ctx.scale(300, 3000) * budget, ctx.scale(200, 2000) * budget)
    cases = _cases(ctx, ctx.scale(400, 4000) * budget, ctx.scale(300, 3000) * budget, ctx.scale(400, 4000) * budget)
    res = ctx.run_impl('c35_cse.py', {'cases': cases + agg_cases}, timeout=1500)['results']
    res, agg_res = res[:len(cases)], res[len(cases):]
    fails, n, nontrivial = [], 0, set()
    agg_stats = {'bindings': {}, 'context_arguments': {}}
    agg_samples, n_agg = [], 0
    for c, r in zip(agg_cases, agg_res):
        n_agg += 1
        f = _judge_agg(c, r, agg_stats)
        if f is not None:
            fails.append(f)
        elif '__cse_' in r['cse']:
            nontrivial.add(r['cse'])
            if len(agg_samples) < 2 and 'AggLet __cse_' in r['cse'] and len(r['cse']) < 500:
                agg_samples.append({'mode': 'agg', 'plain': r['plain'], 'cse': r['cse']})
    agg_stats['programs'] = n_agg
    for c, r in zip(cases, res):
        if 'dag' not in r:
            continue
        if 'cse' in r and _inline_size(r['dag']) > 4 * MAX_INLINE:
            continue
        n += 1
        f = _judge(c, r)
        if f is not None:
            fails.append(f)
        elif '(Let eval __cse_' in r['cse']:
            nontrivial.add(r['cse'])
    # smallest witness per key first
    fails.sort(key=lambda f: len(json.dumps(f.case)))
    return fails, {'evaluations': n + n_agg, 'distinct_nontrivial': len(nontrivial), 'samples': agg_samples,
                   'histograms': {'agg_scan_family': agg_stats},
                   'rule': 'oracle: real CSERenderer output read back; no exception, free variables of the output within those of the '
                           'inlined IR, same value AND same failure behaviour (semantics with errors: strict Let, only the taken If '
                           'branch, loop bodies once per element, // and % by zero and out-of-bounds indexing fail) as the inlined IR under '
                           'two environments (reference evaluator in Python); programs include the family with FAILING shared '
                           'subexpressions in evaluated / unevaluated places. Aggregation / scan family (TableAggregate / TableMapRows '
                           'over ApplyAggOp / ApplyScanOp, AggFilter, AggExplode, AggGroupBy, AggArrayPerElement, AggLet, nested, with '
                           'python-level sharing of context arguments, eval values and whole aggregations; targeted programs put one '
                           'shared expression AT the context argument and one level below it): the real rendering is scope-checked '
                           'against the eval / agg / scan environments (hand-written binding table of the engine semantics) and, '
                           'with all CSE bindings inlined, compared structurally with the plain rendering of the same graph'}


def replay(ctx, doc):
    case = doc['case']
    r = ctx.run_impl('c35_cse.py', {'cases': [case]})['results'][0]
    if case.get('mode') == 'agg':
        f = _judge_agg(case, r)
    else:
        f = _judge(case, r) if 'dag' in r else None
    return {'case': case, 'plain': r.get('plain'), 'cse': r.get('cse'), 'exception': r.get('cse_exc'),
            'verdict': None if f is None else {'key': f.key, 'what': f.what, 'observed': f.observed}}
