"""C09 — submission is idempotent under client retries.

Tie: X (shared family correspondence: model step ~ real SQL routines + handlers on minisql, after every op; the generated
histories re-send requests) + a client smoke test: the REAL hailtop.batch_client.aioclient Batch / Job / JobGroup classes
build updates offline (only the network call Batch._submit is stubbed) and the absolute ids they end up with are compared
with the model's client arithmetic (Idem.client_job_id / client_group_id) and with the ids Model.job_of_spec /
create_one_group assign to the very specs those classes produced.
Proof: coq/theories/BatchDB/{StepFrame,Cancel,Idem}.v over the frozen model BatchDB/Model.v; theorems in Props_C09.v.
Oracle: harness/batchdb/oracles.py::c09 (ranges contiguous after every op, a re-sent accepted request changes nothing and
create_batch / create_update answer identically, ids of inserted jobs = start + relative - 1) + the client half on the
real aioclient classes (the id a Job / JobGroup object holds after Batch.submit() = start + relative - 1 of the spec it sent).

Overlapping deliveries (history op "race", harness/batchdb/race.py; corpus/C09/races.json + race mode of gen.py): the shared tie
accepts a race iff it agrees with the model in one of the two serial orders (corr.race_readings; Props_C09.C09_retry_commutes,
C09_race_updates_adjacent say what those orders are); oracles.c09_race (state after a request and its overlapping retry = state when
the first of them had finished; equal answers; two update-creates get disjoint ranges that are the rows of the updates table) and
_race_serial_oracle below (the real code re-run serially `A; B`, `B; A`, single delivery) are the property on the implementation alone.
"""
from harness import core
from harness.core import Corr, Disagreement
from harness.batchdb import family

ID = 'C09'
COQ_PROPS = 'theories/BatchDB/Props_C09.v'
READY = True

META = dict(
    design_ref='§5.A C09',
    technique='Coq proof over all states / all histories of an executable model of the batch database + '
              'correspondence of the model with the real SQL routines/handlers on a MySQL-subset interpreter + '
              'differential smoke test of the real client id arithmetic',
    level_text='Machine-checked theorems (Coq 8.16, closed under the global context) about the batch-database model: (1) for EVERY state and every '
               'batch-create, update-create, job-bunch and commit request, executing the request a second time returns the same answer and leaves '
               'the whole state (all tables, hence all job / core counters, batch and group n_jobs) exactly as the first execution left it '
               '(C09_retry_idempotent, C09_no_double_count); a re-sent job-group bunch is answered BadRequest and changes nothing; and the same '
               'for a request re-sent after ANY further transactions (other clients\' updates of the same batch, driver messages): create-batch '
               'and create-update return the same ids and change nothing, a re-sent inserted job bunch and a re-sent commit change nothing '
               '(C09_*_retry_later); (2) in every state of every history the updates of a batch have ids 1,2,3,..., the first range starts at '
               'job 1 / group 1 and each update\'s job-id and group-id range starts exactly where the previous one ends, so the ranges are '
               'contiguous, pairwise disjoint and in update order, and (batch, update id) is a key (C09_ranges*, C09_update_key); (3) the id the '
               'server assigns to a spec\'s job equals start + relative - 1, the value aioclient.Job._submit computes; over every history the '
               'triple answered by create-update determines the ids under which an accepted bunch stores its jobs and their relative groups '
               '(C09_client_ids). (4) OVERLAPPING deliveries: for a request and its verbatim retry the two serial orders are one outcome, the state '
               'of a single delivery with both deliveries answered alike (C09_retry_commutes, any state); two update-creates of one batch that both '
               'reserve a new range get, in either serial order, adjacent hence disjoint ranges -- the one served second immediately after the one '
               'served first (C09_race_updates_adjacent / _disjoint, every history): the two serial orders differ exactly in who gets which range. '
               'These theorems are about SERIAL executions of the model; that the real code, run with two requests overlapping, is serialisable '
               'is CHECKED, not proved: the history op "race" (harness/batchdb/race.py) runs the real handlers of two requests A, B on the same '
               'in-memory database so that A is suspended after k SQL statements of its read-only prefix (SELECTs, locking or not, at top level '
               'or inside a called stored procedure such as commit_batch_update, whose body statements are counted one by one; possibly spanning '
               'several transactions of the handler; never after an INSERT/UPDATE/DELETE), then B runs -- to completion, '
               'or, if it needs a lock A holds, up to that statement, then A finishes, then B resumes --, then A finishes. Executed interleavings '
               'are exactly: "A paused after a read-only prefix of k statements, B to completion (or blocked until A has finished)", for every k '
               'of the hand-written corpus/C09/races.json (every pause point of create_batch, create_update, create_groups, create_jobs, commit '
               'against their retry and against another client\'s request on the same batch) and a few random ones per family run. The tie '
               'accepts a race iff answers and state equal the model run in one of the two serial orders; the C09 oracle re-runs the same prefix '
               'on the real code with `A; B`, `B; A` and (retry) a single delivery and demands equality with one serial order / with the single delivery.',
    level_note='Lock and visibility model of the race runs (trusted, harness/batchdb/race.py): TABLE-granular and conservative -- SELECT..FOR UPDATE '
               'takes X, LOCK IN SHARE MODE takes S on every table the statement mentions, until the transaction ends; a statement of the running '
               'request waits (is delayed until the other request has finished) when its static may-touch footprint (targets, foreign-key parents and '
               'children, triggers, called routines) conflicts; plain SELECTs never wait; a transaction\'s plain SELECTs read the snapshot taken at its first '
               'plain SELECT (copied tables swapped in), locking reads and DML read the latest committed rows (InnoDB REPEATABLE READ). Coarser locks only '
               'serialise more: every executed schedule is one InnoDB can produce with the same reads (a statement blocked here is the same statement '
               'arriving later there). Situations outside the model (the blocked request already has uncommitted writes; a lock cycle, which with table '
               'granularity need not be an InnoDB deadlock -- the 1213 + retry path of gear.transaction is therefore NOT exercised; a read inside a trigger '
               'or stored function whose result differs between the transaction\'s snapshot and the latest committed rows -- which of the two it sees '
               'depends on the binlog format) are detected and the two requests are then run serially '
               '(counted in the evidence as race/serial:*). NOT explored: finer interleavings in which BOTH transactions have pending writes (A paused '
               'after a write), more than two overlapping requests, overlaps with driver/worker transactions, row-level lock behaviour (gap locks, real '
               'deadlocks). '
               'Trusted: Coq kernel; the sampled model-vs-implementation correspondence and the minisql engine. The client side is MODELLED as the '
               'function start + relative - 1 and tied to the real Job._submit / JobGroup._submit / Batch.submit code by a differential smoke test '
               '(real classes, stubbed network), not by a translator; HTTP transport, the fast-path endpoints (one transaction = create-update + '
               'bunch + commit in the model\'s interleaving semantics) and client-side bunching (C19) are not part of these theorems. '
               '"Re-sent" means the same request with the same token / arguments.',
    partial=False,
)
TRUSTED = family.COMMON_TRUSTED + [
    'harness/impl/c09_client_ids.py: real aioclient Batch/Job/JobGroup driven offline with Batch._submit stubbed (the start ids the server answers are inputs)',
    'harness/batchdb/race.py + the race hooks of fakedb.py: table-granular lock table and snapshot reads standing in for InnoDB REPEATABLE READ when two '
    'requests overlap (pause point, blocking = delaying the statement until the other request finished, serial fallback when outside the model)',
]
ASSUMPTIONS = family.COMMON_ASSUMPTIONS + [
    'none of Legal.v is used: every C09 theorem holds for arbitrary transactions (the invariants are proved with run_invariant)',
    'overlapping requests: only the interleavings "A paused after a read-only prefix, B to completion or blocked until A finished" are executed; MySQL '
    'runs the service at REPEATABLE READ with the locking reads written in the code (FOR UPDATE / LOCK IN SHARE MODE); coarser-than-InnoDB locks never '
    'produce a schedule InnoDB cannot produce',
]

_family_oracle = family.oracle_for(ID)

HEADER = 'From HailV Require Import Common.Prelude BatchDB.Model BatchDB.StepFrame BatchDB.Cancel BatchDB.Idem.\nOpen Scope Z_scope.\n'


def _cases(ctx):
    rng = ctx.rng
    cases = []
    for _ in range(ctx.scale(12, 120)):
        updates = []
        n_prev_jobs = n_prev_groups = 0
        sj, sg = 1, 1
        for k in range(rng.randint(1, 3)):
            n_groups = rng.randint(0, 3)
            jobs = []
            for i in range(rng.randint(1, 5)):
                choices = [0] + list(range(1, n_groups + 1)) + [-g for g in range(1, n_prev_groups + 1)]
                parents = sorted({rng.randint(1, i) for _ in range(rng.randint(0, 2))} if i else set())
                if n_prev_jobs and rng.random() < 0.4:
                    parents.append(-rng.randint(1, n_prev_jobs))
                jobs.append({'group': rng.choice(choices), 'parents': parents})
            # the server's answer: any start ids (another client's update may have been created in between)
            sj += rng.randint(0, 4) if k else 0
            sg += rng.randint(0, 2) if k else 0
            updates.append({'start_job': sj, 'start_group': sg, 'shape': {'n_groups': n_groups, 'jobs': jobs}})
            sj += len(jobs)
            sg += n_groups
            n_prev_jobs += len(jobs)
            n_prev_groups += n_groups
        cases.append({'batch': rng.randint(1, 9), 'updates': updates})
    return cases


def _client_smoke(ctx) -> Corr:
    cases = _cases(ctx)
    res = ctx.run_impl('c09_client_ids.py', {'cases': cases}, timeout=300)['results']
    exprs, meta = [], []
    z, L, O = core.zlit, core.listlit, core.optlit
    for ci, (case, r) in enumerate(zip(cases, res)):
        if 'err' in r:
            meta.append((ci, None, None, r))
            continue
        for ui, (upd, got) in enumerate(zip(case['updates'], r['ok'])):
            sj, sg = upd['start_job'], upd['start_group']
            for ji, spec in enumerate(got['job_specs']):
                gabs, grel = spec.get('absolute_job_group_id'), spec.get('in_update_job_group_id')
                js = (f'(mkJspec {z(spec["job_id"])} {O(None if gabs is None else z(gabs))} {z(grel or 0)} '
                      f'{L([z(p) for p in spec["absolute_parent_ids"] or []])} {L([z(p) for p in spec["in_update_parent_ids"] or []])} false 1000 0)')
                exprs.append(f'let J := job_of_spec {z(case["batch"])} {z(ui + 1)} {z(sj)} {z(sg)} {js} in '
                             f'(j_id (fst J), (j_group (fst J), (snd J, client_job_id {z(sj)} {z(spec["job_id"])})))')
                meta.append((ci, ui, ('job', ji), None))
            for gi, spec in enumerate(got['group_specs']):
                gs = f'(mkGspec {z(spec["job_group_id"])} {O(None if spec.get("absolute_parent_id") is None else z(spec["absolute_parent_id"]))} {z(spec.get("in_update_parent_id") or 0)})'
                exprs.append(f'(gspec_group {z(sg)} {gs}, client_group_id {z(sg)} {z(spec["job_group_id"])})')
                meta.append((ci, ui, ('group', gi), None))
    vals = core.coq_eval(ctx, HEADER, exprs, label='c09client') if exprs else []
    dis = []
    n = 0
    it = iter(vals)
    for ci, ui, what, err in meta:
        case = cases[ci]
        if err is not None:
            dis.append(Disagreement('aioclient ids ~ Idem.client_job_id / Model.job_of_spec', case, 'client classes run offline', err))
            continue
        v = next(it)
        got = res[ci]['ok'][ui]
        n += 1
        if what[0] == 'job':
            ji = what[1]
            spec = got['job_specs'][ji]
            server_id, (server_group, (server_parents, model_client_id)) = v
            client_id = got['client_job_ids'][ji]
            grel, gabs = spec.get('in_update_job_group_id'), spec.get('absolute_job_group_id')
            client_group = gabs if gabs is not None else got['client_group_ids'][grel - 1]
            client_parents = list(spec['absolute_parent_ids'] or []) + [got['client_job_ids'][p - 1] for p in (spec['in_update_parent_ids'] or [])]
            model = {'server_job_id': server_id, 'model_client_id': model_client_id, 'server_group': server_group, 'server_parents': list(server_parents)}
            impl = {'client_job_id': client_id, 'client_group': client_group, 'client_parents': client_parents, 'all_submitted': got['all_submitted']}
            ok = (server_id == client_id == model_client_id and server_group == client_group and list(server_parents) == client_parents
                  and got['all_submitted'] and got['reset'] == [0, 0, 0, 0])
        else:
            gi = what[1]
            server_gid, model_client_gid = v
            model = {'server_group_id': server_gid, 'model_client_group_id': model_client_gid}
            impl = {'client_group_id': got['client_group_ids'][gi]}
            ok = server_gid == model_client_gid == got['client_group_ids'][gi]
        if not ok:
            dis.append(Disagreement('aioclient ids ~ Idem.client_job_id / Model.job_of_spec', {'case': case, 'update': ui, 'what': list(what)}, model, impl))
    return Corr(evaluations=n, distinct_nontrivial=len({(c['batch'], u['start_job'], u['start_group'], len(u['shape']['jobs'])) for c in cases for u in c['updates']}),
                rule='client smoke test: one evaluation per job / job-group spec produced by the real aioclient classes; non-trivial = distinct '
                     '(batch, start ids, size) of an update',
                samples=[cases[0]], disagreements=dis, histograms={'c09_client_specs': {'cases': len(cases), 'specs': n}},
                names=['aioclient.Job._submit/JobGroup._submit/Batch.submit ~ Idem.client_job_id, Model.job_of_spec'])


def correspond(ctx) -> Corr:
    c = family.correspond(ctx)
    c.merge(_client_smoke(ctx))
    return c


def _client_oracle(ctx, cases):
    """The statement on the implementation only: the id a client object holds after Batch.submit() is the id the server
    assigns to the spec that object produced (start + relative - 1, what oracles.c09 checks on the server side)."""
    from harness.core import Failure
    res = ctx.run_impl('c09_client_ids.py', {'cases': cases}, timeout=300)['results']
    fails, n = [], 0
    seen = set()
    for case, r in zip(cases, res):
        if 'err' in r:
            key = 'C09:client-classes-crashed'
            if key not in seen:
                seen.add(key)
                fails.append(Failure(key, f'{key}: {r["err"]}'[:400], {'client_case': case}, None, r['err']))
            continue
        for ui, (upd, got) in enumerate(zip(case['updates'], r['ok'])):
            for kind, specs, ids, start, field in (('job', got['job_specs'], got['client_job_ids'], upd['start_job'], 'job_id'),
                                                   ('group', got['group_specs'], got['client_group_ids'], upd['start_group'], 'job_group_id')):
                for spec, cid in zip(specs, ids):
                    n += 1
                    want = start + spec[field] - 1
                    if cid != want:
                        key = f'C09:client-id-differs-from-server-id:{kind}'
                        if key not in seen:
                            seen.add(key)
                            detail = {'update': ui, 'start': start, 'relative': spec[field], 'server_assigns': want, 'client_holds': cid}
                            fails.append(Failure(key, f'{key}: {detail}'[:400], {'client_case': case}, want, cid))
    return fails, n


CLIENT_OPS = ('create_batch', 'create_update', 'create_groups', 'create_jobs', 'commit')


def _race_serial_oracle(ctx, named_histories, results):
    """Overlapping deliveries, on the implementation alone: for every executed race op (two requests A, B overlapping as described in
    META / harness/batchdb/race.py) of the given histories the SAME prefix is re-run on the real code with `A; B`, with `B; A` and --
    for a verbatim retry -- with a single delivery `A`, one transaction after the other.  The race must be SERIALISABLE: its two
    answers and the observable state after it equal those of one of the two serial orders; and for a request and its retry the state
    equals the state after a single delivery and batch-create / update-create / job-bunch / commit are answered as that delivery was."""
    from harness.core import Failure
    from harness.batchdb import corr as C
    jobs = []          # (name, history, index of the race op, entry)
    for name, h, ents in zip(*named_histories, results):
        for i, (op, ent) in enumerate(zip(h, ents)):
            info = C.race_info(ent) if C.is_race(op) else None
            # client requests only: races of driver / worker messages (corpus/C04/races.json) are the business of C04, C05, C06, C10
            if info is not None and info.get('mode') == 'overlap' and info.get('paused') \
                    and op['first'].get('op') in CLIENT_OPS and op['second'].get('op') in CLIENT_OPS:
                jobs.append((name, h, i, ent, info))
    serial, meta = [], []
    for name, h, i, ent, info in jobs:
        a, b = h[i]['first'], h[i]['second']
        serial.append(h[:i] + [a, b])
        serial.append(h[:i] + [b, a])
        single = a == b
        if single:
            serial.append(h[:i] + [a])
        meta.append(single)
    fails, seen = [], set()
    stats = {'races': len(jobs), 'serial_runs': len(serial), 'blocked': sum(1 for j in jobs if j[4].get('blocked_on')),
             'with_snapshot_reads': sum(1 for j in jobs if j[4].get('stale_reads')), 'matches_first_second': 0, 'matches_second_first': 0,
             'kinds': {}}
    if not serial:
        return fails, stats
    res = C.run_impl(ctx, serial, 'last', timeout=1200)['results']
    it = iter(res)
    for (name, h, i, ent, info), single in zip(jobs, meta):
        a, b = h[i]['first'], h[i]['second']
        kind = f"{a['op']}-vs-{'retry' if single else b['op']}"
        stats['kinds'][kind] = stats['kinds'].get(kind, 0) + 1
        ab, ba = next(it), next(it)
        one = next(it) if single else None
        raced = (info['first'], info['second'], ent['obs'])
        s_ab = (ab[i]['result'], ab[i + 1]['result'], ab[i + 1]['obs'])
        s_ba = (ba[i + 1]['result'], ba[i]['result'], ba[i + 1]['obs'])
        m_ab, m_ba = raced == s_ab, raced == s_ba
        stats['matches_first_second'] += m_ab
        stats['matches_second_first'] += m_ba
        case = {'history': h[:i + 1], 'source': name}
        if not (m_ab or m_ba):
            key = f'C09:race-not-serialisable:{kind}'
            if key not in seen:
                seen.add(key)
                import oracles
                detail = {'pause': h[i].get('pause'), 'raced_answers': [info['first'], info['second']],
                          'first;second answers': [s_ab[0], s_ab[1]], 'second;first answers (first, second)': [s_ba[0], s_ba[1]],
                          'state_vs_first;second': oracles.diff_obs(s_ab[2], raced[2]), 'state_vs_second;first': oracles.diff_obs(s_ba[2], raced[2]),
                          'events': info.get('events')}
                fails.append(Failure(key, f'{key}: {detail}'[:600], case, {'serial': [s_ab[:2], s_ba[:2]]}, detail))
        if single and 'ok' in one[i]['result'] and not (a['op'] == 'commit' and one[i]['result']['ok'].get('rc')):
            if one[i]['obs'] != raced[2]:
                key = f'C09:race-retry-differs-from-single-delivery:{a["op"]}'
                if key not in seen:
                    seen.add(key)
                    import oracles
                    detail = {'pause': h[i].get('pause'), 'raced_answers': [info['first'], info['second']], 'single_delivery_answer': one[i]['result'],
                              'state_after_race_vs_single_delivery': oracles.diff_obs(one[i]['obs'], raced[2]), 'events': info.get('events')}
                    fails.append(Failure(key, f'{key}: {detail}'[:600], case, one[i]['result'], detail))
            elif a['op'] != 'create_groups' and not (info['first'] == info['second'] == one[i]['result']):
                key = f'C09:race-retry-answered-unlike-single-delivery:{a["op"]}'
                if key not in seen:
                    seen.add(key)
                    detail = {'pause': h[i].get('pause'), 'raced_answers': [info['first'], info['second']], 'single_delivery_answer': one[i]['result']}
                    fails.append(Failure(key, f'{key}: {detail}'[:600], case, one[i]['result'], detail))
    return fails, stats


def _race_histories(ctx):
    doc = family.shared_run(ctx)
    impl = doc.get('impl')
    if impl is None:
        return ([], []), []
    names, hs, res = [], [], []
    for name, h, ents in zip(doc['names'], doc['histories'], impl['results']):
        if name.startswith('tieonly/'):
            continue
        if any(isinstance(op, dict) and op.get('op') == 'race' for op in h):
            names.append(name)
            hs.append(h)
            res.append(ents)
    return (names, hs), res


def oracle(ctx, budget):
    fails, stats = _family_oracle(ctx, budget)
    cfails, n = _client_oracle(ctx, _cases(ctx))
    stats.setdefault('histograms', {})['oracle_C09_client_specs'] = {'specs': n, 'failures': len(cfails)}
    named, res = _race_histories(ctx)
    rfails, rstats = _race_serial_oracle(ctx, named, res)
    stats['histograms']['oracle_C09_races'] = rstats
    have = {f.key for f in fails}
    return fails + [f for f in rfails if f.key not in have] + cfails, stats


def replay(ctx, doc):
    case = doc.get('case') or {}
    if isinstance(case, dict) and 'client_case' in case:
        fails, n = _client_oracle(ctx, [case['client_case']])
        return {'client_case': case['client_case'], 'specs': n, 'oracle': [f.key for f in fails]}
    out = family.replay(ctx, doc)
    h = case.get('history') if isinstance(case, dict) else None
    if h and any(isinstance(op, dict) and op.get('op') == 'race' for op in h):
        from harness.batchdb import corr as C
        res = C.run_impl(ctx, [h], 'all')['results']
        rf, rs = _race_serial_oracle(ctx, (['replay'], [h]), res)
        out['race_oracle'] = [f.key for f in rf]
        out['race_stats'] = rs
        out['race_reports'] = [C.race_info(e) for op, e in zip(h, res[0]) if C.is_race(op)]
    return out
