"""C21 — the retry policy retries exactly the transient failures (hail/python/hailtop/utils/utils.py).

Tie:
  T  `delay_ms_for_try` (straight-line arithmetic), the module constants it uses, the defaults with which the retry loop
     calls it, and the if/elif decision chain of the `except Exception as e` handler of
     `retry_transient_errors_with_debug_string`, and the chain-following tails of is_limited_retries_error /
     is_transient_error (`if e.__cause__ is not None: return f(e.__cause__)`; everything before the tail is checked to look at
     the object itself only: no dunder attribute, no introspection, `e` does not escape) are regenerated from the current source into coq/generated/C21/Gen.v;
     Lemmas.v proves them equal to the hand model, Props_C21.v states the theorems about the loop model instantiated with
     the GENERATED pieces (Retry/Inst.v).
  X  the loop skeleton (`run` in Retry/Model.v) is compared with the REAL coroutine: scripted failure sequences (class-vector
     probes, real aiohttp / OSError / hailtop.httpx / TransientError / chained instances, BaseExceptions), patched
     asyncio.sleep and random.randrange; (calls, outcome, sleeps) must agree, through all three entry points.
     Chained exception objects (Retry/Chain.v: kind, __cause__, __context__, __suppress_context__) built by real raise
     statements (from / implicit / from None / mixed / re-raise) are classified by the real classifiers and by the model.
Oracle: the property statement itself, evaluated on the real helpers with a hand-written catalogue of exception instances
whose documented class (transient / rate-limit / limited-retry / permanent, incl. chained with `from` and errors raised while
another error was being handled: implicit __context__, `from None`, mixed) is the expectation — it does not use the model.
"""
import ast
import itertools
import json
import os

from harness.core import (Corr, Disagreement, Failure, TieBroken, coq_eval, zlit, listlit, blit)
from harness.translate.pyast import PyToCoq, find_function, Unsupported

ID = 'C21'
SRC = 'hail/python/hailtop/utils/utils.py'
COQ_PROPS = 'theories/Retry/Props_C21.v'
COQ_EXTRA = ['theories/Retry/Inst.v']
READY = True
META = dict(
    design_ref='§5.C C21',
    technique='Coq proofs (induction over the failure script) about a loop model whose decision chain and delay arithmetic are '
              'regenerated from the Python source by a fail-closed AST translator; loop skeleton tied by a correspondence run of the '
              'real coroutine with scripted exceptions, patched asyncio.sleep and random.randrange',
    level_text='Machine-checked theorems (Coq 8.16, closed under the global context), for EVERY finite script of failures before '
               'success, every exception type and every three classifier functions: a failure that is transient or rate-limit is '
               'always followed by another call; a script of only such failures ends in success after len+1 calls; a limited-retry '
               'error that is neither transient nor rate-limit is retried iff it is among the first five failures (so at most five '
               'are ever retried); a permanent error or a non-Exception BaseException is raised at once (calls = position+1, no '
               'sleep after it); exactly one sleep separates consecutive calls and the t-th sleep d satisfies '
               'min(max, c_t div 2) <= d <= min(max, c_t), d <= max with c_t = base*2^min(t,30), for every value randrange can '
               'return. delay_ms_for_try has the same bounds for all tries>=0, base>=0, max. The decision chain, the delay '
               'arithmetic, its constants and the loop\'s call of it are regenerated from utils.py on every run and proved equal to '
               'the hand model; the loop skeleton is compared with the real coroutine (all three async entry points). '
               'Chained exceptions: an exception object is (kind, __cause__, __context__, __suppress_context__), a finite tree; '
               'is_limited_retries_error and is_transient_error are modelled as [own tests on the object] followed by the chain-following tail, '
               'which is regenerated from the source and proved to follow __cause__ only (C21_classifier_tails_follow_cause_only); proved for all '
               'objects and scripts: the classification depends only on the kinds along the __cause__ chain (C21_classification_ignores_context), '
               'the whole loop (outcome, calls, sleeps) is unchanged when everything hanging off __context__ links is changed or erased '
               '(C21_loop_ignores_context), and an error that is nothing in itself and has no __cause__ is raised at once whatever was being handled '
               'when it was raised, implicitly or `from None` (C21_permanent_raised_while_handling_immediate). The chain model is compared with the real '
               'classifiers on object graphs made by real raise statements (exhaustive over 4 atoms x cause x context x from None, plus random graphs '
               'to depth 5 over 20 atoms).',
    level_note='In the loop theorems the three classifiers are universally quantified functions; in the chain theorems their link-following '
               'structure is modelled (tail generated from the source) while the tests on the object itself are a universally quantified '
               'function `own` (in the correspondence: measured on bare instances). Which concrete exceptions they accept is checked only by the '
               'oracle against a hand-written catalogue of documented cases. __cause__ chains that loop back (two opposite `raise .. from ..`) are '
               'outside the model: exception objects are finite trees (the real classifiers raise RecursionError on such a loop). Trusted: Coq kernel; harness/translate/pyast.py + the C21 handler-chain '
               'walker; the loader stubs for aiodocker/urllib3/requests/botocore (exception classes only); CPython asyncio; the '
               'patched asyncio.sleep / random.randrange. Logging side effects are ignored. sync_retry_transient_errors is covered by '
               'the oracle only.',
    partial=False,
)
TRUSTED = ['translator harness/translate/pyast.py + C21 subclass (<<, random.randrange) + C21 handler-chain walker (benign-statement filter) '
           '+ C21 classifier-tail walker (_classifier_tail: link-following ifs at the end, object-only statements before)',
           'loader stubs: aiodocker, urllib3, requests, botocore are permissive stubs (only their exception class identities are used)',
           'CPython 3.12 asyncio; asyncio.sleep, time.sleep and random.randrange are patched inside hailtop.utils.utils for the runs',
           'correspondence harness harness/impl/c21_retry.py']
ASSUMPTIONS = ['the operation is modelled by a finite script of failures after which it succeeds',
               'exception objects are finite trees over __cause__ / __context__ (no __cause__ loop)',
               'the tests a classifier makes before its tail depend on the object itself only (checked syntactically by the tail walker; attributes such as os_error are part of the object)',
               'classifier results for a given exception object do not change between calls (they are pure functions of the exception)',
               'log.warning / traceback formatting never raise']

CLASSIFIERS = {'is_limited_retries_error': 'limited', 'is_rate_limit_error': 'rate_limit', 'is_transient_error': 'transient'}


# ------------------------------------------------------------------------------------------------ T: translator

class _Tr(PyToCoq):
    """adds `a << b` on ints"""

    def binop(self, n):
        if isinstance(n.op, ast.LShift):
            l, sl = self.expr(n.left)
            r, sr = self.expr(n.right)
            if sl == 'Z' and sr == 'Z':
                return f'(Z.shiftl {l} {r})', 'Z'
            raise Unsupported(n, 'shift on non-ints')
        return super().binop(n)


def _module_int_consts(tree, wanted):
    out = {}
    for node in tree.body:
        if isinstance(node, ast.Assign) and len(node.targets) == 1 and isinstance(node.targets[0], ast.Name):
            name = node.targets[0].id
            if name in wanted:
                if name in out:
                    raise TieBroken('py-translator', f'{name} assigned twice at module level')
                if not (isinstance(node.value, ast.Constant) and isinstance(node.value.value, int)
                        and not isinstance(node.value.value, bool)):
                    raise TieBroken('py-translator', f'{name} is not an int literal: `{ast.unparse(node.value)}`')
                out[name] = node.value.value
    return out


def _free_names(node):
    return {n.id for n in ast.walk(node) if isinstance(n, ast.Name)}


def _is_benign(stmt, protected):
    """A statement that cannot change whether/with what the loop continues: logging, `pass`, assignments to other locals,
    and `if`s made of such statements."""
    if isinstance(stmt, ast.Pass):
        return True
    for n in ast.walk(stmt):
        if isinstance(n, (ast.Raise, ast.Return, ast.Break, ast.Continue, ast.Await, ast.Yield, ast.YieldFrom, ast.Try, ast.While,
                          ast.For, ast.AsyncFor, ast.With, ast.AsyncWith, ast.FunctionDef, ast.AsyncFunctionDef, ast.Lambda,
                          ast.ClassDef, ast.Global, ast.Nonlocal, ast.Delete, ast.NamedExpr, ast.Assert)):
            return False
        if isinstance(n, ast.Name) and isinstance(n.ctx, (ast.Store, ast.Del)) and n.id in protected:
            return False
    if isinstance(stmt, ast.Expr):
        c = stmt.value
        return (isinstance(c, ast.Call) and isinstance(c.func, ast.Attribute) and isinstance(c.func.value, ast.Name)
                and c.func.value.id == 'log')
    if isinstance(stmt, ast.Assign):
        return all(isinstance(t, ast.Name) for t in stmt.targets)
    if isinstance(stmt, ast.If):
        return all(_is_benign(s, protected) for s in stmt.body + stmt.orelse)
    return False


def _decision_tree(stmts, tr, protected):
    """Gallina bool expression: true = control reaches the end of the handler (retry), false = bare `raise`."""
    if not stmts:
        return 'true'
    s, rest = stmts[0], stmts[1:]
    if _is_benign(s, protected):
        return _decision_tree(rest, tr, protected)
    if isinstance(s, ast.Raise):
        if s.exc is not None or s.cause is not None or rest:
            raise Unsupported(s, 'only a bare `raise` ending its block is understood')
        return 'false'
    if isinstance(s, ast.If):
        c = tr.truth(*tr.expr(s.test), s.test)
        a = _decision_tree(list(s.body) + list(rest), tr, protected)
        b = _decision_tree(list(s.orelse) + list(rest), tr, protected)
        return f'(if {c} then {a} else {b})'
    raise Unsupported(s, 'statement in the exception handler')


def _classifier_call(var):
    def f(tr, n):
        if len(n.args) != 1 or not isinstance(n.args[0], ast.Name) or n.args[0].id != tr.exc_name:
            raise Unsupported(n, 'classifier must be applied to the caught exception')
        return var, 'bool'
    return f


def _randrange(tr, n):
    if not (isinstance(n.func.value, ast.Name) and n.func.value.id == 'random' and len(n.args) == 1):
        raise Unsupported(n, 'expected random.randrange(<one argument>)')
    a, s = tr.expr(n.args[0])
    if s != 'Z':
        raise Unsupported(n, 'randrange on non-int')
    return f'(randrange {a})', 'Z'


LINKS = {'__cause__': 'cause', '__context__': 'context'}
_INTROSPECTION = {'getattr', 'hasattr', 'vars', 'dir', 'traceback', 'inspect', 'locals', 'globals', 'eval', 'exec'}


def _classifier_tail(src, name):
    """The chain-following tail of a classifier `def name(e)`:
           <statements that look at e itself only>
           [if e.<link> is not None: return name(e.<link>)]*
           return False
    Returns the list of links followed, in order.  Fail closed: the statements before the tail may use `e` only as
    `isinstance(e, ...)` or `e.<non-dunder attribute>`, never rebind it, and never use introspection helpers - so whatever
    they compute is a function of the object itself, not of what it is chained to."""
    fn = find_function(src, name)
    a = fn.args
    if a.vararg or a.kwarg or a.kwonlyargs or a.posonlyargs or len(a.args) != 1:
        raise TieBroken('py-translator', f'{name}: expected exactly one parameter')
    p = a.args[0].arg
    body = [s for s in fn.body if not (isinstance(s, ast.Expr) and isinstance(s.value, ast.Constant))]
    if not body or ast.unparse(body[-1]) != 'return False':
        raise TieBroken('py-translator', f'{name}: does not end with `return False`')
    links = []
    k = len(body) - 1
    while k > 0:
        st = body[k - 1]
        m = None
        if (isinstance(st, ast.If) and not st.orelse and len(st.body) == 1 and isinstance(st.test, ast.Compare)
                and len(st.test.ops) == 1 and isinstance(st.test.ops[0], ast.IsNot)
                and isinstance(st.test.comparators[0], ast.Constant) and st.test.comparators[0].value is None
                and isinstance(st.test.left, ast.Attribute) and isinstance(st.test.left.value, ast.Name)
                and st.test.left.value.id == p and st.test.left.attr.startswith('__')):
            link = st.test.left.attr
            if ast.unparse(st.body[0]) == f'return {name}({p}.{link})':
                m = link
        if m is None:
            break
        if m not in LINKS:
            raise TieBroken('py-translator', f'{name}: follows unknown link {m}')
        links.insert(0, m)
        k -= 1
    parents = {}
    for st in body[:k]:
        for n in ast.walk(st):
            for c in ast.iter_child_nodes(n):
                parents[c] = n
    for st in body[:k]:
        for n in ast.walk(st):
            where = f'{name} line {getattr(n, "lineno", st.lineno)}'
            if isinstance(n, ast.Attribute) and n.attr.startswith('__'):
                raise TieBroken('py-translator', f'{where}: `{ast.unparse(n)}` - a dunder attribute outside the chain-following tail')
            if isinstance(n, ast.Name) and n.id in _INTROSPECTION:
                raise TieBroken('py-translator', f'{where}: introspection helper `{n.id}`')
            if isinstance(n, (ast.FunctionDef, ast.AsyncFunctionDef, ast.Lambda, ast.ClassDef, ast.Try, ast.While, ast.For, ast.With,
                              ast.Global, ast.Nonlocal, ast.Delete, ast.NamedExpr)):
                raise TieBroken('py-translator', f'{where}: unexpected {type(n).__name__} in a classifier')
            if isinstance(n, ast.Name) and n.id == p:
                if not isinstance(n.ctx, ast.Load):
                    raise TieBroken('py-translator', f'{where}: `{p}` is rebound')
                par = parents.get(n)
                ok = (isinstance(par, ast.Attribute) and par.value is n) or \
                     (isinstance(par, ast.Call) and isinstance(par.func, ast.Name) and par.func.id == 'isinstance' and par.args and par.args[0] is n)
                if not ok:
                    raise TieBroken('py-translator', f'{where}: `{p}` escapes (`{ast.unparse(par)[:80]}`): only isinstance({p}, ..) and {p}.<attr> are understood')
    return links


def _tail_def(name, links):
    body = 'false'
    for link in reversed(links):
        body = f'match {LINKS[link]} e with Some c => rec c | None => {body} end'
    return (f'(* tail of {name}: ' + (' ; '.join(f'if e.{l} is not None: return {name}(e.{l})' for l in links) or '(no link followed)') + ' ; return False *)\n'
            f'Definition {name}_tail {{X : Type}} (cause context : X -> option X) (rec : X -> bool) (e : X) : bool :=\n  {body}.\n')


def generate(ctx):
    src = ctx.read_repo(SRC)
    tree = ast.parse(src)

    # ---- chain-following tails of the classifiers
    tails = {n: _classifier_tail(src, n) for n in ('is_limited_retries_error', 'is_transient_error', 'is_rate_limit_error')}
    if tails['is_rate_limit_error']:
        raise TieBroken('py-translator', f'is_rate_limit_error follows {tails["is_rate_limit_error"]} (modelled as a function of the object itself)')
    tail_defs = '\n'.join(_tail_def(n, tails[n]) for n in ('is_limited_retries_error', 'is_transient_error'))

    # ---- delay_ms_for_try
    fn = find_function(src, 'delay_ms_for_try')
    if fn.args.vararg or fn.args.kwarg or fn.args.kwonlyargs or fn.args.posonlyargs:
        raise TieBroken('py-translator', 'delay_ms_for_try: unexpected parameter kinds')
    params = [a.arg for a in fn.args.args]
    if params != ['tries', 'base_delay_ms', 'max_delay_ms']:
        raise TieBroken('py-translator', f'delay_ms_for_try: unexpected parameters {params}')
    body_names = set().union(*[_free_names(s) for s in fn.body]) | set().union(*[_free_names(d) for d in fn.args.defaults])
    const_names = {n for n in body_names if n.isupper()}
    consts = _module_int_consts(tree, const_names)
    missing = const_names - set(consts)
    if missing:
        raise TieBroken('py-translator', f'module constants not found as int literals: {sorted(missing)}')
    tr = _Tr(sorts={p: 'Z' for p in params}, consts={k: (k, 'Z') for k in consts}, calls={'.randrange': _randrange})
    delay_body = tr.function_body(fn)
    if getattr(tr, 'return_sort', None) != 'Z':
        raise TieBroken('py-translator', 'delay_ms_for_try does not return an int expression')
    defaults = fn.args.defaults
    if len(defaults) != 2:
        raise TieBroken('py-translator', 'delay_ms_for_try: expected defaults for base_delay_ms and max_delay_ms')
    dtr = _Tr(sorts={}, consts={k: (k, 'Z') for k in consts})
    d_base, s1 = dtr.expr(defaults[0])
    d_max, s2 = dtr.expr(defaults[1])
    if s1 != 'Z' or s2 != 'Z':
        raise TieBroken('py-translator', 'non-int defaults')

    # ---- the retry loop
    loop = find_function(src, 'retry_transient_errors_with_debug_string')
    if not isinstance(loop, ast.AsyncFunctionDef):
        raise TieBroken('py-translator', 'retry_transient_errors_with_debug_string is not a coroutine function')
    stmts = [s for s in loop.body if not (isinstance(s, ast.Expr) and isinstance(s.value, ast.Constant))]
    pre, whiles = [s for s in stmts if not isinstance(s, ast.While)], [s for s in stmts if isinstance(s, ast.While)]
    if len(whiles) != 1 or stmts[-1] is not whiles[0]:
        raise TieBroken('py-translator', 'expected exactly one trailing `while True:` loop')
    w = whiles[0]
    if not (isinstance(w.test, ast.Constant) and w.test.value is True) or w.orelse:
        raise TieBroken('py-translator', 'loop is not `while True:`')
    init = [s for s in pre if isinstance(s, ast.Assign) and any(isinstance(t, ast.Name) and t.id == 'tries' for t in s.targets)]
    if len(init) != 1 or ast.unparse(init[0]) != 'tries = 0':
        raise TieBroken('py-translator', 'expected `tries = 0` before the loop')
    for s in pre:
        if s is not init[0] and not _is_benign(s, {'tries', 'delay'}):
            raise TieBroken('py-translator', f'line {s.lineno}: unexpected statement before the loop `{ast.unparse(s)[:80]}`')
    if len(w.body) != 2 or not isinstance(w.body[0], ast.Try):
        raise TieBroken('py-translator', 'loop body is not [try/except, await asyncio.sleep(delay)]')
    t, sl = w.body
    if ast.unparse(sl) != 'await asyncio.sleep(delay)':
        raise TieBroken('py-translator', f'line {sl.lineno}: expected `await asyncio.sleep(delay)`, got `{ast.unparse(sl)[:80]}`')
    if t.orelse or t.finalbody or len(t.body) != 1 or ast.unparse(t.body[0]) != 'return await f(*args, **kwargs)':
        raise TieBroken('py-translator', 'try body is not `return await f(*args, **kwargs)`')
    handlers = t.handlers
    if len(handlers) != 2:
        raise TieBroken('py-translator', f'expected 2 except clauses, found {len(handlers)}')
    h0, h1 = handlers
    if not (isinstance(h0.type, ast.Name) and h0.type.id == 'KeyboardInterrupt' and len(h0.body) == 1
            and isinstance(h0.body[0], ast.Raise) and h0.body[0].exc is None):
        raise TieBroken('py-translator', 'first handler is not `except KeyboardInterrupt: raise`')
    if not (isinstance(h1.type, ast.Name) and h1.type.id == 'Exception' and h1.name):
        raise TieBroken('py-translator', 'second handler is not `except Exception as <name>:`')
    exc = h1.name
    hb = list(h1.body)
    if len(hb) < 2 or ast.unparse(hb[0]) != 'tries += 1':
        raise TieBroken('py-translator', 'handler does not start with `tries += 1`')
    d = hb[1]
    ok = (isinstance(d, ast.Assign) and len(d.targets) == 1 and isinstance(d.targets[0], ast.Name) and d.targets[0].id == 'delay'
          and isinstance(d.value, ast.BinOp) and isinstance(d.value.op, ast.Div)
          and isinstance(d.value.right, ast.Constant) and d.value.right.value == 1000.0
          and isinstance(d.value.left, ast.Call) and isinstance(d.value.left.func, ast.Name)
          and d.value.left.func.id == 'delay_ms_for_try' and not d.value.left.keywords)
    if not ok:
        raise TieBroken('py-translator', f'line {d.lineno}: expected `delay = delay_ms_for_try(tries, ...) / 1000.0`, got `{ast.unparse(d)[:100]}`')
    call_args = d.value.left.args
    if not call_args or ast.unparse(call_args[0]) != 'tries' or len(call_args) > 3:
        raise TieBroken('py-translator', 'delay_ms_for_try is not called with the loop variable `tries`')
    ctr = _Tr(sorts={}, consts={k: (k, 'Z') for k in _module_int_consts(tree, {n for a in call_args[1:] for n in _free_names(a)})})
    loop_base = ctr.expr(call_args[1])[0] if len(call_args) > 1 else d_base
    loop_max = ctr.expr(call_args[2])[0] if len(call_args) > 2 else d_max
    extra_consts = ctr.consts
    htr = _Tr(sorts={'tries': 'Z'}, calls={k: _classifier_call(v) for k, v in CLASSIFIERS.items()})
    htr.exc_name = exc
    decision = _decision_tree(hb[2:], htr, {'tries', 'delay', exc})

    all_consts = dict(consts)
    for k in extra_consts:
        all_consts.setdefault(k, _module_int_consts(tree, {k})[k])
    const_defs = '\n'.join(f'Definition {k} : Z := {zlit(v)}.' for k, v in sorted(all_consts.items()))
    text = f'''(* GENERATED by harness/props/C21.py from {SRC} — do not edit *)
From Coq Require Import ZArith List Bool.
Import ListNotations.
Open Scope Z_scope.

(* module-level constants *)
{const_defs}

Section Gen.
  Variable randrange : Z -> Z.     (* random.randrange *)

  (* def delay_ms_for_try(tries, base_delay_ms, max_delay_ms) *)
  Definition delay_ms_for_try (tries base_delay_ms max_delay_ms : Z) : Z :=
{delay_body}.
End Gen.

(* the retry loop computes `delay = {ast.unparse(d.value)}` *)
Definition loop_base_delay_ms : Z := {loop_base}.
Definition loop_max_delay_ms : Z := {loop_max}.
Definition loop_delay_ms (randrange : Z -> Z) (tries : Z) : Z :=
  delay_ms_for_try randrange tries loop_base_delay_ms loop_max_delay_ms.

(* `except Exception as {exc}:` handler after `tries += 1`: true = fall through to `await asyncio.sleep(delay)`, false = `raise` *)
Definition retry_decision (tries : Z) (limited rate_limit transient : bool) : bool :=
  {decision}.

(* chain-following tails of the classifiers over an abstract exception object with __cause__ / __context__ links;
   `rec` is the classifier itself *)
{tail_defs}'''
    if 'LOG_2_MAX_MULTIPLIER' not in all_consts:
        raise TieBroken('py-translator', 'delay_ms_for_try no longer uses LOG_2_MAX_MULTIPLIER (the model is stated with it)')
    ctx.write_generated('Gen.v', text)


# ------------------------------------------------------------------------------------------------ catalogue (oracle expectations)
# Documented class of concrete exception instances, from the comments and tables of utils.py (RETRYABLE_HTTP_STATUS_CODES,
# RETRYABLE_ERRNOS, RETRY_ONCE_BAD_REQUEST_ERROR_MESSAGES, the observed-exception list above is_transient_error).
#   'retry'     transient and/or rate-limit: must be retried until success
#   'limited'   limited-retry error that is not otherwise transient: at most five retries
#   'permanent' anything else: raised immediately
def _x(ty, **kw):
    d = {'t': 'exc', 'type': ty}
    d.update(kw)
    return d


_RESET = _x('ConnectionResetError')            # no errno: not in RETRYABLE_ERRNOS
CATALOGUE = [
    # --- transient / rate limit
    *[(f'aiohttp-{s}', _x('aiohttp.ClientResponseError', status=s), 'retry') for s in (408, 429, 500, 502, 503, 504)],
    *[(f'httpx-{s}', _x('hailtop.httpx.ClientResponseError', status=s), 'retry') for s in (408, 429, 500, 502, 503, 504)],
    ('httpx-403-rateLimitExceeded', _x('hailtop.httpx.ClientResponseError', status=403, body='{"reason": "rateLimitExceeded"}'), 'retry'),
    # only the exact Google reason string marks a 403 as a rate-limit answer: look-alikes are ordinary (permanent) 403s
    *[(f'httpx-403-lookalike-{i}', _x('hailtop.httpx.ClientResponseError', status=403, body=b), 'permanent')
      for i, b in enumerate(['{"reason": "userRateLimitExceeded"}', '{"reason": "ratelimitexceeded"}', '{"reason": "RATELIMITEXCEEDED"}',
                             '{"reason": "rate limit exceeded"}', '{"reason": "quotaExceeded"}'])],
    ('server-timeout', _x('aiohttp.ServerTimeoutError'), 'retry'),
    ('server-disconnected', _x('aiohttp.ServerDisconnectedError'), 'retry'),
    ('asyncio-timeout', _x('asyncio.TimeoutError'), 'retry'),
    ('connector-econnrefused', _x('aiohttp.ClientConnectorError', os_error=_x('OSError', errno='ECONNREFUSED')), 'retry'),
    ('connector-ehostunreach', _x('aiohttp.ClientConnectorError', os_error=_x('OSError', errno='EHOSTUNREACH')), 'retry'),
    ('payload-not-completed', _x('aiohttp.ClientPayloadError', msg='Response payload is not completed'), 'retry'),
    ('ssl-bad-record-mac', _x('aiohttp.ClientOSError', errno=1, strerror='[SSL: SSLV3_ALERT_BAD_RECORD_MAC] sslv3 alert bad record mac (_ssl.c:2548)'), 'retry'),
    ('clientoserror-econnreset', _x('aiohttp.ClientOSError', errno='ECONNRESET', strerror='Connection reset by peer'), 'retry'),
    *[(f'oserror-{n}', _x('OSError', errno=n), 'retry')
      for n in ('EADDRNOTAVAIL', 'ETIMEDOUT', 'ECONNREFUSED', 'EHOSTUNREACH', 'ECONNRESET', 'ENETUNREACH', 'EPIPE')],
    ('socket-timeout', _x('socket.timeout'), 'retry'),
    ('gaierror-again', _x('socket.gaierror', errno='EAI_AGAIN'), 'retry'),
    ('gaierror-noname', _x('socket.gaierror', errno='EAI_NONAME'), 'retry'),
    ('transient-error', _x('TransientError'), 'retry'),
    ('gcp-quota', _x('GCPOperationError', error_codes=['QUOTA_EXCEEDED']), 'retry'),
    ('stub-urllib3-readtimeout', _x('stub.urllib3.ReadTimeoutError'), 'retry'),
    ('stub-requests-connectionerror', _x('stub.requests.ConnectionError'), 'retry'),
    ('stub-botocore-connectionclosed', _x('stub.botocore.ConnectionClosedError'), 'retry'),
    ('stub-docker-503', _x('stub.DockerError', status=503, message='service unavailable'), 'retry'),
    ('stub-docker-500', _x('stub.DockerError', status=500, message='internal error'), 'retry'),
    ('chain-runtime<-transient', _x('RuntimeError', cause=_x('TransientError')), 'retry'),
    ('chain-value<-runtime<-econnreset', _x('ValueError', cause=_x('RuntimeError', cause=_x('OSError', errno='ECONNRESET'))), 'retry'),
    ('chain-exception<-aiohttp-503', _x('Exception', cause=_x('aiohttp.ClientResponseError', status=503)), 'retry'),
    ('chain-aiohttp-404<-timeout', _x('aiohttp.ClientResponseError', status=404, cause=_x('asyncio.TimeoutError')), 'retry'),
    ('chain-aiohttp-429<-reset', _x('aiohttp.ClientResponseError', status=429, cause=_RESET), 'retry'),
    # explicit wrapper around a transient error, raised while something unrelated was being handled
    ('ctx-runtime<-transient|handling-value', _x('RuntimeError', cause=_x('TransientError'), context=_x('ValueError')), 'retry'),
    ('ctx-transient|handling-value', _x('TransientError', context=_x('ValueError')), 'retry'),
    ('ctx-oserror-econnreset|handling-key-from-none', _x('OSError', errno='ECONNRESET', context=_x('KeyError'), from_none=True), 'retry'),
    ('ctx-reraise-transient-from-value', _x('TransientError', reraise_from=_x('ValueError')), 'retry'),
    # --- limited-retry only
    ('reset-no-errno', _RESET, 'limited'),
    ('refused-no-errno', _x('ConnectionRefusedError'), 'limited'),
    ('httpx-400-user-project', _x('hailtop.httpx.ClientResponseError', status=400, body='User project specified in the request is invalid.'), 'limited'),
    ('httpx-400-invalid-grant', _x('hailtop.httpx.ClientResponseError', status=400, body='{"error": "Invalid grant: account not found"}'), 'limited'),
    ('stub-docker-404-azurecr', _x('stub.DockerError', status=404, message='x.azurecr.io/y not found: manifest unknown: z'), 'limited'),
    ('chain-runtime<-reset', _x('RuntimeError', cause=_RESET), 'limited'),
    ('chain-key<-value<-refused', _x('KeyError', cause=_x('ValueError', cause=_x('ConnectionRefusedError'))), 'limited'),
    ('ctx-runtime<-reset|handling-key', _x('RuntimeError', cause=_RESET, context=_x('KeyError')), 'limited'),
    ('ctx-runtime<-reset|handling-transient', _x('RuntimeError', cause=_RESET, context=_x('TransientError')), 'limited'),
    ('ctx-reset|handling-transient', _x('ConnectionResetError', context=_x('TransientError')), 'limited'),
    # --- permanent
    *[(f'py-{n}', _x(n), 'permanent') for n in ('ValueError', 'KeyError', 'RuntimeError', 'AssertionError', 'ZeroDivisionError', 'TypeError')],
    *[(f'aiohttp-{s}', _x('aiohttp.ClientResponseError', status=s), 'permanent') for s in (400, 401, 403, 404, 409, 501)],
    *[(f'httpx-{s}', _x('hailtop.httpx.ClientResponseError', status=s, body='nope'), 'permanent') for s in (400, 401, 403, 404, 409)],
    ('oserror-ENOENT', _x('OSError', errno='ENOENT'), 'permanent'),
    ('oserror-EACCES', _x('OSError', errno='EACCES'), 'permanent'),
    ('oserror-no-errno', _x('OSError'), 'permanent'),
    ('payload-other', _x('aiohttp.ClientPayloadError', msg='bad chunk'), 'permanent'),
    ('clientoserror-eperm', _x('aiohttp.ClientOSError', errno=1, strerror='Operation not permitted'), 'permanent'),
    ('connector-eacces', _x('aiohttp.ClientConnectorError', os_error=_x('OSError', errno='EACCES')), 'permanent'),
    ('client-connection-error', _x('aiohttp.ClientConnectionError'), 'permanent'),
    ('gaierror-fail', _x('socket.gaierror', errno='EAI_FAIL'), 'permanent'),
    ('gcp-other', _x('GCPOperationError', error_codes=['RESOURCE_NOT_FOUND']), 'permanent'),
    ('gcp-none', _x('GCPOperationError', error_codes=None), 'permanent'),
    ('stub-docker-500-invalid-repo', _x('stub.DockerError', status=500, message='Invalid repository name (x)'), 'permanent'),
    ('stub-docker-500-unknown', _x('stub.DockerError', status=500, message='unknown: Tag v1 was deleted or has expired.'), 'permanent'),
    ('stub-docker-404', _x('stub.DockerError', status=404, message='no such image'), 'permanent'),
    ('chain-value<-key', _x('ValueError', cause=_x('KeyError')), 'permanent'),
    ('chain-runtime<-aiohttp-404', _x('RuntimeError', cause=_x('aiohttp.ClientResponseError', status=404)), 'permanent'),
    # --- permanent errors raised WHILE another error was being handled.  __context__ is set by the interpreter for any
    # exception raised inside an `except` block or in clean-up code; only `raise X from Y` (__cause__) makes X a wrapper of Y
    # (utils.py follows __cause__; "chained" in its comments is `from`).  Such an error is not the error that was being handled.
    ('ctx-value|handling-reset', _x('ValueError', context=_RESET), 'permanent'),
    ('ctx-value|handling-refused', _x('ValueError', context=_x('ConnectionRefusedError')), 'permanent'),
    ('ctx-value|handling-reset-from-none', _x('ValueError', context=_RESET, from_none=True), 'permanent'),
    ('ctx-value|handling-transient', _x('ValueError', context=_x('TransientError')), 'permanent'),
    ('ctx-key|handling-aiohttp-503-from-none', _x('KeyError', context=_x('aiohttp.ClientResponseError', status=503), from_none=True), 'permanent'),
    ('ctx-aiohttp-404|handling-timeout', _x('aiohttp.ClientResponseError', status=404, context=_x('asyncio.TimeoutError')), 'permanent'),
    ('ctx-assert|handling-httpx-400-user-project', _x('AssertionError', context=_x('hailtop.httpx.ClientResponseError', status=400, body='User project specified in the request is invalid.')), 'permanent'),
    ('ctx-value|handling-key|handling-reset', _x('ValueError', context=_x('KeyError', context=_RESET)), 'permanent'),
    ('ctx-runtime<-value|handling-reset', _x('RuntimeError', cause=_x('ValueError'), context=_RESET), 'permanent'),
    ('ctx-runtime<-value|handling-transient', _x('RuntimeError', cause=_x('KeyError'), context=_x('TransientError')), 'permanent'),
    ('ctx-runtime<-(value|handling-reset)', _x('RuntimeError', cause=_x('ValueError', context=_RESET)), 'permanent'),
    ('ctx-runtime<-(value|handling-transient)', _x('RuntimeError', cause=_x('ValueError', context=_x('TransientError'))), 'permanent'),
    ('ctx-value|handling-(runtime<-reset)', _x('ValueError', context=_x('RuntimeError', cause=_RESET)), 'permanent'),
    ('ctx-reraise-value-from-key', _x('ValueError', reraise_from=_x('KeyError')), 'permanent'),
]
BASES = [('base-KeyboardInterrupt', {'t': 'base', 'name': 'KeyboardInterrupt'}, 'base'),
         ('base-CancelledError', {'t': 'base', 'name': 'CancelledError'}, 'base'),
         ('base-SystemExit', {'t': 'base', 'name': 'SystemExit'}, 'base')]
CAT = {k: (spec, cls) for k, spec, cls in CATALOGUE + BASES}
assert len(CAT) == len(CATALOGUE) + len(BASES), 'duplicate catalogue ids'
ASYNC_ENTRIES = ['debug', 'plain', 'delayed']


def _case_from_ids(ids, entry='debug', draws=None):
    return {'entry': entry, 'ids': list(ids), 'script': [CAT[i][0] for i in ids], 'draws': draws if draws is not None else [], 'patched': False}


def _load_corpus(ctx):
    d = os.path.join(ctx.verif, 'corpus', ID)
    out = []
    if os.path.isdir(d):
        for fn in sorted(os.listdir(d)):
            if fn.endswith('.json'):
                doc = json.load(open(os.path.join(d, fn)))
                out.append(_case_from_ids(doc['ids'], doc.get('entry', 'debug'), doc.get('draws', [])))
    return out


# ------------------------------------------------------------------------------------------------ X: correspondence

def _probe(v):
    return {'t': 'probe', 'cls': [bool(x) for x in v]}


_BASE_EV = {'t': 'base', 'name': 'KeyboardInterrupt'}
_VECS = list(itertools.product([False, True], repeat=3))


def _corr_cases(ctx):
    rng = ctx.rng
    cases = []
    # (1) patched classifiers: every class vector incl. the overlaps the real classifiers never produce
    alphabet = [_probe(v) for v in _VECS] + [_BASE_EV]
    n = 0
    for ln in range(0, 4):
        for seq in itertools.product(alphabet, repeat=ln):
            cases.append({'entry': ASYNC_ENTRIES[n % 3], 'script': list(seq), 'draws': [rng.randrange(1 << 20) for _ in range(ln)],
                          'patched': True})
            n += 1
    lo, tr, pe, rl, lt = _probe((1, 0, 0)), _probe((0, 0, 1)), _probe((0, 0, 0)), _probe((0, 1, 0)), _probe((1, 0, 1))
    for ln in range(4, 9):          # around the five-retries boundary: all words over {limited-only, transient}
        for seq in itertools.product([lo, tr], repeat=ln):
            cases.append({'entry': ASYNC_ENTRIES[n % 3], 'script': list(seq), 'draws': [rng.randrange(1 << 20) for _ in range(ln)],
                          'patched': True})
            n += 1
    for _ in range(ctx.scale(300, 6000)):
        ln = rng.randint(4, 12)
        seq = [rng.choice([lo, lo, tr, tr, rl, lt, pe, rng.choice(alphabet)]) if i < ln - 1 or rng.random() < 0.5 else rng.choice(alphabet)
               for i in range(ln)]
        if rng.random() < 0.6:      # keep most scripts alive long enough to reach the boundary
            seq = [s if (s['t'] == 'probe' and (s['cls'][0] or s['cls'][1] or s['cls'][2])) else tr for s in seq[:6]] + seq[6:]
        cases.append({'entry': rng.choice(ASYNC_ENTRIES), 'script': seq,
                      'draws': [rng.choice([0, 1, (1 << 40) - 1, rng.randrange(1 << 40)]) for _ in range(ln)], 'patched': True})
    # long scripts: exponent cap at 30 and the warning branches (tries == 2, tries % 10 == 0)
    for ln in (10, 20, 31, 33):
        cases.append({'entry': 'debug', 'script': [tr] * ln, 'draws': [rng.randrange(1 << 50) for _ in range(ln)], 'patched': True})
    # (2) real classifiers on real instances
    ids = [k for k, _, _ in CATALOGUE]
    retry_ids = [k for k, _, c in CATALOGUE if c == 'retry']
    cases += _load_corpus(ctx)
    for k in ids + [b for b, _, _ in BASES]:
        cases.append(_case_from_ids([k], 'debug'))
        cases.append(_case_from_ids([rng.choice(retry_ids) for _ in range(5)] + [k, rng.choice(ids)], rng.choice(ASYNC_ENTRIES),
                                    [rng.randrange(1 << 30) for _ in range(7)]))
    for _ in range(ctx.scale(200, 4000)):
        ln = rng.randint(2, 10)
        seq = [rng.choice(retry_ids) if rng.random() < 0.7 else rng.choice(ids + [b for b, _, _ in BASES]) for _ in range(ln)]
        cases.append(_case_from_ids(seq, rng.choice(ASYNC_ENTRIES), [rng.randrange(1 << 30) for _ in range(ln)]))
    return cases


def _delay_grid(ctx):
    rng = ctx.rng
    grid = []
    for tries in list(range(0, 36)) + [40, 64, 1000]:
        for base, mx in ((1000, 60000), (0, 60000), (1, 5), (3, 10 ** 12), (1000, 0), (7, 100)):
            for draw in ('lo', 'hi', rng.randrange(1 << 45)):
                grid.append([tries, base, mx, draw])
    return grid


def _ev_expr(cls):
    if cls is None:
        return 'BaseExc'
    return f'(Exc ({blit(cls[0])}, {blit(cls[1])}, {blit(cls[2])}))'


HEADER = ('From Coq Require Import ZArith List Bool. Import ListNotations. From HailV Require Import Retry.Model Retry.Inst. '
          'From HailG Require C21.Gen. Open Scope Z_scope.')


def _model_outcome(v):
    o, calls, sleeps = v
    if o == 'Returned':
        oo = 'returned'
    else:
        oo = ['raised', o[1]]
    return oo, calls, sleeps


def _model_runs(ctx, cases, impl):
    exprs = []
    for c, r in zip(cases, impl):
        draws = c['draws'] if isinstance(c['draws'], list) else []
        exprs.append(f'retry_loop_cls {listlit([zlit(d) for d in draws])} {listlit([_ev_expr(x) for x in r["cls"]])}')
    return [_model_outcome(v) for v in coq_eval(ctx, HEADER, exprs, label='loop')]


# ---- chained exception objects: Retry.Chain.classify vs the real classifiers
# Atoms = exception objects without links.  What the tests of a classifier on the object itself decide (`own`) is MEASURED on
# the real classifier (bare atom; atom wrapped `from` a known positive); the structure - which links are followed, to any
# depth, through any mixture of __cause__ / __context__ / from None - is the model's prediction and is compared.
ATOMS = [
    _x('ValueError'), _RESET, _x('TransientError'), _x('hailtop.httpx.ClientResponseError', status=404, body='nope'),     # [:4] exhaustive scope
    _x('KeyError'), _x('RuntimeError'), _x('ConnectionRefusedError'), _x('ConnectionResetError', errno='ECONNRESET'),
    _x('asyncio.TimeoutError'), _x('aiohttp.ClientResponseError', status=503), _x('aiohttp.ClientResponseError', status=404),
    _x('hailtop.httpx.ClientResponseError', status=400, body='User project specified in the request is invalid.'),
    _x('hailtop.httpx.ClientResponseError', status=503), _x('hailtop.httpx.ClientResponseError', status=429),
    _x('stub.DockerError', status=404, message='x.azurecr.io/y not found: manifest unknown: z'), _x('stub.DockerError', status=404, message='no such image'),
    _x('stub.DockerError', status=503, message='service unavailable'),
    _x('aiohttp.ClientConnectorError', os_error=_x('OSError', errno='ECONNREFUSED')), _x('OSError', errno='ENOENT'), _x('OSError', errno='EPIPE'),
]
_POS = {0: _RESET, 2: _x('TransientError')}       # classifier index (limited, -, transient) -> an object it accepts


def _atom(a, **kw):
    d = dict(ATOMS[a])
    d['atom'] = a
    d.update(kw)
    return d


def _rand_shape(rng, depth):
    sp = _atom(rng.randrange(len(ATOMS)) if rng.random() < 0.6 else rng.randrange(4))
    if depth > 0:
        r = rng.random()
        if r < 0.06:
            sp['reraise_from'] = _rand_shape(rng, depth - 1)
            return sp
        if r < 0.45:
            sp['cause'] = _rand_shape(rng, depth - 1)
        if rng.random() < 0.5:
            sp['context'] = _rand_shape(rng, depth - 1)
        if 'cause' not in sp and rng.random() < 0.3:
            sp['from_none'] = True
    return sp


def _shapes(ctx):
    out = []
    small = [None, 0, 1, 2, 3]
    for root in range(4):
        for c in small:
            for x in small:
                for fn in ((False, True) if c is None else (False,)):
                    kw = {}
                    if c is not None:
                        kw['cause'] = _atom(c)
                    if x is not None:
                        kw['context'] = _atom(x)
                    if fn:
                        kw['from_none'] = True
                    out.append(_atom(root, **kw))
        for b in range(4):
            out.append(_atom(root, reraise_from=_atom(b)))
    for _ in range(ctx.scale(400, 5000)):
        out.append(_rand_shape(ctx.rng, ctx.rng.choice([1, 2, 2, 3, 4])))
    return out


def _shape_term(l):
    if l is None:
        return 'None'
    if l.get('atom') is None:
        raise RuntimeError(f'c21: an exception object without atom tag appeared in a chain: {l}')
    return f'(Some (Exn {l["atom"]}%nat {_shape_term(l["cause"])} {_shape_term(l["context"])} {blit(l["suppress"])}))'


def _links_stats(l, acc):
    if l is None:
        return 0
    d = 1 + max(_links_stats(l['cause'], acc), _links_stats(l['context'], acc))
    acc['cause'] += l['cause'] is not None
    acc['context'] += l['context'] is not None
    acc['suppressed_context'] += bool(l['context'] is not None and l['suppress'])
    return d


def _shape_corr(ctx):
    probes = []
    for a in range(len(ATOMS)):
        probes += [_atom(a), _atom(a, cause=dict(_POS[0])), _atom(a, cause=dict(_POS[2]))]
    shapes = _shapes(ctx)
    out = ctx.run_impl('c21_retry.py', {'cases': [], 'delay_cases': [], 'shapes': probes + shapes}, timeout=300)['shape_cls']
    pr, sh = out[:len(probes)], out[len(probes):]
    own = {0: [], 2: []}
    rate = []
    for a in range(len(ATOMS)):
        bare, wl, wt = pr[3 * a], pr[3 * a + 1], pr[3 * a + 2]
        for ci, w in ((0, wl), (2, wt)):
            own[ci].append('Some true' if bare['cls'][ci] else ('None' if w['cls'][ci] else 'Some false'))
        rate.append(bool(bare['cls'][1]))
    tl, tt = listlit(own[0]), listlit(own[2])
    exprs = []
    for r in sh:
        if r['cls'] is None:
            exprs.append('(false, false)')
            continue
        t = _shape_term(r['links'])[len('(Some '):-1]
        exprs.append(f'(classify (own_table {tl}) {t}, classify (own_table {tt}) {t})')
    vals = coq_eval(ctx, HEADER + ' From HailV Require Import Retry.Chain.', exprs, label='chain')
    dis, acc, depth_hist, distinct = [], {'cause': 0, 'context': 0, 'suppressed_context': 0}, {}, set()
    for sp, r, v in zip(shapes, sh, vals):
        if r['cls'] is None:
            dis.append(Disagreement('Chain.classify~is_limited_retries_error/is_transient_error', {'shape': sp}, 'terminates', r.get('error')))
            continue
        d = _links_stats(r['links'], acc)
        depth_hist[str(d)] = depth_hist.get(str(d), 0) + 1
        distinct.add(json.dumps(r['links'], sort_keys=True))
        m = {'limited': bool(v[0]), 'rate_limit': rate[sp['atom']], 'transient': bool(v[1])}
        i = dict(zip(('limited', 'rate_limit', 'transient'), r['cls']))
        if m != i:
            dis.append(Disagreement('Chain.classify~is_limited_retries_error/is_transient_error',
                                    {'shape': sp, 'links_set_by_the_interpreter': r['links'], 'own_limited': own[0], 'own_transient': own[2]}, m, i))
    return Corr(evaluations=len(shapes), distinct_nontrivial=sum(1 for x in distinct if '"cause": {' in x or '"context": {' in x),
                rule='chained exception objects built by real raise statements (raise X from Y / raise X inside except / from None / mixed / re-raise from a '
                     'secondary error), classified by the REAL is_limited_retries_error, is_rate_limit_error, is_transient_error and by Retry.Chain.classify '
                     '(vm_compute) on the links the interpreter really set; own-tests table measured on bare atoms; non-trivial = distinct object graph with a link; '
                     f'links seen: {acc}',
                samples=[{'shape': sp, 'impl': r['cls']} for sp, r in list(zip(shapes, sh))[-2:]],
                disagreements=dis, histograms={'chain_depth': depth_hist, 'chain_links': acc}, exhaustive=False,
                names=['Chain.classify~is_limited_retries_error/is_transient_error'])


def correspond(ctx):
    return _loop_corr(ctx).merge(_shape_corr(ctx))


def _loop_corr(ctx):
    cases = _corr_cases(ctx)
    grid = _delay_grid(ctx)
    out = ctx.run_impl('c21_retry.py', {'cases': cases, 'delay_cases': grid}, timeout=300)
    impl = out['results']
    model = _model_runs(ctx, cases, impl)
    dis = []
    distinct = set()
    hist = {'returned': 0, 'raised': 0, 'other': 0}
    len_hist = {}
    for c, r, (mo, mcalls, msleeps) in zip(cases, impl, model):
        sig = (c['entry'], c['patched'], tuple(None if x is None else tuple(x) for x in r['cls']))
        distinct.add(sig)
        io = r['outcome']
        hist['returned' if io == 'returned' else ('raised' if isinstance(io, list) and io[0] == 'raised' else 'other')] += 1
        len_hist[len(c['script'])] = len_hist.get(len(c['script']), 0) + 1
        m = {'outcome': mo, 'calls': mcalls, 'sleeps': [ms / 1000.0 for ms in msleeps]}
        i = {'outcome': io, 'calls': r['calls'], 'sleeps': r['sleeps']}
        if m != i:
            dis.append(Disagreement('Retry.run~retry_transient_errors_with_debug_string', _strip(c), m, i))
    # T smoke test: generated delay_ms_for_try vs the real function
    exprs = []
    for tries, base, mx, draw in grid:
        rr = '(fun n => 0)' if draw == 'lo' else ('(fun n => n - 1)' if draw == 'hi' else f'(fun n => {zlit(draw)} mod n)')
        exprs.append(f'C21.Gen.delay_ms_for_try {rr} {zlit(tries)} {zlit(base)} {zlit(mx)}')
    mdel = coq_eval(ctx, HEADER, exprs, label='delay')
    for g, mv, iv in zip(grid, mdel, out['delays']):
        if iv['value'] != mv:
            dis.append(Disagreement('Gen.delay_ms_for_try~delay_ms_for_try', g, mv, iv))
    if out.get('touched'):
        ctx.notes.append('stubs touched: ' + ', '.join(out['touched']))
    nontrivial = sum(1 for s in distinct if len(s[2]) >= 2)
    return Corr(evaluations=len(cases) + len(grid), distinct_nontrivial=nontrivial,
                rule='distinct (entry point, patched?, sequence of class vectors) with at least 2 failures; real coroutine '
                     '(asyncio loop, patched sleep/randrange) vs Retry.run instantiated with the generated decision/delay (vm_compute): '
                     'outcome, number of calls and every sleep compared exactly; plus delay_ms_for_try on a (tries, base, max, draw) grid',
                samples=[{'case': _strip(c), 'impl': {'outcome': r['outcome'], 'calls': r['calls'], 'sleeps': r['sleeps'][:4]}}
                         for c, r in list(zip(cases, impl))[-3:]],
                disagreements=dis,
                histograms={'outcome': hist, 'script_length': {str(k): v for k, v in sorted(len_hist.items())},
                            'stubs_touched': out.get('touched', [])},
                exhaustive=False,
                names=['Retry.run~retry_transient_errors_with_debug_string', 'Gen.delay_ms_for_try~delay_ms_for_try'])


def _strip(c):
    d = {k: v for k, v in c.items() if k != 'script' or 'ids' not in c}
    return d


# ------------------------------------------------------------------------------------------------ oracle (implementation only)

def _judge(case, r, consts):
    """The property statement on one run of the real helper.  Returns list of (kind, detail, culprit id)."""
    ids = case['ids']
    classes = [CAT[i][1] for i in ids]
    entry = case['entry']
    out = r['outcome']
    bad = []
    if out == 'runaway' or (isinstance(out, list) and out[0] in ('raised-other', 'returned-wrong')):
        return [('unexpected-outcome', f'{out}', ids[0] if ids else '-')]
    raised_at = out[1] if isinstance(out, list) else None
    stop = None
    for i, cl in enumerate(classes):
        if cl == 'retry':
            if raised_at == i:
                bad.append(('transient-not-retried', f'failure #{i + 1} ({ids[i]}) is transient/rate-limit but was raised', ids[i]))
                stop = i
                break
        elif cl in ('permanent', 'base'):
            if raised_at != i:
                bad.append(('permanent-retried', f'failure #{i + 1} ({ids[i]}) is {cl} but was not raised immediately (outcome {out})', ids[i]))
            stop = i
            break
        elif cl == 'limited':
            if raised_at == i:
                stop = i
                break
            if i >= 5:
                bad.append(('limited-retried-after-five', f'failure #{i + 1} ({ids[i]}) is limited-retry only but was retried', ids[i]))
                stop = i
                break
    if bad:
        return bad
    if stop is None:
        if out != 'returned':
            bad.append(('no-success', f'every failure had to be retried but the outcome is {out}', ids[-1] if ids else '-'))
        exp_calls = len(ids) + 1
    else:
        exp_calls = stop + 1
    if r['calls'] != exp_calls:
        bad.append(('calls', f'{r["calls"]} calls, expected {exp_calls}', ids[min(exp_calls, len(ids)) - 1] if ids else '-'))
    if len(r['sleeps']) != r['calls'] - 1:
        bad.append(('sleep-count', f'{len(r["sleeps"])} sleeps for {r["calls"]} calls', '-'))
    cap, base, mx = consts['LOG_2_MAX_MULTIPLIER'], consts['DEFAULT_BASE_DELAY_MS'], consts['DEFAULT_MAX_DELAY_MS']
    for k, s in enumerate(r['sleeps']):
        t = k + 1
        ms = round(s * 1000)
        if ms / 1000.0 != s:
            bad.append(('delay-not-ms', f'sleep {s!r} is not a whole number of ms / 1000.0', '-'))
            continue
        c = base * 2 ** min(t, cap)
        if ms > mx:
            bad.append(('delay-above-max', f'try {t}: slept {ms} ms > max {mx}', '-'))
        elif ms > min(c, mx):
            bad.append(('delay-above-ceiling', f'try {t}: slept {ms} ms > ceiling {c}', '-'))
        elif ms < min(c // 2, mx):
            bad.append(('delay-below-half-ceiling', f'try {t}: slept {ms} ms < {min(c // 2, mx)}', '-'))
    return bad


def _oracle_cases(ctx, budget):
    rng = ctx.rng
    ids = [k for k, _, _ in CATALOGUE]
    retry_ids = [k for k, _, c in CATALOGUE if c == 'retry']
    base_ids = [b for b, _, _ in BASES]
    cases = _load_corpus(ctx)
    entries = ASYNC_ENTRIES + ['sync']
    for k in ids + base_ids:
        for e in entries:
            cases.append(_case_from_ids([k], e, 'hi'))
            cases.append(_case_from_ids([k] * 7, e, 'lo'))
            pre = [rng.choice(retry_ids) for _ in range(5)]
            cases.append(_case_from_ids(pre + [k], e, 'hi'))
    for e in entries:
        cases.append(_case_from_ids([rng.choice(retry_ids) for _ in range(34)], e, 'hi'))
        cases.append(_case_from_ids([rng.choice(retry_ids) for _ in range(34)], e, 'lo'))
    for _ in range(ctx.scale(300, 5000) * budget):
        ln = rng.randint(1, 10)
        seq = [rng.choice(retry_ids) if rng.random() < 0.75 else rng.choice(ids + base_ids) for _ in range(ln)]
        draws = rng.choice(['lo', 'hi', [rng.randrange(1 << 30) for _ in range(ln)]])
        cases.append(_case_from_ids(seq, rng.choice(entries), draws))
    return cases


def oracle(ctx, budget):
    cases = _oracle_cases(ctx, budget)
    rng = ctx.rng
    grid = []
    for tries in list(range(0, 34)) + [50]:
        for base, mx in ((1000, 60000), (0, 1), (1, 3), (5, 10 ** 15), (1000, 1), (999, 59999)):
            for draw in ('lo', 'hi', rng.randrange(1 << 45)):
                grid.append([tries, base, mx, draw])
    out = ctx.run_impl('c21_retry.py', {'cases': cases, 'delay_cases': grid}, timeout=600)
    consts = out['constants']
    fails = []
    hist = {}
    for c, r in zip(cases, out['results']):
        group = 'sync' if c['entry'] == 'sync' else 'async'
        for kind, detail, culprit in _judge(c, r, consts):
            hist[kind] = hist.get(kind, 0) + 1
            fails.append(Failure(f'{group}:{kind}:{culprit}', f'{c["entry"]}: {detail}', _strip(c),
                                 expected=[CAT[i][1] for i in c['ids']], observed={k: r[k] for k in ('outcome', 'calls', 'sleeps')}))
    cap = consts['LOG_2_MAX_MULTIPLIER']
    for g, d in zip(grid, out['delays']):
        tries, base, mx, draw = g
        c = base * 2 ** min(tries, cap)
        v = d['value']
        kind = None
        if v is None:
            kind = 'delay-fn-raises'
        elif v > mx:
            kind = 'delay-fn-above-max'
        elif v > min(c, mx):
            kind = 'delay-fn-above-ceiling'
        elif v < min(c // 2, mx):
            kind = 'delay-fn-below-half-ceiling'
        if kind:
            hist[kind] = hist.get(kind, 0) + 1
            fails.append(Failure(f'{kind}', f'delay_ms_for_try(tries={tries}, base={base}, max={mx}) with randrange->{draw} gave {v}; '
                                            f'ceiling {c}', {'delay_case': g}, expected=[min(c // 2, mx), min(c, mx)], observed=d))
    fails.sort(key=lambda f: (len(json.dumps(f.case)), f.key))
    return fails, {'evaluations': len(cases) + len(grid),
                   'distinct_nontrivial': len({(c['entry'], tuple(c['ids'])) for c in cases if len(c['ids']) >= 2}),
                   'rule': 'oracle: retried / raised-at / calls / sleep bounds judged from the documented class of each catalogue exception '
                           '(real classifiers, real helpers incl. sync_retry_transient_errors); distinct (entry, id sequence) with >= 2 failures',
                   'samples': [{'case': _strip(c), 'observed': {k: r[k] for k in ('outcome', 'calls')}}
                               for c, r in list(zip(cases, out['results']))[-2:]],
                   'histograms': {'oracle_failures': hist, 'catalogue': {cl: sum(1 for _, _, c in CATALOGUE + BASES if c == cl)
                                                                         for cl in ('retry', 'limited', 'permanent', 'base')}}}


def replay(ctx, doc):
    case = doc.get('case') or doc          # replay files carry the case under 'case'; corpus files are the case
    if 'delay_case' in case:
        out = ctx.run_impl('c21_retry.py', {'cases': [], 'delay_cases': [case['delay_case']]})
        return {'delay_case': case['delay_case'], 'impl': out['delays'][0], 'constants': out['constants']}
    if 'ids' in case:
        c = _case_from_ids(case['ids'], case.get('entry', 'debug'), case.get('draws', []))
    elif 'script' in case:
        c = case
    else:
        return {'note': 'no replayable input in this file (theorem/translator breakage); stored document follows', 'doc': doc}
    out = ctx.run_impl('c21_retry.py', {'cases': [c], 'delay_cases': []})
    r = out['results'][0]
    res = {'case': _strip(c), 'impl': r}
    if 'ids' in c:
        res['expected_classes'] = [CAT[i][1] for i in c['ids']]
        res['property_violations'] = _judge(c, r, out['constants'])
    try:
        res['model'] = _model_runs(ctx, [c], [r])[0]
    except Exception as e:  # noqa  (model may not build when a proof/translation is broken)
        res['model'] = f'unavailable: {type(e).__name__}'
    return res
