"""C02 — billing aggregates equal the sum of attempt usage; compaction preserves totals.

Tie: X.
  (a) the shared family correspondence: the model's step (incl. update_attempt = clamp + bill, add_one_resource, and the group /
      ancestor / batch tables the billing keys are read from) against the real triggers attempts_after_update (117),
      attempt_resources_after_insert (116), the handlers add_attempt_resources / billing update and everything else, on minisql,
      comparing the token-summed aggregated_*_v3 tables after every op; `compact_billing` ops are in the histories and are no-ops of
      the model, so "compaction changes no total" is compared there as well;
  (b) compaction, token level: the REAL compact_agg_billing_project_users_table / _by_date_table run on minisql over randomly filled
      sharded tables against BatchDB/Compaction.v `compact` (targets chosen by `needs_compaction`), row for row.
Oracle: harness/batchdb/oracles.py::c02 (every aggregate recomputed from attempts x attempt_resources after every op of the corpus
and driver-in-the-loop histories, which contain compaction runs) + per-key totals before/after the real compaction loops.
"""
import json

from harness import core
from harness.core import Corr, Disagreement, Failure
from harness.batchdb import family

ID = 'C02'
COQ_PROPS = 'theories/BatchDB/Props_C02.v'
READY = True

META = dict(
    design_ref='§5.A C02',
    technique='Coq invariant proof over all histories of an executable model of the batch database + correspondence of the model with the '
              'real SQL routines/handlers on a MySQL-subset interpreter; compaction proved on a separate token-level model tied to the real '
              'compaction loops by differential execution',
    level_text='Machine-checked theorems (Coq 8.16, closed under the global context): after EVERY finite history of model operations (no '
               'legality assumption: any order and multiplicity of schedule / creating / started / complete reports incl. late, repeated and '
               'stale ones, attempt resource inserts before or after the start, billing heartbeats, unscheduling, instance deactivation, '
               'commits, cancellations, clean-ups) and for every key, the usage recorded per (batch, job, resource), per (batch, job group, '
               'resource) incl. the root group = the batch, per (billing project, user, resource) and in the by-date table (summed over days) '
               'equals the sum over the attempt_resources rows of quantity x billed time max(rollup-start,0) of the row\'s attempt - restricted '
               'to the job, to the jobs whose group has the group among its ancestors-or-self (each once: the ancestor rows of a group are proved '
               'pairwise distinct), resp. to the batches of that billing project and user; and no table holds anything under any other key. '
               'Compaction: for every sharded table, every list of target keys and every key, the per-key total after compaction equals the '
               'total before; a compacted key is left with one token-0 row holding the old total; rows of other keys are untouched.',
    level_note='Token shards and billing days are summed away in the main model (the by-date theorem is the statement that the days add up to '
               'the billing-project/user total); the compaction half is proved on a separate list-of-(key, token, usage) model. '
               'The model is hand-written and tied by execution, not proved equal to the SQL.',
    partial=False,
)
TRUSTED = family.COMMON_TRUSTED + [
    'hand model coq/theories/BatchDB/Compaction.v of one compaction transaction (SUM / DELETE / INSERT token 0), tied to the real loops by '
    'differential execution on randomly filled sharded tables',
]
ASSUMPTIONS = family.COMMON_ASSUMPTIONS + [
    'one billing day per model history: the by-date table is compared and proved summed over billing_date',
    'compaction runs as its own transactions (SELECT ... FOR UPDATE on the key serialises it against the billing triggers)',
]


def replay(ctx, doc):
    case = doc.get('case') or {}
    if isinstance(case, dict) and 'compaction_case' in case:
        r = _run_compaction(ctx, [case['compaction_case']])[0]
        return {'compaction_case': case['compaction_case'], 'before': r['before'], 'after': r['after'], 'result': r['result'],
                'totals_before': _totals(r['before']), 'totals_after': _totals(r['after'])}
    return family.replay(ctx, doc)


BPS = ['bp1', 'bp2', 'bp12']
USERS = ['u1', 'u2']


def _compaction_cases(ctx, n):
    rng = ctx.rng
    cases = []
    for i in range(n):
        which = 'bp_user' if i % 2 == 0 else 'by_date'
        nkeys = rng.randint(1, 4)
        keys = set()
        while len(keys) < nkeys:
            k = (rng.choice(BPS), rng.choice(USERS), rng.randint(1, 3))
            if which == 'by_date':
                k = (rng.randint(1, 3),) + k
            keys.add(k)
        rows = []
        for k in sorted(keys, key=str):
            toks = rng.sample(range(0, 4), rng.randint(1, 4))
            if rng.random() < 0.25:
                toks = [0]                      # already compact
            for t in toks:
                rows.append(list(k) + [t, rng.choice([0, 1, 7, rng.randint(0, 10 ** 6), rng.randint(0, 10 ** 12)])])
        rng.shuffle(rows)
        cases.append({'table': which, 'rows': rows})
    return cases


def _code(which, key):
    key = list(key)
    off = 1 if which == 'by_date' else 0
    key[off] = BPS.index(key[off]) + 1
    key[off + 1] = USERS.index(key[off + 1]) + 1
    return key


def _run_compaction(ctx, cases):
    return ctx.run_impl('c02_compact.py', {'seed': ctx.seed, 'cases': cases}, timeout=600)['results']


def _totals(rows):
    tot = {}
    for r in rows:
        k = json.dumps(r[:-2])
        tot[k] = tot.get(k, 0) + r[-1]
    return tot


def compaction_corr(ctx) -> Corr:
    cases = _compaction_cases(ctx, ctx.scale(60, 600))
    res = _run_compaction(ctx, cases)
    header = ('From HailV Require Import Common.Prelude BatchDB.Model BatchDB.Compaction.\nOpen Scope Z_scope.\n'
              'Definition flat (r : shard) : list Z := sh_key r ++ [sh_token r; sh_usage r].\n'
              'Definition run (t : list shard) (keys : list (list Z)) : list (list Z) := map flat (compact t (filter (needs_compaction t) keys)).')
    exprs = []
    for case, r in zip(cases, res):
        which = case['table']
        rows = [(_code(which, x[:-2]), x[-2], x[-1]) for x in r['before']]
        keys = []
        for k, _t, _u in rows:
            if k not in keys:
                keys.append(k)
        t = core.listlit([f'({core.listlit([core.zlit(v) for v in k])}, {core.zlit(tok)}, {core.zlit(u)})' for k, tok, u in rows])
        exprs.append(f'run {t} {core.listlit([core.listlit([core.zlit(v) for v in k]) for k in keys])}')
    model = core.coq_eval(ctx, header, exprs, label='c02compact')
    dis = []
    nontrivial = 0
    hist = {}
    for case, r, m in zip(cases, res, model):
        which = case['table']
        impl_after = sorted(_code(which, x[:-2]) + [x[-2], x[-1]] for x in r['after'])
        model_after = sorted(list(x) for x in m)
        changed = r['before'] != r['after']
        nontrivial += 1 if changed else 0
        hist[which] = hist.get(which, 0) + 1
        if 'ok' not in r['result'] or impl_after != model_after:
            dis.append(Disagreement('Compaction.compact~compact_agg_billing_project_users_*_table(minisql)', case, model_after,
                                    {'result': r['result'], 'after': impl_after}))
    return Corr(evaluations=len(cases), distinct_nontrivial=nontrivial,
                rule='compaction: randomly filled token-sharded tables (1-4 keys x 1-4 tokens, both tables); real compaction loops on minisql vs '
                     'Compaction.compact over the keys selected by needs_compaction, row for row (sorted); non-trivial = the table changed',
                samples=[{'case': cases[0], 'after': res[0]['after']}], disagreements=dis, histograms={'compaction_cases': hist},
                names=['Compaction.compact~compact_agg_billing_project_users_*_table(minisql)'])


def correspond(ctx) -> Corr:
    c = compaction_corr(ctx)
    c.merge(family.correspond(ctx))
    return c


_family_oracle = family.oracle_for(ID)


def oracle(ctx, budget):
    fails, stats = _family_oracle(ctx, budget)
    # compaction on the implementation only: per-key totals before = after, one token-0 row per compacted key
    cases = _compaction_cases(ctx, ctx.scale(40, 400) * budget)
    res = _run_compaction(ctx, cases)
    seen = set()
    for case, r in zip(cases, res):
        which = case['table']
        key = None
        if 'ok' not in r['result']:
            key = f'C02:compaction-failed:{which}'
        elif _totals(r['before']) != _totals(r['after']):
            key = f'C02:compaction-changed-total:{which}'
        elif any(x[-2] != 0 for x in r['after']):
            key = f'C02:compaction-left-token-shard:{which}'
        if key and key not in seen:
            seen.add(key)
            fails.append(Failure(key, f'{key}: {r["result"]}', {'compaction_case': case, 'before': r['before'], 'after': r['after']},
                                 _totals(r['before']), _totals(r['after'])))
    stats = dict(stats)
    stats['evaluations'] = int(stats.get('evaluations', 0)) + len(cases)
    stats['rule'] = stats.get('rule', '') + f'; + {len(cases)} runs of the real compaction loops: per-key totals before = after'
    return fails, stats
