"""C32 — value JSON conversion round-trips (hail/python/hail/expr/types.py::HailType._convert_to_json / _convert_from_json).

Model: coq/theories/HailJson/Model.v (hand model over the shared type/value universe of HailValues/Model.v).
Theorems: Props_C32.v (round trip for ALL well-formed types and ALL values of the type, by nested induction over types).
Tie: X — the real `_convert_to_json_na` / `_convert_from_json_na` of $VERIF_REPO (loaded with numpy, no JVM) and the
model's `to_json` / `from_json` (vm_compute) are run on the same generated typed values; the JSON trees and the
round-tripped values must coincide.  The oracle states the property on the implementation alone (also through the
text level `_to_json`/`_from_json`, i.e. including json.dumps/json.loads).
"""
import glob
import json
import os

from harness.core import Corr, Disagreement, Failure, coq_eval
from harness.hailfe import gen as G

ID = 'C32'
SRC = ['hail/python/hail/expr/types.py', 'hail/python/hail/utils/struct.py', 'hail/python/hail/genetics/call.py']
COQ_PROPS = 'theories/HailJson/Props_C32.v'
READY = True
META = dict(
    design_ref='§5.F C32',
    technique='Coq proof by nested induction over Hail types about a hand model of the JSON conversions; model tied to the real '
              'Python functions by a differential run on generated typed values (no JVM needed)',
    level_text='Machine-checked theorems (Coq 8.16, closed under the global context): for every well-formed Hail type (arbitrary nesting of '
               'int32/int64/float32/float64/bool/str/call/locus/interval/array/set/dict/struct/tuple/numeric ndarray; struct field names '
               'arbitrary distinct Unicode strings) and every value of the type (missing allowed wherever Hail allows it, including dict keys '
               'and values; floats as finite/NaN/+inf/-inf; calls of ploidy 0-2, phased or not, with unbounded allele numbers) '
               'from_json t (to_json t v) = v; hence to_json is injective; str(Call) parses back for all allele numbers. '
               'The model is the code as fixed by fixes/C32.diff (missing dict keys/values; struct field named "self").',
    level_note='Modelled, not verified: json.dumps/json.loads (the theorems are about the Python object tree handed to json.dumps; the '
               'oracle runs the text level on the implementation), numpy array construction, Python set/dict hashing (a set/dict is its '
               'iteration sequence; reconstruction is assumed not to merge entries, which follows from the round trip of the entries '
               'themselves). Floats are compared by class and bit pattern, never arithmetically. The tie is a correspondence run, not a translation.',
    partial=False,
)
TRUSTED = ['hand model coq/theories/HailJson/Model.v tied to the code only by the correspondence run (X)',
           'loader: numpy from /verif/.deps, functional shims decorator/parsimonious, stubbed pandas/py4j/pyspark (pd.NA is a stub: '
           'pandas missing values are outside the model)',
           'harness/impl/hail_values.py (construction of hail types/values from neutral descriptions, canonicalisation)',
           'CPython json, float, int <-> str']
ASSUMPTIONS = ['reference genomes are constructed with _builtin=True (no backend); a locus type is identified by its reference-genome name',
               'set elements / dict keys are generated pairwise distinct under Python equality',
               'n-d arrays have numeric element types (the only ones types.py converts)']

HEADER = ('From HailV Require Import Common.Prelude HailValues.Model HailJson.Model.\n'
          'Open Scope Z_scope.\n')


# ------------------------------------------------------------------------------------------------ cases

def _n(s):
    return G.cps(s)


HAND = [
    # the two defects repaired by fixes/C32.diff
    {'t': ['dict', 'int32', 'float64'], 'v': ['dict', [[['i', 1], None]]]},
    {'t': ['dict', ['array', 'int32'], 'str'], 'v': ['dict', [[None, ['s', _n('x')]]]]},
    {'t': ['dict', 'str', ['array', 'int32']], 'v': ['dict', [[['s', _n('a')], None], [None, ['arr', [['i', 1], None]]]]]},
    {'t': ['struct', [[_n('self'), 'int32']]], 'v': ['struct', [['i', 1]]]},
    {'t': ['array', ['struct', [[_n('self'), 'str'], [_n('a'), 'call']]]],
     'v': ['arr', [['struct', [None, ['call', False, [1, 2]]]], None]]},
    # scalars and edge values
    {'t': 'float64', 'v': ['f', 'nan', None]}, {'t': 'float64', 'v': ['f', 'inf', None]}, {'t': 'float32', 'v': ['f', '-inf', None]},
    {'t': 'float64', 'v': ['f', 'fin', 0x8000000000000000]}, {'t': 'float32', 'v': ['f', 'fin', 0x3dcccccd]},
    {'t': 'int64', 'v': ['i', -2**63]}, {'t': 'str', 'v': ['s', _n('nan')]}, {'t': 'str', 'v': ['s', []]},
    {'t': 'call', 'v': ['call', False, []]}, {'t': 'call', 'v': ['call', True, []]}, {'t': 'call', 'v': ['call', True, [0]]},
    {'t': 'call', 'v': ['call', False, [12]]}, {'t': 'call', 'v': ['call', True, [3, 1]]}, {'t': 'call', 'v': ['call', False, [1, 10**21]]},
    {'t': ['locus', _n('GRCh37')], 'v': ['locus', _n('1'), 12345]},
    {'t': ['interval', ['locus', _n('R1')]], 'v': ['iv', ['locus', _n('X'), 1], None, True, True]},
    {'t': ['set', ['array', 'float64']], 'v': ['set', [['arr', [['f', 'nan', None], None]], None, ['arr', []]]]},
    {'t': ['set', ['dict', 'str', 'int32']], 'v': ['set', [['dict', [[['s', _n('k')], ['i', 1]]]], ['dict', []]]]},
    {'t': ['tuple', []], 'v': ['tuple', []]}, {'t': ['struct', []], 'v': ['struct', []]},
    {'t': ['struct', [[_n('a²'), 'bool'], [_n(''), 'int32'], [_n('`'), 'str']]], 'v': ['struct', [['b', True], None, ['s', _n('`')]]]},
    {'t': ['ndarray', 'float64', 2], 'v': ['nd', [2, 3], [['f', 'fin', 0x3ff0000000000000 + i] for i in range(5)] + [['f', 'nan', None]], 'F']},
    {'t': ['ndarray', 'int32', 0], 'v': ['nd', [], [['i', 7]], 'C']},
    {'t': ['ndarray', 'bool', 3], 'v': ['nd', [2, 0, 3], [], 'C']},
    {'t': ['ndarray', 'float32', 1], 'v': ['nd', [2], [['f', 'fin', 0x3dcccccd], ['f', 'inf', None]], 'C']},
    {'t': ['dict', ['tuple', ['int32', 'str']], ['set', 'int64']],
     'v': ['dict', [[['tuple', [['i', 1], None]], ['set', [['i', 2**40], None]]], [['tuple', [None, None]], None]]]},
]


def _corpus(ctx):
    out = []
    for p in sorted(glob.glob(os.path.join(ctx.verif, 'corpus', ID, '*.json'))):
        doc = json.load(open(p))
        out += doc if isinstance(doc, list) else [doc]
    out = [c.get('case', c) for c in out]          # replay documents keep the input under 'case'
    return [{'t': c['t'], 'v': c['v']} for c in out]


def _cases(ctx, n):
    rng = ctx.rng
    opts = G.Opts(binary=False)
    cases = _corpus(ctx) + [dict(c) for c in HAND]
    while len(cases) < n:
        depth = rng.choice([0, 1, 1, 2, 2, 3, 3, 4])
        t = G.gen_type(rng, depth)
        v = G.gen_value(rng, t, opts, p_na=rng.choice([0.0, 0.1, 0.25]), top=rng.random() < 0.95)
        cases.append({'t': t, 'v': v})
    return cases


# ------------------------------------------------------------------------------------------------ JSON trees

def _child(t, what, i=0):
    k = G.kind(t)
    try:
        if what == 'elt':
            if k in ('array', 'set'):
                return t[1]
            if k == 'dict':
                return ['__dictentry__', t[1], t[2]]
            if k == 'tuple':
                return t[1][i]
        if what == 'field':
            if k == 'struct':
                return t[1][i][1]
            if k == 'interval':
                return t[1] if i < 2 else 'bool'
            if k == '__dictentry__':
                return t[1] if i == 0 else t[2]
            if k == 'ndarray':
                return ['__ndshape__'] if i == 0 else ['__nddata__', t[1]]
            if k == 'locus':
                return 'str' if i == 0 else 'int32'
        if what == 'elt' and k == '__nddata__':
            return t[1]
    except (IndexError, TypeError):
        pass
    return '?'


def read_json(t, x):
    """printed model [json] -> neutral JSON tree; float32-typed floats are widened to the Python float's 64-bit pattern."""
    n, a = G._ctor(x)
    if n == 'JNull':
        return ['null']
    if n == 'JBool':
        return ['bool', a[0]]
    if n == 'JInt':
        return ['int', a[0]]
    if n == 'JStr':
        return ['str', a[0]]
    if n == 'JFloat':
        f = G.read_fl(a[0])
        if f[1] == 'fin' and G.kind(t) == 'float32':
            return ['float', 'fin', G.f32_to_f64_bits(f[2])]
        return ['float', f[1], f[2]]
    if n == 'JList':
        return ['list', [read_json(_child(t, 'elt', i), y) for i, y in enumerate(a[0])]]
    if n == 'JObj':
        return ['obj', [[p[0], read_json(_child(t, 'field', i), p[1])] for i, p in enumerate(a[0])]]
    raise ValueError(n)


def norm_json(t, j):
    """Type-directed canonical form of a neutral JSON tree: the element list of a set is sorted (iteration order of a Python
    set is not part of the wire form's meaning). Tolerant: unexpected shapes are left alone."""
    try:
        if j[0] == 'list':
            elems = [norm_json(_child(t, 'elt', i), y) for i, y in enumerate(j[1])]
            if G.kind(t) == 'set':
                elems = sorted(elems, key=lambda y: json.dumps(y, sort_keys=True))
            return ['list', elems]
        if j[0] == 'obj':
            return ['obj', [[p[0], norm_json(_child(t, 'field', i), p[1])] for i, p in enumerate(j[1])]]
    except (TypeError, IndexError):
        pass
    return j


# ------------------------------------------------------------------------------------------------ tie

def _run_impl(ctx, cases):
    res = []
    for i in range(0, len(cases), 500):
        res += ctx.run_impl('c32_json.py', {'cases': cases[i:i + 500]}, timeout=300)['results']
    for c, r in zip(cases, res):
        if 'build_exc' in r:
            raise RuntimeError(f'harness could not build case {c}: {r["build_exc"]}')
    return res


def _model(ctx, cases):
    exprs = []
    for c in cases:
        T, V = G.coq_type(c['t']), G.coq_value(c['t'], c['v'])
        exprs.append(f'(wf_ty {T} && wt_json {T} {V}, to_json {T} {V}, from_json {T} (to_json {T} {V}))')
    return coq_eval(ctx, HEADER, exprs, shard=150)


def correspond(ctx):
    cases = _cases(ctx, ctx.scale(700, 8000))
    impl = _run_impl(ctx, cases)
    model = _model(ctx, cases)
    dis = []
    distinct = set()
    kinds = {}
    n_dictna = 0
    for c, m, r in zip(cases, model, impl):
        t, v = c['t'], c['v']
        key = json.dumps(c, sort_keys=True)
        if G.type_size(t) >= 2:
            distinct.add(key)
        for k in G.type_kinds(t):
            kinds[k] = kinds.get(k, 0) + 1
        n_dictna += G.has_missing_in_dict(t, v)
        ok, mj, mback = m
        if ok is not True:
            raise RuntimeError(f'generated case is not well-typed in the model: {c}')
        mj = norm_json(t, read_json(t, mj))
        if 'json' not in r:
            dis.append(Disagreement('to_json~_convert_to_json_na', c, mj, r.get('json_exc')))
            continue
        ij = norm_json(t, r['json'])
        if ij != mj:
            dis.append(Disagreement('to_json~_convert_to_json_na', c, mj, ij))
            continue
        mb = None if mback is None else G.canon_value(t, G.read_value(t, mback[1]))
        if 'back' not in r:
            dis.append(Disagreement('from_json~_convert_from_json_na', c, mb, r.get('back_exc')))
            continue
        ib = G.canon_value(t, r['back'])
        if mback is None or ib != mb:
            dis.append(Disagreement('from_json~_convert_from_json_na', c, mb, ib))
    return Corr(evaluations=2 * len(cases), distinct_nontrivial=len(distinct),
                rule='(type, value) pairs: corpus + hand-written edge cases + seeded random nested types (depth <= 4) with typed values; '
                     'non-trivial = type with at least one constructor nesting; each pair compares the JSON tree and the value read back, '
                     'real types.py vs Gallina model (vm_compute); set element order canonicalised',
                samples=[{'case': c, 'impl': r} for c, r in list(zip(cases, impl))[-3:]],
                disagreements=dis,
                histograms={'type_constructors': dict(sorted(kinds.items())), 'cases_with_missing_dict_key_or_value': n_dictna},
                names=['to_json~_convert_to_json_na', 'from_json~_convert_from_json_na'])


# ------------------------------------------------------------------------------------------------ oracle

def _has_nan_or_nd(t, v):
    if v is None:
        return False
    k = G.kind(t)
    if k in ('float32', 'float64'):
        return v[1] == 'nan'
    if k == 'ndarray':
        return True
    if k == 'interval':
        return _has_nan_or_nd(t[1], v[1]) or _has_nan_or_nd(t[1], v[2])
    if k in ('array', 'set'):
        return any(_has_nan_or_nd(t[1], x) for x in v[1])
    if k == 'dict':
        return any(_has_nan_or_nd(t[1], a) or _has_nan_or_nd(t[2], b) for a, b in v[1])
    if k == 'struct':
        return any(_has_nan_or_nd(f[1], x) for f, x in zip(t[1], v[1]))
    if k == 'tuple':
        return any(_has_nan_or_nd(tt, x) for tt, x in zip(t[1], v[1]))
    return False


def _has_self_field(t):
    k = G.kind(t)
    if k == 'struct':
        return any(G.uncps(f[0]) == 'self' or _has_self_field(f[1]) for f in t[1])
    if k in ('interval', 'array', 'set'):
        return _has_self_field(t[1])
    if k == 'dict':
        return _has_self_field(t[1]) or _has_self_field(t[2])
    if k == 'tuple':
        return any(_has_self_field(x) for x in t[1])
    return False


def _exc_key(side, c, e):
    """Finding key of an exception: the two known input classes get their own stable key."""
    if 'Struct.__init__' in e.get('msg', '') and _has_self_field(c['t']):
        return f'{side}-raises:struct-field-named-self'
    return f'{side}-raises:{e["exc"]}:{e["where"]}'


def _judge(c, r):
    """The property on one implementation result: list of (key, what, expected, observed)."""
    t, v = c['t'], c['v']
    want = G.canon_value(t, v)
    out = _judge0(c, r, want)
    if G.has_missing_in_dict(t, v):
        # one input class: a missing dict key/value is converted with the non-missing-aware _convert_to_json
        out = [('missing-dict-key-or-value:' + k.split(':')[0], w, e, o) for k, w, e, o in out]
    return out


def _judge0(c, r, want):
    t, v = c['t'], c['v']
    out = []
    if 'json_exc' in r:
        e = r['json_exc']
        return [(_exc_key('to_json', c, e), f'_convert_to_json raised {e["exc"]} at {e["where"]}: {e["msg"]}', want, e)]
    if 'back_exc' in r:
        e = r['back_exc']
        return [(_exc_key('from_json', c, e), f'_convert_from_json raised {e["exc"]} at {e["where"]}: {e["msg"]}', want, e)]
    for lvl, bk, ek, eqk in (('object', 'back', None, 'eq'), ('text', 'text_back', 'text_exc', 'text_eq')):
        if ek and ek in r:
            e = r[ek]
            out.append((_exc_key('text-level', c, e), f'_to_json/_from_json raised {e["exc"]} at {e["where"]}: {e["msg"]}', want, e))
            continue
        got = G.canon_value(t, r[bk])
        if got != want:
            path = '/'.join(G.diff_path(t, want, got))
            out.append((f'{lvl}-roundtrip-differs:{path.split("/")[-1]}', f'value read back differs from the original at {path} ({lvl} level)', want, got))
        elif not r[eqk]:
            out.append((f'{lvl}-roundtrip-not-equal', 'canonical forms agree but the Python objects are not equal (container class changed?)',
                        want, got))
        if out:
            break
    if r.get('pyeq') is False and not _has_nan_or_nd(t, v) and not out:
        out.append(('python-eq-false', 'original == read-back is False on a NaN-free value', want, r.get('back')))
    return out


def oracle(ctx, budget):
    cases = _cases(ctx, ctx.scale(900, 10000) * budget)
    impl = _run_impl(ctx, cases)
    fails = []
    for c, r in zip(cases, impl):
        for key, what, exp, obs in _judge(c, r):
            fails.append(Failure(key, what, c, exp, obs))
    # smallest witness first for each key
    fails.sort(key=lambda f: len(json.dumps(f.case)))
    return fails, {'evaluations': 2 * len(cases),
                   'distinct_nontrivial': len({json.dumps(c, sort_keys=True) for c in cases if G.type_size(c['t']) >= 2}),
                   'rule': 'oracle: from(to(v)) == v on the real functions, object level and text level (json.dumps/loads)',
                   'samples': [{'case': cases[-1], 'impl': impl[-1]}]}


def replay(ctx, doc):
    case = doc['case']
    case = {'t': case['t'], 'v': case['v']}
    r = _run_impl(ctx, [case])[0]
    out = {'case': case, 'impl': r, 'property_failures': [dict(key=k, what=w) for k, w, _, _ in _judge(case, r)]}
    try:
        m = _model(ctx, [case])[0]
        out['model'] = {'well_typed': m[0], 'to_json': norm_json(case['t'], read_json(case['t'], m[1])),
                        'from_json': None if m[2] is None else G.canon_value(case['t'], G.read_value(case['t'], m[2][1]))}
    except Exception as e:  # noqa: BLE001
        out['model'] = f'model evaluation failed: {e}'
    return out
