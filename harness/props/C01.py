"""C01 — scheduler job/core counters always match job states.

Tie: X (shared family correspondence: model step ~ real SQL routines + triggers + handlers on minisql, result and full
observable projection — including user_inst_coll_resources, job_group_inst_coll_cancellable_resources and
job_groups_inst_coll_staging summed over token shards — compared after every op).
Proof: coq/theories/BatchDB/Counters*.v — one invariant [CountersInv.CInv] over all good histories of the frozen model:
  CountersAlg     the jobs_after_update trigger's deltas are exactly indicator(new row) - indicator(old row); what one
                  update_job adds to the summed counters;
  CountersInv     the invariant (user counters, group cancellable counters for every selection of (update, inst_coll),
                  staging counters of uncommitted updates, the group forest, in-order commits, Ready uncommitted jobs are
                  not cancelled), its preservation by one trigger firing and by folds of firings over distinct rows;
  CountersDriver  schedule / unschedule / creating / started / complete (+ children) / deactivate / clean-up loops;
  CountersStruct  create batch / update / job groups (the forest gains a leaf);
  CountersJobs    job insertion (staging and cancellable rows for every ancestor);
  CountersCommit  commit_batch_update (staged ready counts -> user counters, recomputation of the update's rows);
  CountersCancel  cancel_job_group / delete batch (committed cancellable sums -> cancelled columns, rows subtracted from
                  the group and all ancestors);
  Counters        assembly, readable statements, concrete example.
Oracle: harness/batchdb/oracles.py::c01 (both tables recomputed from the jobs' states, cancellation marks and always_run
flags of the implementation's tables after every op of the corpus — incl. corpus/C01 — and driver-in-the-loop histories).
"""
from harness.batchdb import family

ID = 'C01'
COQ_PROPS = 'theories/BatchDB/Props_C01.v'
READY = True

META = dict(
    design_ref='§5.A C01',
    technique='Coq invariant proof over all histories of an executable model of the batch database + '
              'correspondence of the model with the real SQL routines/handlers on a MySQL-subset interpreter',
    level_text='Machine-checked theorems (Coq 8.16, closed under the global context) over ALL good histories of the batch-database model (any '
               'interleaving, repetition, delay and staleness of batch / update (incl. empty and multi-bunch) / nested job-group / job creation, commit, '
               'job-group and batch cancellation, deletion, schedule, unschedule, creating / started / complete reports, instance deactivation and '
               'the two background clean-up loops; "good" = driver/worker messages legal per Legal.v, client requests schema-valid per DepsDef.client_ok): '
               'after every such history, for every user and inst_coll, all eight summed columns of user_inst_coll_resources (n_ready, ready_cores, '
               'n_running, running_cores, n_creating, n_cancelled_ready / _running / _creating) equal the recount over the jobs of committed updates of '
               'that user\'s batches by state, with "cancelled" = not always_run and (job.cancelled or an ancestor-or-self job group is cancelled) '
               '(C01_user_counters); for every batch, update, inst_coll and every job group that is not cancelled, all five summed columns of '
               'job_group_inst_coll_cancellable_resources equal the recount over the cancellable jobs of that update in the group and its descendants '
               '(C01_group_cancellable; for uncommitted updates these are exactly the parentless Ready jobs of update 1: C01_group_cancellable_uncommitted); '
               'for every uncommitted update the root-group staging rows per inst_coll hold the number of jobs and the number / cores of the Ready ones, '
               'i.e. what commit adds to the user counters (C01_staged_ready); the ancestor table is a forest (C01_group_forest); the invariant is '
               'inductive from any state satisfying it together with the dependency invariant (C01_step); concrete nested-group / cancellation example '
               'computed by the model (C01_demo). No hypothesis beyond Deps.good_history; nothing admitted; not partial.',
    level_note='Rows of job_group_inst_coll_cancellable_resources that belong to a CANCELLED group are deliberately not constrained: cancel_job_group '
               'zeroes the rows of the cancelled group and leaves those of its descendants stale until the clean-up loop deletes them (shown in C01_demo); '
               'nothing reads them (cancel_job_group returns early for an already cancelled group). The in-order-commit assumption of Legal.v is used: with '
               'update 2 committed before update 1 a job of update 1 can sit in a group that is cancelled before its commit and would be counted as ready '
               '(the C41 finding about out-of-order commits). Token shards are summed by the model; the model is hand-written and tied to the SQL by '
               'execution, not proved equal to it.',
    partial=False,
)
TRUSTED = family.COMMON_TRUSTED + [
    'token shards of the three counter tables are summed away by the model and by the observable projection (the property is about the sums the '
    'scheduler, autoscaler and canceller read)',
]
ASSUMPTIONS = family.COMMON_ASSUMPTIONS + [
    'Legal.v earlier_committed: the updates of a batch are committed in update order (the client library commits an update before it opens the next); '
    'used for "a Ready job of an uncommitted update sits below no cancelled non-root group"',
    'DepsDef.client_ok: job-group ids of a bunch are contiguous, parents non-negative, update sizes non-negative (front-end schema validation)',
]

correspond = family.correspond
oracle = family.oracle_for(ID)
replay = family.replay
